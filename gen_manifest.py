#!/usr/bin/env python3
"""Regenerates MANIFEST.json from props/*.json (run after adding or changing a check)."""
import json
import os
import subprocess

ROOT = os.path.dirname(os.path.abspath(__file__))
from props_config import PROPS

all_ids = [json.loads(l)["id"] for l in open(os.path.join(ROOT, "properties.jsonl"))]
hooks = subprocess.run(["git", "-C", "/repo", "log", "--format=%H %s"], capture_output=True, text=True).stdout.splitlines()
hook_commits = [l.split()[0] for l in hooks if " verif hooks:" in " " + l]

checks = []
for pid in all_ids:
    if pid not in PROPS:
        continue
    c = PROPS[pid]
    m = c["manifest"]
    checks.append({
        "property_id": pid,
        "quick_cmd": "./check %s quick" % pid,
        "thorough_cmd": "./check %s thorough" % pid,
        "evidence_file": "/verif/evidence/%s.json" % pid,
        "replay_cmd_template": "./check %s --replay {path}" % pid,
        "engine": m.get("engine", "harness"),
        "level_claimed": {"category": c["level"], "text": m["level_text"], "design_ref": m.get("design_ref", "DESIGN.md section 6, " + pid)},
        "level_note": m["level_note"],
        "technique": m["technique"],
    })

na_reasons = {}
try:
    na_reasons = json.load(open(os.path.join(ROOT, "props", "not_applicable.json")))
except OSError:
    pass
not_applicable = [{"property_id": pid, "reason": na_reasons.get(pid, "check not built yet in this round; see DESIGN.md section 6 for the planned monitor")}
                  for pid in all_ids if pid not in PROPS]

manifest = {
    "version": 1,
    "setup_cmd": "./setup.sh",
    "hooks": {
        "guard": "verif",
        "enable": "go build tag: go1.26.8 test -tags verif (harness module with replace github.com/dtn7/dtn7-go => /repo)",
        "baseline_off_cmd": "cd /repo && GOFLAGS=-mod=mod GOPROXY=off GOSUMDB=off go test -mod=mod -json -vet=off -count=1 -timeout 25m ./...",
        "source_commits": hook_commits,
        "add_only": True,
    },
    "engines": [
        {"name": "harness", "path": "/verif/harness", "serves_properties": [c["property_id"] for c in checks],
         "kind_free_text": "Go test binaries (go1.26.8, -tags verif, optionally -race) that drive the real packages under "
                           "generated/hostile workloads inside testing/synctest bubbles or over real sockets, with monitors "
                           "(reference models, independent codec/CRC, trace oracles); python driver ./check shards them into "
                           "child processes, attributes process-fatal events through a journal, triages race logs and "
                           "writes evidence"},
    ],
    "checks": checks,
    "notes": "All checks rebuild from /repo's working tree on every run. Exit 0 held / 1 violation / 2 inconclusive "
             "(never on the unchanged tree). Known findings: /verif/known_findings.json.",
    "not_applicable": not_applicable,
}
json.dump(manifest, open(os.path.join(ROOT, "MANIFEST.json"), "w"), indent=1)
print("MANIFEST.json: %d checks, %d not claimed" % (len(checks), len(not_applicable)))
