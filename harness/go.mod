module verifh

go 1.26

require (
	github.com/anishathalye/porcupine v1.3.0
	github.com/dtn7/dtn7-go v0.0.0
	github.com/sirupsen/logrus v1.7.0
	github.com/ulikunitz/xz v0.5.8
)

require (
	github.com/dtn7/cboring v0.1.5 // indirect
	github.com/hashicorp/errwrap v1.1.0 // indirect
	github.com/hashicorp/go-multierror v1.1.0 // indirect
	github.com/howeyc/crc16 v0.0.0-20171223171357-2b2a61e366a6 // indirect
	golang.org/x/sys v0.0.0-20201117222635-ba5294a509c7 // indirect
)

replace github.com/dtn7/dtn7-go => /repo
