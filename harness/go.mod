module verifh

go 1.26

require (
	github.com/anishathalye/porcupine v1.3.0
	github.com/dtn7/dtn7-go v0.0.0
	github.com/gorilla/mux v1.8.0
	github.com/sirupsen/logrus v1.7.0
	github.com/timshannon/badgerhold v1.0.0
	github.com/ulikunitz/xz v0.5.8
)

require (
	github.com/AndreasBriese/bbloom v0.0.0-20190825152654-46b345b51c96 // indirect
	github.com/RyanCarrier/dijkstra v1.0.0 // indirect
	github.com/cespare/xxhash v1.1.0 // indirect
	github.com/dgraph-io/badger v1.6.2 // indirect
	github.com/dgraph-io/ristretto v0.0.3 // indirect
	github.com/dtn7/cboring v0.1.5 // indirect
	github.com/dtn7/rf95modem-go v0.3.1 // indirect
	github.com/dustin/go-humanize v1.0.0 // indirect
	github.com/golang/protobuf v1.4.3 // indirect
	github.com/gorilla/websocket v1.4.2 // indirect
	github.com/hashicorp/errwrap v1.1.0 // indirect
	github.com/hashicorp/go-multierror v1.1.0 // indirect
	github.com/howeyc/crc16 v0.0.0-20171223171357-2b2a61e366a6 // indirect
	github.com/pkg/errors v0.9.1 // indirect
	github.com/schollz/peerdiscovery v1.6.1 // indirect
	github.com/tarm/serial v0.0.0-20180830185346-98f6abe2eb07 // indirect
	golang.org/x/net v0.0.0-20201110031124-69a78807bb2b // indirect
	golang.org/x/sys v0.0.0-20201117222635-ba5294a509c7 // indirect
	google.golang.org/protobuf v1.25.0 // indirect
)

replace github.com/dtn7/dtn7-go => /repo
