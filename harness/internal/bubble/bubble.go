// Package bubble runs workloads under testing/synctest's fake clock at a fixed date.
package bubble

import (
	"fmt"
	"io"
	"os"
	"testing"
	"testing/synctest"
	"time"

	log "github.com/sirupsen/logrus"

	"github.com/dtn7/dtn7-go/pkg/bpv7"
)

// Epoch2000 is the start of the fake clock (and DTN time zero).
var Epoch2000 = time.Date(2000, 1, 1, 0, 0, 0, 0, time.UTC)

// Start is the fixed instant every bubble first sleeps to.
var Start = time.Date(2026, 3, 1, 12, 0, 0, 0, time.UTC)

// NowMs returns the current DTN time in milliseconds (valid inside and outside a bubble).
func NowMs() uint64 { return uint64(time.Now().Sub(Epoch2000) / time.Millisecond) }

// RegisterBlocks registers the routing and signature extension blocks the daemon registers on demand.
func RegisterBlocks() {
	m := bpv7.GetExtensionBlockManager()
	if !m.IsKnown(bpv7.ExtBlockTypeBinarySprayBlock) {
		_ = m.Register(bpv7.NewBinarySprayBlock(0))
	}
	if !m.IsKnown(bpv7.ExtBlockTypeDTLSRBlock) {
		_ = m.Register(bpv7.NewDTLSRBlock(bpv7.DTLSRPeerData{}))
	}
	if !m.IsKnown(bpv7.ExtBlockTypeProphetBlock) {
		_ = m.Register(bpv7.NewProphetBlock(nil))
	}
	if !m.IsKnown(bpv7.ExtBlockTypeSignatureBlock) {
		_ = m.Register(&bpv7.SignatureBlock{})
	}
}

// Quiet silences the repository's logging unless VERIF_LOG is set.
func Quiet() {
	if os.Getenv("VERIF_LOG") == "" {
		log.SetOutput(io.Discard)
		log.SetLevel(log.PanicLevel)
	} else {
		log.SetLevel(log.DebugLevel)
	}
}

// Run executes f inside a bubble whose clock was advanced to Start. A panic that escapes the bubble
// (including synctest's own deadlock report) is returned as an error.
func Run(t *testing.T, f func(t *testing.T)) (err error) {
	if t == nil {
		t = defaultT
	}
	// The bubble runs in a subtest of its own: when the race detector has reported something during a bubble,
	// synctest.Test ends with FailNow, which must end this one scenario, not the whole check.
	t.Run("bubble", func(st *testing.T) {
		defer func() {
			if p := recover(); p != nil {
				err = fmt.Errorf("bubble panic: %v", p)
			}
		}()
		synctest.Test(st, func(t *testing.T) {
			time.Sleep(Start.Sub(time.Now()))
			f(t)
		})
	})
	return err
}

var defaultT *testing.T

// SetT sets the *testing.T used by Run(nil, ...).
func SetT(t *testing.T) { defaultT = t }

// Wait is synctest.Wait.
func Wait() { synctest.Wait() }
