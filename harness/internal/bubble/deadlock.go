package bubble

import (
	"os"
	"regexp"
	"runtime"
	"strconv"
	"strings"
	"sync"
	"time"
)

var watchOnce sync.Once

var blockedHead = regexp.MustCompile(`^goroutine \d+ (?:gp=\S+ m=\S+(?: mp=\S+)? )?\[(sync\.(?:RW)?Mutex\.(?:R)?Lock|semacquire)(?:, (\d+) minutes)?`)
var repoFrame = regexp.MustCompile(`^(github\.com/dtn7/dtn7-go/.+?)\([^()]*\)$`)

// WatchDeadlocks starts (once per process, outside any bubble) a real-time monitor for the one kind of deadlock that
// neither the Go runtime nor synctest reports: a goroutine of the node blocked on a mutex for minutes, because the
// holder waits for something that can never happen.  A goroutine that has been in sync.Mutex.Lock for at least
// `minutes` minutes is reported through cb with the first repository frame of its stack and the full dump; a mere
// overload of the machine cannot produce that state, because a mutex holder that is runnable releases it eventually.
func WatchDeadlocks(minutes int, cb func(frame, dump string)) {
	watchOnce.Do(func() {
		go func() {
			for {
				time.Sleep(20 * time.Second)
				buf := make([]byte, 8<<20)
				n := runtime.Stack(buf, true)
				dump := string(buf[:n])
				lines := strings.Split(dump, "\n")
				for i, ln := range lines {
					m := blockedHead.FindStringSubmatch(ln)
					if m == nil || m[2] == "" {
						continue
					}
					if mins, _ := strconv.Atoi(m[2]); mins < minutes {
						continue
					}
					frame := "?"
					for _, l2 := range lines[i+1:] {
						if l2 == "" {
							break
						}
						if f := repoFrame.FindStringSubmatch(l2); f != nil {
							frame = strings.TrimPrefix(f[1], "github.com/dtn7/dtn7-go/")
							break
						}
					}
					if frame == "?" {
						continue // a lock of the harness or a library, not of the node
					}
					cb(frame, dump)
					os.Exit(1)
				}
			}
		}()
	})
}
