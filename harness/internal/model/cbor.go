// Package model holds a neutral description of BPv7 bundles that is independent of the code under test:
// an own CBOR writer and item walker, bitwise CRCs, a validity predicate written from the property statement,
// seeded generators, and conversions from/to the repository's structs.
package model

import (
	"encoding/binary"
	"errors"
	"math"
)

// Enc is a minimal deterministic CBOR writer (definite lengths, shortest heads) that remembers where heads are.
type Enc struct {
	B     []byte
	Heads []Head // every length/count head written through the *Len functions
	Ctx   *EncCtx
}

// EncCtx is shared by nested encoders: it numbers all heads (integers, lengths, counts) in writing order and
// can force a non-minimal argument width for chosen ones.
type EncCtx struct {
	N     int         // heads written so far
	Widen map[int]int // head index -> forced width in bytes (1, 2, 4, 8)
}

// Head locates one length or count field in the encoding.
type Head struct {
	Off   int    // offset of the initial byte
	Len   int    // bytes of the head including the initial byte
	Major byte   // major type (0..7)
	Val   uint64 // encoded argument
	What  string
}

func (e *Enc) head(major byte, n uint64) {
	m := major << 5
	if e.Ctx != nil {
		idx := e.Ctx.N
		e.Ctx.N++
		if w, ok := e.Ctx.Widen[idx]; ok {
			min := 0
			switch {
			case n < 24:
			case n < 1<<8:
				min = 1
			case n < 1<<16:
				min = 2
			case n < 1<<32:
				min = 4
			default:
				min = 8
			}
			if w >= min && w > 0 {
				e.B = append(e.B, HeadWidth(major, n, w)...)
				return
			}
		}
	}
	switch {
	case n < 24:
		e.B = append(e.B, m|byte(n))
	case n < 1<<8:
		e.B = append(e.B, m|24, byte(n))
	case n < 1<<16:
		e.B = append(e.B, m|25, byte(n>>8), byte(n))
	case n < 1<<32:
		e.B = append(e.B, m|26, byte(n>>24), byte(n>>16), byte(n>>8), byte(n))
	default:
		e.B = append(e.B, m|27)
		var b [8]byte
		binary.BigEndian.PutUint64(b[:], n)
		e.B = append(e.B, b[:]...)
	}
}

// HeadWidth writes a head with a forced argument width (0 = immediate, 1, 2, 4, 8 bytes); used for non-minimal heads.
func HeadWidth(major byte, n uint64, width int) []byte {
	m := major << 5
	switch width {
	case 0:
		return []byte{m | byte(n&0x1f)}
	case 1:
		return []byte{m | 24, byte(n)}
	case 2:
		return []byte{m | 25, byte(n >> 8), byte(n)}
	case 4:
		return []byte{m | 26, byte(n >> 24), byte(n >> 16), byte(n >> 8), byte(n)}
	default:
		var b [9]byte
		b[0] = m | 27
		binary.BigEndian.PutUint64(b[1:], n)
		return b[:]
	}
}

func (e *Enc) lenHead(major byte, n uint64, what string) {
	off := len(e.B)
	e.head(major, n)
	e.Heads = append(e.Heads, Head{Off: off, Len: len(e.B) - off, Major: major, Val: n, What: what})
}

func (e *Enc) UInt(n uint64)                 { e.head(0, n) }
func (e *Enc) Array(n uint64, what string)   { e.lenHead(4, n, what) }
func (e *Enc) Map(n uint64, what string)     { e.lenHead(5, n, what) }
func (e *Enc) Bytes(b []byte, what string)   { e.lenHead(2, uint64(len(b)), what); e.B = append(e.B, b...) }
func (e *Enc) Text(s string, what string)    { e.lenHead(3, uint64(len(s)), what); e.B = append(e.B, s...) }
func (e *Enc) Raw(b []byte)                  { e.B = append(e.B, b...) }
func (e *Enc) Float64(f float64) {
	e.B = append(e.B, 0xfb)
	var b [8]byte
	binary.BigEndian.PutUint64(b[:], math.Float64bits(f))
	e.B = append(e.B, b[:]...)
}

// ---- item walker ----

var ErrWalk = errors.New("cbor walk: malformed")

// readHead decodes one head at b[i:]; returns major, argument, additional-info and the new offset.
func readHead(b []byte, i int) (major byte, n uint64, ai byte, j int, err error) {
	if i >= len(b) {
		return 0, 0, 0, i, ErrWalk
	}
	major = b[i] >> 5
	ai = b[i] & 0x1f
	j = i + 1
	switch {
	case ai < 24:
		n = uint64(ai)
	case ai <= 27:
		l := 1 << (ai - 24)
		if j+l > len(b) {
			return 0, 0, 0, i, ErrWalk
		}
		for k := 0; k < l; k++ {
			n = n<<8 | uint64(b[j+k])
		}
		j += l
	case ai == 31:
		// indefinite / break
	default:
		return 0, 0, 0, i, ErrWalk
	}
	return
}

// SkipItem returns the offset after the CBOR data item starting at b[i]; depth-limited.
func SkipItem(b []byte, i int, depth int) (int, error) {
	if depth > 64 {
		return i, ErrWalk
	}
	major, n, ai, j, err := readHead(b, i)
	if err != nil {
		return i, err
	}
	if ai == 31 {
		switch major {
		case 2, 3, 4, 5:
			for {
				if j >= len(b) {
					return i, ErrWalk
				}
				if b[j] == 0xff {
					return j + 1, nil
				}
				if j, err = SkipItem(b, j, depth+1); err != nil {
					return i, err
				}
			}
		default:
			return i, ErrWalk // a lone break is not an item
		}
	}
	switch major {
	case 0, 1, 7:
		return j, nil
	case 2, 3:
		if n > uint64(len(b)-j) {
			return i, ErrWalk
		}
		return j + int(n), nil
	case 4:
		for k := uint64(0); k < n; k++ {
			if j, err = SkipItem(b, j, depth+1); err != nil {
				return i, err
			}
		}
		return j, nil
	case 5:
		for k := uint64(0); k < 2*n; k++ {
			if j, err = SkipItem(b, j, depth+1); err != nil {
				return i, err
			}
		}
		return j, nil
	case 6:
		return SkipItem(b, j, depth+1)
	}
	return i, ErrWalk
}

// Span is a half-open byte range.
type Span struct{ Start, End int }

// WalkBundle delimits the blocks of a bundle encoding without interpreting them:
// 0x9f, items..., 0xff and nothing after. blocks[0] is the primary block.
func WalkBundle(b []byte) (blocks []Span, err error) {
	if len(b) < 2 || b[0] != 0x9f {
		return nil, ErrWalk
	}
	i := 1
	for {
		if i >= len(b) {
			return nil, ErrWalk
		}
		if b[i] == 0xff {
			if i+1 != len(b) {
				return blocks, errTrailing
			}
			return blocks, nil
		}
		j, err := SkipItem(b, i, 0)
		if err != nil {
			return nil, err
		}
		blocks = append(blocks, Span{i, j})
		i = j
	}
}

var errTrailing = errors.New("cbor walk: bytes after the break code")

// ArrayItems returns the spans of the elements of the definite-length array item at b[s.Start:s.End].
func ArrayItems(b []byte, s Span) (items []Span, err error) {
	major, n, ai, j, err := readHead(b, s.Start)
	if err != nil || major != 4 || ai == 31 {
		return nil, ErrWalk
	}
	for k := uint64(0); k < n; k++ {
		e, err := SkipItem(b, j, 0)
		if err != nil || e > s.End {
			return nil, ErrWalk
		}
		items = append(items, Span{j, e})
		j = e
	}
	if j != s.End {
		return nil, ErrWalk
	}
	return items, nil
}

// UIntAt decodes an unsigned integer item.
func UIntAt(b []byte, s Span) (uint64, bool) {
	major, n, ai, j, err := readHead(b, s.Start)
	if err != nil || major != 0 || ai == 31 || j != s.End {
		return 0, false
	}
	return n, true
}

// BytesAt decodes a definite-length byte string item and returns the span of its content.
func BytesAt(b []byte, s Span) (Span, bool) {
	major, n, ai, j, err := readHead(b, s.Start)
	if err != nil || major != 2 || ai == 31 || uint64(s.End-j) != n {
		return Span{}, false
	}
	return Span{j, s.End}, true
}
