package model

// Bitwise (table-free) CRCs, written from the parameter catalogue, not from the repository.

// CRC16X25: poly 0x1021 reflected (0x8408), init 0xffff, refin/refout, xorout 0xffff.
func CRC16X25(data []byte) uint16 {
	crc := uint16(0xffff)
	for _, b := range data {
		crc ^= uint16(b)
		for i := 0; i < 8; i++ {
			if crc&1 != 0 {
				crc = crc>>1 ^ 0x8408
			} else {
				crc >>= 1
			}
		}
	}
	return ^crc
}

// CRC32C: Castagnoli poly 0x1EDC6F41 reflected (0x82F63B78), init/xorout 0xffffffff.
func CRC32C(data []byte) uint32 {
	crc := uint32(0xffffffff)
	for _, b := range data {
		crc ^= uint32(b)
		for i := 0; i < 8; i++ {
			if crc&1 != 0 {
				crc = crc>>1 ^ 0x82F63B78
			} else {
				crc >>= 1
			}
		}
	}
	return ^crc
}

// CRCBytes returns the big-endian CRC value of the given type (1 = X-25, 2 = CRC-32C) over data.
func CRCBytes(typ uint64, data []byte) []byte {
	switch typ {
	case 1:
		c := CRC16X25(data)
		return []byte{byte(c >> 8), byte(c)}
	case 2:
		c := CRC32C(data)
		return []byte{byte(c >> 24), byte(c >> 16), byte(c >> 8), byte(c)}
	}
	return nil
}

// CRCLen is the width of the CRC field in bytes.
func CRCLen(typ uint64) int {
	switch typ {
	case 1:
		return 2
	case 2:
		return 4
	}
	return 0
}
