package model

import "bytes"

// CRCVerdict is the independent judgement of a (possibly mutated) bundle encoding.
type CRCVerdict struct {
	MustReject bool   // framing broken, or a CRC-declaring block does not carry the right value
	Why        string // first reason
	Blocks     []Span // delimited blocks (nil when the walk failed)
	Protected  int    // blocks that declare a CRC and carry a matching value
}

// JudgeCRC delimits the blocks with the item walker and recomputes every declared CRC bitwise over the
// received block bytes with the CRC value zeroed.  Trailing bytes after the break code are ignored.
func JudgeCRC(x []byte) CRCVerdict {
	blocks, err := WalkBundle(x)
	if err != nil && err != errTrailing {
		return CRCVerdict{MustReject: true, Why: "framing: " + err.Error()}
	}
	v := CRCVerdict{Blocks: blocks}
	if len(blocks) == 0 {
		return CRCVerdict{MustReject: true, Why: "no primary block", Blocks: blocks}
	}
	for i, s := range blocks {
		items, err := ArrayItems(x, s)
		if err != nil {
			v.MustReject, v.Why = true, "block is not a definite-length array"
			return v
		}
		var crcIdx int
		var withCRC, withoutCRC []int
		if i == 0 {
			crcIdx, withCRC, withoutCRC = 2, []int{9, 11}, []int{8, 10}
		} else {
			crcIdx, withCRC, withoutCRC = 3, []int{6}, []int{5}
		}
		n := len(items)
		in := func(l []int) bool {
			for _, k := range l {
				if k == n {
					return true
				}
			}
			return false
		}
		if !in(withCRC) && !in(withoutCRC) {
			v.MustReject, v.Why = true, "block array has an impossible element count"
			return v
		}
		typ, ok := UIntAt(x, items[crcIdx])
		if !ok {
			v.MustReject, v.Why = true, "CRC type is not an unsigned integer"
			return v
		}
		switch typ {
		case 0:
			continue // nothing declared, nothing demanded
		case 1, 2:
		default:
			v.MustReject, v.Why = true, "unknown CRC type"
			return v
		}
		if !in(withCRC) {
			v.MustReject, v.Why = true, "CRC type declared but no CRC element"
			return v
		}
		cs, ok := BytesAt(x, items[n-1])
		if !ok || cs.End-cs.Start != CRCLen(typ) {
			v.MustReject, v.Why = true, "CRC element is not a byte string of the declared width"
			return v
		}
		blk := bytes.Clone(x[s.Start:s.End])
		for k := cs.Start; k < cs.End; k++ {
			blk[k-s.Start] = 0
		}
		if !bytes.Equal(CRCBytes(typ, blk), x[cs.Start:cs.End]) {
			v.MustReject, v.Why = true, "CRC value mismatch"
			return v
		}
		v.Protected++
	}
	return v
}

// FixCRCs returns a copy of x in which every block that declares CRC type 1 or 2 and carries a CRC element of the
// declared width holds the bitwise-computed value over the block as received (CRC element zeroed). Bytes that cannot
// be delimited are returned unchanged. Used to let byte-level mutation (fuzzing) get past the checksums, so that the
// parser's structural code is reached with mutated content.
func FixCRCs(x []byte) []byte {
	blocks, err := WalkBundle(x)
	if (err != nil && err != errTrailing) || len(blocks) == 0 {
		return x
	}
	out := bytes.Clone(x)
	for i, s := range blocks {
		items, err := ArrayItems(out, s)
		if err != nil {
			continue
		}
		crcIdx := 3
		ok := len(items) == 6
		if i == 0 {
			crcIdx = 2
			ok = len(items) == 9 || len(items) == 11
		}
		if !ok {
			continue
		}
		typ, isU := UIntAt(out, items[crcIdx])
		if !isU || (typ != 1 && typ != 2) {
			continue
		}
		cs, isB := BytesAt(out, items[len(items)-1])
		if !isB || cs.End-cs.Start != CRCLen(typ) {
			continue
		}
		blk := bytes.Clone(out[s.Start:s.End])
		for k := cs.Start; k < cs.End; k++ {
			blk[k-s.Start] = 0
		}
		copy(out[cs.Start:cs.End], CRCBytes(typ, blk))
	}
	return out
}
