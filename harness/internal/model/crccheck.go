package model

import "bytes"

// CRCVerdict is the independent judgement of a (possibly mutated) bundle encoding.
type CRCVerdict struct {
	MustReject bool   // framing broken, or a CRC-declaring block does not carry the right value
	Why        string // first reason
	Blocks     []Span // delimited blocks (nil when the walk failed)
	Protected  int    // blocks that declare a CRC and carry a matching value
}

// JudgeCRC delimits the blocks with the item walker and recomputes every declared CRC bitwise over the
// received block bytes with the CRC value zeroed.  Trailing bytes after the break code are ignored.
func JudgeCRC(x []byte) CRCVerdict {
	blocks, err := WalkBundle(x)
	if err != nil && err != errTrailing {
		return CRCVerdict{MustReject: true, Why: "framing: " + err.Error()}
	}
	v := CRCVerdict{Blocks: blocks}
	if len(blocks) == 0 {
		return CRCVerdict{MustReject: true, Why: "no primary block", Blocks: blocks}
	}
	for i, s := range blocks {
		items, err := ArrayItems(x, s)
		if err != nil {
			v.MustReject, v.Why = true, "block is not a definite-length array"
			return v
		}
		var crcIdx int
		var withCRC, withoutCRC []int
		if i == 0 {
			crcIdx, withCRC, withoutCRC = 2, []int{9, 11}, []int{8, 10}
		} else {
			crcIdx, withCRC, withoutCRC = 3, []int{6}, []int{5}
		}
		n := len(items)
		in := func(l []int) bool {
			for _, k := range l {
				if k == n {
					return true
				}
			}
			return false
		}
		if !in(withCRC) && !in(withoutCRC) {
			v.MustReject, v.Why = true, "block array has an impossible element count"
			return v
		}
		typ, ok := UIntAt(x, items[crcIdx])
		if !ok {
			v.MustReject, v.Why = true, "CRC type is not an unsigned integer"
			return v
		}
		switch typ {
		case 0:
			continue // nothing declared, nothing demanded
		case 1, 2:
		default:
			v.MustReject, v.Why = true, "unknown CRC type"
			return v
		}
		if !in(withCRC) {
			v.MustReject, v.Why = true, "CRC type declared but no CRC element"
			return v
		}
		cs, ok := BytesAt(x, items[n-1])
		if !ok || cs.End-cs.Start != CRCLen(typ) {
			v.MustReject, v.Why = true, "CRC element is not a byte string of the declared width"
			return v
		}
		blk := bytes.Clone(x[s.Start:s.End])
		for k := cs.Start; k < cs.End; k++ {
			blk[k-s.Start] = 0
		}
		if !bytes.Equal(CRCBytes(typ, blk), x[cs.Start:cs.End]) {
			v.MustReject, v.Why = true, "CRC value mismatch"
			return v
		}
		v.Protected++
	}
	return v
}
