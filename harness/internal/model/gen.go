package model

import (
	"math"

	"verifh/internal/report"
)

// Boundary values of CBOR argument widths.
var UBounds = []uint64{0, 1, 23, 24, 255, 256, 65535, 65536, 1<<32 - 1, 1 << 32, 1<<32 + 1, 1<<63 - 1, 1 << 63, math.MaxUint64}

// SizeBounds are lengths on both sides of the string-length width boundaries.
var SizeBounds = []int{0, 1, 23, 24, 255, 256, 65535, 65536}

var nodeChars = "abcdefghijklmnopqrstuvwxyzABCDEFGHIJKLMNOPQRSTUVWXYZ0123456789-._"

// GenUInt draws boundary values often and arbitrary ones otherwise.
func GenUInt(r *report.Rand) uint64 {
	switch r.Intn(4) {
	case 0:
		return UBounds[r.Intn(len(UBounds))]
	case 1:
		return uint64(r.Intn(300))
	case 2:
		return r.Uint64() >> uint(r.Intn(64))
	}
	return r.Uint64()
}

func genName(r *report.Rand, n int) string {
	b := make([]byte, n)
	for i := range b {
		b[i] = nodeChars[r.Intn(len(nodeChars))]
	}
	return string(b)
}

// GenEID draws a valid endpoint ID; allowNone permits dtn:none.
func GenEID(r *report.Rand, allowNone bool) EID {
	switch k := r.Intn(10); {
	case k == 0 && allowNone:
		return DtnNone()
	case k < 6:
		nl := 1 + r.Intn(12)
		if r.Chance(1, 12) {
			nl = []int{1, 22, 23, 24, 255, 256}[r.Intn(6)]
		}
		node := genName(r, nl)
		var demux string
		switch r.Intn(7) {
		case 0:
			demux = ""
		case 1:
			demux = "~" + genName(r, 1+r.Intn(6))
		case 2:
			demux = genName(r, SizeBounds[r.Intn(6)])
		case 3:
			demux = "a/b/" + genName(r, 3) + "/"
		case 4:
			demux = "ünï/cødé ✓"
		default:
			demux = genName(r, 1+r.Intn(10))
		}
		return Dtn(node, demux)
	default:
		pick := func() uint64 {
			v := []uint64{1, 23, 24, 255, 256, 65535, 65536, 1<<32 - 1, 1 << 32, math.MaxUint64}
			if r.Bool() {
				return v[r.Intn(len(v))]
			}
			return 1 + r.Uint64()%1000
		}
		return Ipn(pick(), pick())
	}
}

// GenNodeEID draws a singleton dtn node id ("dtn://name/").
func GenNodeEID(r *report.Rand) EID { return Dtn(genName(r, 1+r.Intn(8)), "") }

// AdmissibleFlags enumerates every combination of the nine defined bundle flags that the rules permit
// (anonymous says whether the source is dtn:none).
func AdmissibleFlags(anonymous bool) []uint64 {
	bits := []uint64{FIsFragment, FAdminRecord, FNoFragment, FAppAck, FStatusTime, FReqRecv, FReqFwd, FReqDeliv, FReqDel}
	var out []uint64
	for m := 0; m < 1<<len(bits); m++ {
		var f uint64
		for i, b := range bits {
			if m>>i&1 == 1 {
				f |= b
			}
		}
		if f&FIsFragment != 0 && f&FNoFragment != 0 {
			continue
		}
		if f&FAdminRecord != 0 && f&FReqAny != 0 {
			continue
		}
		if anonymous && (f&FReqAny != 0 || f&FNoFragment == 0) {
			continue
		}
		out = append(out, f)
	}
	return out
}

// GenOpts steer the bundle generator.
type GenOpts struct {
	NowMs        uint64 // current DTN time (ms); creation times are placed shortly before it
	MaxPayload   int    // upper bound for random payload sizes (boundary sizes up to 65536 are drawn regardless unless SmallOnly)
	SmallOnly    bool   // keep every string below ~64 bytes (for exhaustive per-bit work)
	NoMultiMaps  bool   // at most one entry in map-valued blocks (deterministic byte order)
	CRCMode      int    // 0: free choice per block; 1: none anywhere; 2: CRC-16 everywhere; 3: CRC-32 everywhere; 4: 16 or 32 per block
	NoFragment   bool   // never set the fragment flag
	NoUnknown    bool   // no unknown block types
	Sequential   bool   // number blocks 2,3,... in wire order (as the builder would)
	NoAnonymous  bool
	NoZeroTime   bool
	Flags        *uint64 // fixed flag set
}

func genPayloadLen(r *report.Rand, o GenOpts) int {
	if o.SmallOnly {
		return r.Intn(40)
	}
	switch r.Intn(10) {
	case 0:
		return SizeBounds[r.Intn(len(SizeBounds))]
	case 1:
		if o.MaxPayload > 70000 {
			return 65530 + r.Intn(20)
		}
	}
	m := o.MaxPayload
	if m <= 0 {
		m = 300
	}
	if r.Chance(3, 4) && m > 300 {
		m = 300
	}
	return r.Intn(m + 1)
}

func genCRC(r *report.Rand, o GenOpts) uint64 {
	switch o.CRCMode {
	case 1, 2, 3:
		return uint64(o.CRCMode - 1)
	case 4:
		return uint64(1 + r.Intn(2))
	}
	return uint64(r.Intn(3))
}

// GenBundle draws a well-formed bundle.
func GenBundle(r *report.Rand, o GenOpts) Bundle {
	var b Bundle
	b.Version = 7
	anon := !o.NoAnonymous && r.Chance(1, 12)
	if anon {
		b.Src = DtnNone()
	} else {
		b.Src = GenEID(r, false)
	}
	b.Dst = GenEID(r, true)
	b.Rpt = GenEID(r, true)
	if r.Chance(1, 3) {
		b.Rpt = b.Src
	}
	if o.Flags != nil {
		b.Flags = *o.Flags
	} else {
		fl := AdmissibleFlags(anon)
		b.Flags = fl[r.Intn(len(fl))]
		if o.NoFragment {
			b.Flags &^= FIsFragment
		}
	}
	b.CRC = genCRC(r, o)

	zero := !o.NoZeroTime && r.Chance(1, 6)
	if zero {
		b.Time = 0
		b.Seq = GenUInt(r)
		b.Lifetime = 1000 + uint64(r.Intn(1<<30))
	} else {
		back := uint64(r.Intn(3_600_000))
		if back >= o.NowMs {
			back = 0
		}
		b.Time = o.NowMs - back
		b.Seq = GenUInt(r)
		// lifetime reaches at least one hour beyond "now"
		b.Lifetime = back + 3_600_000 + uint64(r.Intn(1<<31))
		if r.Chance(1, 10) {
			b.Lifetime = back + []uint64{1 << 32, 1<<32 + 1, 1 << 40}[r.Intn(3)]
		}
	}

	// canonical blocks other than the payload
	types := []uint64{TPrevNode, TAge, THopCount, TSpray, TDTLSR, TProphet, TSignature}
	if !o.NoUnknown {
		types = append(types, 2, 5, 11, 64, 191, 196, 255, 256, 65536, 1<<32 + 7)
	}
	perm := r.Perm(len(types))
	nExtra := r.Intn(5)
	if r.Chance(1, 8) {
		nExtra = 5 + r.Intn(4)
	}
	chosen := map[uint64]bool{}
	for _, pi := range perm {
		if len(chosen) >= nExtra {
			break
		}
		chosen[types[pi]] = true
	}
	if zero {
		chosen[TAge] = true
	}
	usedNums := map[uint64]bool{1: true}
	nextSeq := uint64(2)
	num := func() uint64 {
		if o.Sequential {
			n := nextSeq
			nextSeq++
			return n
		}
		for {
			var n uint64
			if r.Chance(2, 3) {
				n = 2 + uint64(r.Intn(30))
			} else {
				n = GenUInt(r)
			}
			if n != 1 && !usedNums[n] {
				usedNums[n] = true
				return n
			}
		}
	}
	noReportBlocks := anon || b.Flags&FAdminRecord != 0
	for _, pi := range perm { // keeps a seed-determined order
		t := types[pi]
		if !chosen[t] {
			continue
		}
		blk := Block{Type: t, CRC: genCRC(r, o)}
		blk.Flags = uint64(r.Intn(32)) & (BReplicate | BReport | BDelete | BRemove)
		if r.Chance(1, 2) {
			blk.Flags = 0
		}
		if noReportBlocks {
			blk.Flags &^= BReport
		}
		switch t {
		case TPrevNode:
			blk.Node = GenEID(r, true)
		case TAge:
			if zero {
				blk.U = uint64(r.Intn(int(b.Lifetime)))
				if r.Chance(1, 5) {
					blk.U = b.Lifetime // age equal to the lifetime is still within it
				}
			} else {
				blk.U = GenUInt(r)
			}
		case TSpray:
			blk.U = GenUInt(r)
		case THopCount:
			blk.Limit = uint8(r.Intn(256))
			if r.Chance(1, 4) {
				blk.Limit = []uint8{0, 1, 23, 24, 254, 255}[r.Intn(6)]
			}
			blk.Count = uint8(r.Intn(int(blk.Limit) + 1))
			if r.Chance(1, 3) {
				blk.Count = blk.Limit
			}
		case TDTLSR:
			blk.Node = GenEID(r, false)
			blk.U = GenUInt(r)
			n := r.Intn(4)
			if o.NoMultiMaps && n > 1 {
				n = 1
			}
			seen := map[string]bool{}
			for i := 0; i < n; i++ {
				p := GenEID(r, false)
				if seen[p.String()] {
					continue
				}
				seen[p.String()] = true
				blk.Peers = append(blk.Peers, PeerTime{p, GenUInt(r)})
			}
		case TProphet:
			n := r.Intn(4)
			if o.NoMultiMaps && n > 1 {
				n = 1
			}
			seen := map[string]bool{}
			for i := 0; i < n; i++ {
				p := GenEID(r, false)
				if seen[p.String()] {
					continue
				}
				seen[p.String()] = true
				var f float64
				switch r.Intn(6) {
				case 0:
					f = 0
				case 1:
					f = 1
				case 2:
					f = math.SmallestNonzeroFloat64
				case 3:
					f = 1 - 1.0/(1<<53)
				default:
					f = r.Float64()
				}
				blk.Preds = append(blk.Preds, PeerPred{p, math.Float64bits(f)})
			}
		case TSignature:
			blk.Data = r.Bytes(32)
			blk.Data2 = r.Bytes(64)
		default:
			n := r.Intn(40)
			if !o.SmallOnly && r.Chance(1, 6) {
				n = SizeBounds[r.Intn(6)]
			}
			blk.Data = r.Bytes(n)
		}
		blk.Num = num()
		b.Blocks = append(b.Blocks, blk)
	}

	// payload block, last
	pl := genPayloadLen(r, o)
	pblk := Block{Type: TPayload, Num: 1, CRC: genCRC(r, o), Data: r.Bytes(pl)}
	if r.Chance(1, 6) {
		pblk.Flags = uint64(r.Intn(32)) & (BReplicate | BDelete | BRemove)
	}
	b.Blocks = append(b.Blocks, pblk)

	if b.IsFragment() {
		if r.Bool() {
			b.FragOff = uint64(r.Intn(1000))
		} else {
			b.FragOff = GenUInt(r) >> 1
		}
		b.Total = b.FragOff + uint64(pl) + uint64(r.Intn(1000))
	}
	return b
}
