package model

import (
	"bytes"
	"fmt"
	"math"
	"sort"
	"strings"

	"github.com/dtn7/dtn7-go/pkg/bpv7"
)

// Block type codes (from the BPv7 document and the repository's private-use registrations).
const (
	TPayload   = 1
	TPrevNode  = 6
	TAge       = 7
	THopCount  = 10
	TSpray     = 192
	TDTLSR     = 193
	TProphet   = 194
	TSignature = 195
)

// Bundle processing control flags.
const (
	FIsFragment  = 0x000001
	FAdminRecord = 0x000002
	FNoFragment  = 0x000004
	FAppAck      = 0x000020
	FStatusTime  = 0x000040
	FReqRecv     = 0x004000
	FReqFwd      = 0x010000
	FReqDeliv    = 0x020000
	FReqDel      = 0x040000
	FReqAny      = FReqRecv | FReqFwd | FReqDeliv | FReqDel
)

// Block processing control flags.
const (
	BReplicate = 0x01
	BReport    = 0x02
	BDelete    = 0x04
	BRemove    = 0x10
)

// EID is an endpoint ID: dtn:none, dtn://node/demux or ipn:node.service.
type EID struct {
	Scheme  int    `json:"scheme"` // 1 = dtn, 2 = ipn
	None    bool   `json:"none,omitempty"`
	Node    string `json:"node,omitempty"`
	Demux   string `json:"demux,omitempty"`
	INode   uint64 `json:"inode,omitempty"`
	IServ   uint64 `json:"iserv,omitempty"`
}

func DtnNone() EID                 { return EID{Scheme: 1, None: true} }
func Dtn(node, demux string) EID   { return EID{Scheme: 1, Node: node, Demux: demux} }
func Ipn(node, service uint64) EID { return EID{Scheme: 2, INode: node, IServ: service} }

func (e EID) String() string {
	switch {
	case e.Scheme == 1 && e.None:
		return "dtn:none"
	case e.Scheme == 1:
		return "dtn://" + e.Node + "/" + e.Demux
	case e.Scheme == 2:
		return fmt.Sprintf("ipn:%d.%d", e.INode, e.IServ)
	}
	return fmt.Sprintf("scheme%d:?", e.Scheme)
}

// Valid follows the dtn/ipn URI grammars: a dtn node name is a non-empty run of letters, digits, '-', '.', '_';
// the demux part is arbitrary but single-line; ipn numbers are at least 1.
func (e EID) Valid() bool {
	switch e.Scheme {
	case 1:
		if e.None {
			return true
		}
		if e.Node == "" {
			return false
		}
		for _, c := range e.Node {
			if !(c >= 'a' && c <= 'z' || c >= 'A' && c <= 'Z' || c >= '0' && c <= '9' || c == '-' || c == '.' || c == '_') {
				return false
			}
		}
		return !strings.Contains(e.Demux, "\n")
	case 2:
		return e.INode >= 1 && e.IServ >= 1
	}
	return false
}

func (e EID) encode(enc *Enc) {
	enc.Array(2, "eid")
	enc.UInt(uint64(e.Scheme))
	switch {
	case e.Scheme == 1 && e.None:
		enc.UInt(0)
	case e.Scheme == 1:
		enc.Text("//"+e.Node+"/"+e.Demux, "eid.ssp")
	default:
		enc.Array(2, "eid.ipn")
		enc.UInt(e.INode)
		enc.UInt(e.IServ)
	}
}

// PeerTime is one entry of a DTLSR block's peer map.
type PeerTime struct {
	Peer EID    `json:"peer"`
	Time uint64 `json:"time"`
}

// PeerPred is one entry of a PRoPHET block.
type PeerPred struct {
	Peer EID     `json:"peer"`
	Bits uint64  `json:"bits"` // float64 bit pattern
}

// Block is a canonical block.
type Block struct {
	Type  uint64 `json:"type"`
	Num   uint64 `json:"num"`
	Flags uint64 `json:"flags"`
	CRC   uint64 `json:"crc"`

	Data   []byte     `json:"data,omitempty"`   // payload / signature public key / unknown block content
	Data2  []byte     `json:"data2,omitempty"`  // signature
	Node   EID        `json:"node,omitempty"`   // previous node / DTLSR id
	U      uint64     `json:"u,omitempty"`      // age / spray copies / DTLSR timestamp
	Limit  uint8      `json:"limit,omitempty"`  // hop count
	Count  uint8      `json:"count,omitempty"`
	Peers  []PeerTime `json:"peers,omitempty"`
	Preds  []PeerPred `json:"preds,omitempty"`

	RawContent []byte `json:"raw_content,omitempty"` // when non-nil: the block's content bytes verbatim (wire-level mutation)
}

// Bundle is the neutral description of a bundle.
type Bundle struct {
	Version  uint64 `json:"version"`
	Flags    uint64 `json:"flags"`
	CRC      uint64 `json:"crc"`
	Dst      EID    `json:"dst"`
	Src      EID    `json:"src"`
	Rpt      EID    `json:"rpt"`
	Time     uint64 `json:"time"`
	Seq      uint64 `json:"seq"`
	Lifetime uint64 `json:"lifetime"`
	FragOff  uint64 `json:"frag_off"`
	Total    uint64 `json:"total"`
	Blocks   []Block `json:"blocks"`
}

func (b Bundle) IsFragment() bool { return b.Flags&FIsFragment != 0 }

// Known says whether the type code has a dedicated content format in this harness (all eight registered types).
func Known(t uint64) bool {
	switch t {
	case TPayload, TPrevNode, TAge, THopCount, TSpray, TDTLSR, TProphet, TSignature:
		return true
	}
	return false
}

// Content is the block-type-specific data, i.e. what is wrapped into the block's byte string.
func (blk Block) Content() []byte { return blk.contentEnc(nil).B }

func (blk Block) contentEnc(ctx *EncCtx) Enc {
	e := Enc{Ctx: ctx}
	if blk.RawContent != nil {
		return Enc{B: blk.RawContent}
	}
	switch blk.Type {
	case TPayload:
		return Enc{B: blk.Data}
	case TPrevNode:
		blk.Node.encode(&e)
	case TAge, TSpray:
		e.UInt(blk.U)
	case THopCount:
		e.Array(2, "hop")
		e.UInt(uint64(blk.Limit))
		e.UInt(uint64(blk.Count))
	case TDTLSR:
		e.Array(3, "dtlsr")
		blk.Node.encode(&e)
		e.UInt(blk.U)
		e.Map(uint64(len(blk.Peers)), "dtlsr.peers")
		for _, p := range blk.Peers {
			p.Peer.encode(&e)
			e.UInt(p.Time)
		}
	case TProphet:
		e.Map(uint64(len(blk.Preds)), "prophet.preds")
		for _, p := range blk.Preds {
			p.Peer.encode(&e)
			e.Float64(math.Float64frombits(p.Bits))
		}
	case TSignature:
		e.Array(2, "sig")
		e.Bytes(blk.Data, "sig.pub")
		e.Bytes(blk.Data2, "sig.sig")
	default:
		return Enc{B: blk.Data}
	}
	return e
}

// Layout describes where things ended up in an encoding.
type Layout struct {
	Blocks   []Span // [0] primary, then canonical blocks in wire order
	CRCField []Span // content bytes of each block's CRC value (empty span when none)
	DataHead []Head // head of each canonical block's content byte string ([0] unused)
	Heads    []Head // every length/count head
}

// EncodeOpts allow wire-level deviations that the repository's serialiser refuses to produce.
type EncodeOpts struct {
	PrimaryNoCRCField bool          // declare a CRC type but omit the CRC element
	BlockNoCRCField   map[int]bool  // per canonical block index
	BadCRCLen         map[int]int   // block index (0 = primary, i+1 = canonical i) -> CRC field length override
	FragFieldsAlways  bool          // write fragment offset/total although the flag is clear
	NoFragFields      bool          // omit them although the flag is set
	Widen             map[int]int   // head index (in writing order) -> forced non-minimal width
}

// Encode writes the bundle with own CBOR code and own CRCs.
func (b Bundle) Encode(opts *EncodeOpts) ([]byte, Layout) {
	if opts == nil {
		opts = &EncodeOpts{}
	}
	ctx := &EncCtx{Widen: opts.Widen}
	e := Enc{Ctx: ctx}
	var lay Layout
	e.Raw([]byte{0x9f})

	// primary block
	start := len(e.B)
	frag := b.IsFragment()
	if opts.FragFieldsAlways {
		frag = true
	}
	if opts.NoFragFields {
		frag = false
	}
	hasCRC := b.CRC != 0 && !opts.PrimaryNoCRCField
	n := uint64(8)
	if frag {
		n += 2
	}
	if hasCRC {
		n++
	}
	e.Array(n, "primary")
	e.UInt(b.Version)
	e.UInt(b.Flags)
	e.UInt(b.CRC)
	b.Dst.encode(&e)
	b.Src.encode(&e)
	b.Rpt.encode(&e)
	e.Array(2, "timestamp")
	e.UInt(b.Time)
	e.UInt(b.Seq)
	e.UInt(b.Lifetime)
	if frag {
		e.UInt(b.FragOff)
		e.UInt(b.Total)
	}
	crcSpan := Span{}
	if hasCRC {
		l := CRCLen(b.CRC)
		if v, ok := opts.BadCRCLen[0]; ok {
			l = v
		}
		e.Bytes(make([]byte, l), "crc")
		crcSpan = Span{len(e.B) - l, len(e.B)}
		if l == CRCLen(b.CRC) {
			copy(e.B[crcSpan.Start:], CRCBytes(b.CRC, e.B[start:]))
		}
	}
	lay.Blocks = append(lay.Blocks, Span{start, len(e.B)})
	lay.CRCField = append(lay.CRCField, crcSpan)
	lay.DataHead = append(lay.DataHead, Head{})

	for i, blk := range b.Blocks {
		start := len(e.B)
		hasCRC := blk.CRC != 0 && !opts.BlockNoCRCField[i]
		if hasCRC {
			e.Array(6, "block")
		} else {
			e.Array(5, "block")
		}
		e.UInt(blk.Type)
		e.UInt(blk.Num)
		e.UInt(blk.Flags)
		e.UInt(blk.CRC)
		// the content is encoded first (its heads get their numbers before the wrapping byte string's head)
		inner := blk.contentEnc(ctx)
		e.lenHead(2, uint64(len(inner.B)), "block.data")
		lay.DataHead = append(lay.DataHead, e.Heads[len(e.Heads)-1])
		base := len(e.B)
		e.B = append(e.B, inner.B...)
		for _, h := range inner.Heads {
			h.Off += base
			e.Heads = append(e.Heads, h)
		}
		crcSpan := Span{}
		if hasCRC {
			l := CRCLen(blk.CRC)
			if v, ok := opts.BadCRCLen[i+1]; ok {
				l = v
			}
			e.Bytes(make([]byte, l), "crc")
			crcSpan = Span{len(e.B) - l, len(e.B)}
			if l == CRCLen(blk.CRC) {
				copy(e.B[crcSpan.Start:], CRCBytes(blk.CRC, e.B[start:]))
			}
		}
		lay.Blocks = append(lay.Blocks, Span{start, len(e.B)})
		lay.CRCField = append(lay.CRCField, crcSpan)
	}
	e.Raw([]byte{0xff})
	lay.Heads = e.Heads
	return e.B, lay
}

// ---- conversion to and from the repository's structs ----

func (e EID) ToBpv7() bpv7.EndpointID {
	switch {
	case e.Scheme == 1 && e.None:
		return bpv7.DtnNone()
	case e.Scheme == 1:
		return bpv7.EndpointID{EndpointType: bpv7.DtnEndpoint{NodeName: e.Node, Demux: e.Demux}}
	default:
		return bpv7.EndpointID{EndpointType: bpv7.IpnEndpoint{Node: e.INode, Service: e.IServ}}
	}
}

func EIDFromBpv7(e bpv7.EndpointID) EID {
	switch t := e.EndpointType.(type) {
	case bpv7.DtnEndpoint:
		if t.IsDtnNone {
			return DtnNone()
		}
		return Dtn(t.NodeName, t.Demux)
	case bpv7.IpnEndpoint:
		return Ipn(t.Node, t.Service)
	case nil:
		return EID{Scheme: 0}
	}
	return EID{Scheme: -1}
}

func sortPeers(p []PeerTime) {
	sort.Slice(p, func(i, j int) bool { return p[i].Peer.String() < p[j].Peer.String() })
}

func sortPreds(p []PeerPred) {
	sort.Slice(p, func(i, j int) bool { return p[i].Peer.String() < p[j].Peer.String() })
}

// ToBpv7 builds the repository's struct field by field (no validity check, no CRC calculation).
func (b Bundle) ToBpv7() bpv7.Bundle {
	pb := bpv7.PrimaryBlock{
		Version:            b.Version,
		BundleControlFlags: bpv7.BundleControlFlags(b.Flags),
		CRCType:            bpv7.CRCType(b.CRC),
		Destination:        b.Dst.ToBpv7(),
		SourceNode:         b.Src.ToBpv7(),
		ReportTo:           b.Rpt.ToBpv7(),
		CreationTimestamp:  bpv7.NewCreationTimestamp(bpv7.DtnTime(b.Time), b.Seq),
		Lifetime:           b.Lifetime,
		FragmentOffset:     b.FragOff,
		TotalDataLength:    b.Total,
	}
	cbs := make([]bpv7.CanonicalBlock, 0, len(b.Blocks))
	for _, blk := range b.Blocks {
		cbs = append(cbs, blk.ToBpv7())
	}
	return bpv7.Bundle{PrimaryBlock: pb, CanonicalBlocks: cbs}
}

func (blk Block) ToBpv7() bpv7.CanonicalBlock {
	var v bpv7.ExtensionBlock
	switch blk.Type {
	case TPayload:
		v = bpv7.NewPayloadBlock(blk.Data)
	case TPrevNode:
		v = bpv7.NewPreviousNodeBlock(blk.Node.ToBpv7())
	case TAge:
		v = bpv7.NewBundleAgeBlock(blk.U)
	case THopCount:
		h := bpv7.NewHopCountBlock(blk.Limit)
		h.Count = blk.Count
		v = h
	case TSpray:
		v = bpv7.NewBinarySprayBlock(blk.U)
	case TDTLSR:
		peers := map[bpv7.EndpointID]bpv7.DtnTime{}
		for _, p := range blk.Peers {
			peers[p.Peer.ToBpv7()] = bpv7.DtnTime(p.Time)
		}
		v = bpv7.NewDTLSRBlock(bpv7.DTLSRPeerData{ID: blk.Node.ToBpv7(), Timestamp: bpv7.DtnTime(blk.U), Peers: peers})
	case TProphet:
		preds := map[bpv7.EndpointID]float64{}
		for _, p := range blk.Preds {
			preds[p.Peer.ToBpv7()] = math.Float64frombits(p.Bits)
		}
		v = bpv7.NewProphetBlock(preds)
	case TSignature:
		v = &bpv7.SignatureBlock{PublicKey: blk.Data, Signature: blk.Data2}
	default:
		v = bpv7.NewGenericExtensionBlock(blk.Data, blk.Type)
	}
	cb := bpv7.NewCanonicalBlock(blk.Num, bpv7.BlockControlFlags(blk.Flags), v)
	cb.CRCType = bpv7.CRCType(blk.CRC)
	return cb
}

// FromBpv7 reads the repository's struct through its exported fields and accessors.
func FromBpv7(b bpv7.Bundle) Bundle {
	pb := b.PrimaryBlock
	out := Bundle{
		Version: pb.Version, Flags: uint64(pb.BundleControlFlags), CRC: uint64(pb.CRCType),
		Dst: EIDFromBpv7(pb.Destination), Src: EIDFromBpv7(pb.SourceNode), Rpt: EIDFromBpv7(pb.ReportTo),
		Time: uint64(pb.CreationTimestamp.DtnTime()), Seq: pb.CreationTimestamp.SequenceNumber(),
		Lifetime: pb.Lifetime, FragOff: pb.FragmentOffset, Total: pb.TotalDataLength,
	}
	for _, cb := range b.CanonicalBlocks {
		out.Blocks = append(out.Blocks, BlockFromBpv7(cb))
	}
	return out
}

func BlockFromBpv7(cb bpv7.CanonicalBlock) Block {
	blk := Block{Num: cb.BlockNumber, Flags: uint64(cb.BlockControlFlags), CRC: uint64(cb.CRCType)}
	if cb.Value == nil {
		blk.Type = math.MaxUint64
		return blk
	}
	blk.Type = cb.Value.BlockTypeCode()
	switch v := cb.Value.(type) {
	case *bpv7.PayloadBlock:
		blk.Data = v.Data()
	case *bpv7.PreviousNodeBlock:
		blk.Node = EIDFromBpv7(v.Endpoint())
	case *bpv7.BundleAgeBlock:
		blk.U = v.Age()
	case *bpv7.HopCountBlock:
		blk.Limit, blk.Count = v.Limit, v.Count
	case *bpv7.BinarySprayBlock:
		blk.U = v.RemainingCopies()
	case *bpv7.DTLSRBlock:
		pd := v.GetPeerData()
		blk.Node = EIDFromBpv7(pd.ID)
		blk.U = uint64(pd.Timestamp)
		for p, t := range pd.Peers {
			blk.Peers = append(blk.Peers, PeerTime{EIDFromBpv7(p), uint64(t)})
		}
		sortPeers(blk.Peers)
	case *bpv7.ProphetBlock:
		for p, f := range v.GetPredictabilities() {
			blk.Preds = append(blk.Preds, PeerPred{EIDFromBpv7(p), math.Float64bits(f)})
		}
		sortPreds(blk.Preds)
	case *bpv7.SignatureBlock:
		blk.Data, blk.Data2 = v.PublicKey, v.Signature
	case *bpv7.GenericExtensionBlock:
		d, _ := v.MarshalBinary()
		blk.Data = d
	}
	return blk
}

// Canon returns a comparison key in which map entry order is normalised and nil/empty slices coincide.
func (b Bundle) Canon() string {
	c := b
	c.Blocks = append([]Block(nil), b.Blocks...)
	for i := range c.Blocks {
		blk := &c.Blocks[i]
		blk.Peers = append([]PeerTime(nil), blk.Peers...)
		sortPeers(blk.Peers)
		blk.Preds = append([]PeerPred(nil), blk.Preds...)
		sortPreds(blk.Preds)
	}
	var sb strings.Builder
	fmt.Fprintf(&sb, "v%d f%x c%d %s %s %s t%d s%d l%d", c.Version, c.Flags, c.CRC, c.Dst, c.Src, c.Rpt, c.Time, c.Seq, c.Lifetime)
	if c.IsFragment() {
		fmt.Fprintf(&sb, " o%d T%d", c.FragOff, c.Total)
	}
	for _, blk := range c.Blocks {
		sb.WriteString(" | ")
		sb.WriteString(blk.Canon())
	}
	return sb.String()
}

func (blk Block) Canon() string {
	var sb strings.Builder
	fmt.Fprintf(&sb, "t%d n%d f%x c%d ", blk.Type, blk.Num, blk.Flags, blk.CRC)
	switch blk.Type {
	case TPrevNode:
		sb.WriteString(blk.Node.String())
	case TAge, TSpray:
		fmt.Fprintf(&sb, "%d", blk.U)
	case THopCount:
		fmt.Fprintf(&sb, "%d/%d", blk.Count, blk.Limit)
	case TDTLSR:
		fmt.Fprintf(&sb, "%s@%d{", blk.Node, blk.U)
		for _, p := range blk.Peers {
			fmt.Fprintf(&sb, "%s=%d,", p.Peer, p.Time)
		}
		sb.WriteString("}")
	case TProphet:
		sb.WriteString("{")
		for _, p := range blk.Preds {
			fmt.Fprintf(&sb, "%s=%x,", p.Peer, p.Bits)
		}
		sb.WriteString("}")
	case TSignature:
		fmt.Fprintf(&sb, "%x/%x", blk.Data, blk.Data2)
	default:
		fmt.Fprintf(&sb, "%x", blk.Data)
	}
	return sb.String()
}

// SameBlocks compares block lists ignoring map entry order.
func SameBlocks(a, b []Block) bool {
	if len(a) != len(b) {
		return false
	}
	for i := range a {
		x, y := a[i], b[i]
		x.Peers = append([]PeerTime(nil), x.Peers...)
		y.Peers = append([]PeerTime(nil), y.Peers...)
		sortPeers(x.Peers)
		sortPeers(y.Peers)
		x.Preds = append([]PeerPred(nil), x.Preds...)
		y.Preds = append([]PeerPred(nil), y.Preds...)
		sortPreds(x.Preds)
		sortPreds(y.Preds)
		if x.Canon() != y.Canon() {
			return false
		}
	}
	return true
}

// MapEntries returns the largest number of entries in a map-valued block of the bundle.
func (b Bundle) MapEntries() int {
	m := 0
	for _, blk := range b.Blocks {
		if len(blk.Peers) > m {
			m = len(blk.Peers)
		}
		if len(blk.Preds) > m {
			m = len(blk.Preds)
		}
	}
	return m
}

// Payload returns the payload block's data, or nil.
func (b Bundle) Payload() []byte {
	for _, blk := range b.Blocks {
		if blk.Type == TPayload {
			return blk.Data
		}
	}
	return nil
}

// Find returns the first block with the type code.
func (b Bundle) Find(t uint64) *Block {
	for i := range b.Blocks {
		if b.Blocks[i].Type == t {
			return &b.Blocks[i]
		}
	}
	return nil
}

// Clone copies the bundle deeply enough for independent mutation of the block list and primary fields.
func (b Bundle) Clone() Bundle {
	c := b
	c.Blocks = make([]Block, len(b.Blocks))
	for i, blk := range b.Blocks {
		blk.Data = bytes.Clone(blk.Data)
		blk.Data2 = bytes.Clone(blk.Data2)
		blk.Peers = append([]PeerTime(nil), blk.Peers...)
		blk.Preds = append([]PeerPred(nil), blk.Preds...)
		c.Blocks[i] = blk
	}
	return c
}
