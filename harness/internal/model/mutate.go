package model

import "verifh/internal/report"

// Mutate produces one structure-aware mutant of a valid bundle's encoding.
func Mutate(rng *report.Rand, m Bundle) ([]byte, string) {
	m = m.Clone()
	opts := &EncodeOpts{}
	kind := rng.Intn(13)
	switch kind {
	case 0: // primary uint field -> boundary
		v := GenUInt(rng)
		switch rng.Intn(7) {
		case 0:
			m.Version = v
		case 1:
			m.Flags = v
		case 2:
			m.CRC = v % 5
		case 3:
			m.Time = v
		case 4:
			m.Seq = v
		case 5:
			m.Lifetime = v
		case 6:
			m.FragOff, m.Total = v, GenUInt(rng)
		}
		return encode(m, opts), "primary-field"
	case 1: // block header field -> boundary
		i := rng.Intn(len(m.Blocks))
		v := GenUInt(rng)
		switch rng.Intn(4) {
		case 0:
			m.Blocks[i].Type = v
			m.Blocks[i].RawContent = m.Blocks[i].Content()
		case 1:
			m.Blocks[i].Num = v
		case 2:
			m.Blocks[i].Flags = v
		case 3:
			m.Blocks[i].CRC = v % 5
		}
		return encode(m, opts), "block-field"
	case 2: // non-minimal head somewhere
		_, lay := m.Encode(nil)
		total := len(lay.Heads) * 6
		opts.Widen = map[int]int{rng.Intn(total + 1): []int{1, 2, 4, 8}[rng.Intn(4)]}
		if rng.Bool() {
			opts.Widen[rng.Intn(total+1)] = []int{1, 2, 4, 8}[rng.Intn(4)]
		}
		return encode(m, opts), "non-minimal-head"
	case 3: // array-length edits of the primary block
		switch rng.Intn(3) {
		case 0:
			opts.FragFieldsAlways = true
		case 1:
			opts.NoFragFields = true
		case 2:
			opts.PrimaryNoCRCField = true
		}
		return encode(m, opts), "primary-arity"
	case 4: // canonical block without its CRC element / wrong CRC length
		i := rng.Intn(len(m.Blocks))
		if rng.Bool() {
			opts.BlockNoCRCField = map[int]bool{i: true}
		} else {
			opts.BadCRCLen = map[int]int{rng.Intn(len(m.Blocks) + 1): rng.Intn(6)}
		}
		return encode(m, opts), "crc-arity"
	case 5: // bytes after the block-type-specific data item inside the block's byte string
		i := rng.Intn(len(m.Blocks))
		c := m.Blocks[i].Content()
		m.Blocks[i].RawContent = append(append([]byte{}, c...), rng.Bytes(1+rng.Intn(4))...)
		return encode(m, opts), "content-trailing"
	case 6: // truncated / random content
		i := rng.Intn(len(m.Blocks))
		c := m.Blocks[i].Content()
		if len(c) > 0 && rng.Bool() {
			m.Blocks[i].RawContent = append([]byte{}, c[:rng.Intn(len(c))]...)
		} else {
			m.Blocks[i].RawContent = rng.Bytes(rng.Intn(12))
		}
		if m.Blocks[i].RawContent == nil {
			m.Blocks[i].RawContent = []byte{}
		}
		return encode(m, opts), "content-garbled"
	case 7: // reorder blocks
		p := rng.Perm(len(m.Blocks))
		nb := make([]Block, len(p))
		for i, j := range p {
			nb[i] = m.Blocks[j]
		}
		m.Blocks = nb
		return encode(m, opts), "reorder"
	case 8: // duplicate a block (same or fresh number)
		i := rng.Intn(len(m.Blocks))
		d := m.Blocks[i]
		if rng.Bool() {
			d.Num = 1000 + uint64(rng.Intn(1000))
		}
		pos := rng.Intn(len(m.Blocks))
		m.Blocks = append(m.Blocks[:pos], append([]Block{d}, m.Blocks[pos:]...)...)
		return encode(m, opts), "duplicate"
	case 9: // endpoint edits
		e := []EID{DtnNone(), Dtn("", "x"), Dtn("bad node", ""), Ipn(0, 1), Ipn(1, 0),
			{Scheme: 3, INode: 1, IServ: 1}, Dtn("n", "a\nb"), GenEID(rng, true)}[rng.Intn(8)]
		switch rng.Intn(4) {
		case 0:
			m.Dst = e
		case 1:
			m.Src = e
		case 2:
			m.Rpt = e
		case 3:
			for i := range m.Blocks {
				if m.Blocks[i].Type == TPrevNode {
					m.Blocks[i].Node = e
				}
			}
		}
		return encode(m, opts), "endpoint"
	case 10: // hop count / age semantics
		for i := range m.Blocks {
			switch m.Blocks[i].Type {
			case THopCount:
				m.Blocks[i].Count = uint8(rng.Intn(256))
			case TAge:
				m.Blocks[i].U = GenUInt(rng)
			}
		}
		return encode(m, opts), "hop-age"
	case 11: // byte flips on an encoding without CRCs
		for i := range m.Blocks {
			m.Blocks[i].CRC = 0
		}
		m.CRC = 0
		x := encode(m, opts)
		for k := 0; k < 1+rng.Intn(3); k++ {
			x[rng.Intn(len(x))] ^= byte(1 << uint(rng.Intn(8)))
		}
		return x, "byte-flip-no-crc"
	default: // drop a block / the payload / append after break
		if rng.Bool() && len(m.Blocks) > 1 {
			i := rng.Intn(len(m.Blocks))
			m.Blocks = append(m.Blocks[:i], m.Blocks[i+1:]...)
			return encode(m, opts), "drop-block"
		}
		x := encode(m, opts)
		return append(x, rng.Bytes(1+rng.Intn(3))...), "after-break"
	}
}

func encode(m Bundle, o *EncodeOpts) []byte {
	x, _ := m.Encode(o)
	return x
}

