package model

import "fmt"

// Invalid returns the list of structural rules (as named in the property statement) that the bundle breaks;
// nowMs is the current DTN time in milliseconds.  An empty list means well-formed.
func (b Bundle) Invalid(nowMs uint64) (rules []string) {
	add := func(r string) { rules = append(rules, r) }

	if b.Version != 7 {
		add("version")
	}

	// exactly one payload block, numbered 1, placed last
	nPayload := 0
	for i, blk := range b.Blocks {
		if blk.Type == TPayload {
			nPayload++
			if blk.Num != 1 {
				add("payload-number")
			}
			if i != len(b.Blocks)-1 {
				add("payload-not-last")
			}
		}
	}
	if nPayload != 1 {
		add(fmt.Sprintf("payload-count-%d", nPayload))
	}

	// unique block numbers, at most one block per type
	nums := map[uint64]int{}
	types := map[uint64]int{}
	for _, blk := range b.Blocks {
		nums[blk.Num]++
		types[blk.Type]++
	}
	for _, c := range nums {
		if c > 1 {
			add("duplicate-number")
			break
		}
	}
	for _, c := range types {
		if c > 1 {
			add("duplicate-type")
			break
		}
	}

	// endpoint IDs
	if !b.Dst.Valid() || !b.Src.Valid() || !b.Rpt.Valid() {
		add("eid")
	}
	for _, blk := range b.Blocks {
		if blk.Type == TPrevNode && !blk.Node.Valid() {
			add("eid-previous-node")
		}
	}

	// contradictory flags
	if b.Flags&FIsFragment != 0 && b.Flags&FNoFragment != 0 {
		add("fragment+must-not-fragment")
	}
	anon := b.Src.Scheme == 1 && b.Src.None
	admin := b.Flags&FAdminRecord != 0
	if admin && b.Flags&FReqAny != 0 {
		add("admin+report-request")
	}
	if anon && b.Flags&FReqAny != 0 {
		add("anonymous+report-request")
	}
	if admin || anon {
		for _, blk := range b.Blocks {
			if blk.Flags&BReport != 0 {
				add("admin-or-anonymous+reporting-block")
				break
			}
		}
	}
	if anon && b.Flags&FNoFragment == 0 {
		add("anonymous-without-must-not-fragment")
	}

	// zero creation time only with an age block
	age := b.Find(TAge)
	if b.Time == 0 && age == nil {
		add("zero-time-without-age")
	}

	// hop count
	if h := b.Find(THopCount); h != nil && h.Count > h.Limit {
		add("hop-count")
	}

	// lifetime
	if b.Time == 0 {
		if age != nil && age.U > b.Lifetime {
			add("lifetime")
		}
	} else if nowMs > b.Time+b.Lifetime && b.Time+b.Lifetime >= b.Time {
		add("lifetime")
	}

	return
}
