// Package nodesim runs one real routing.Core (store, cron, CLA manager, agent manager) inside a testing/synctest
// bubble, surrounded by scripted convergence layers and application agents, and records every boundary event.
package nodesim

import (
	"bytes"
	"errors"
	"fmt"
	"os"
	"runtime"
	"sort"
	"strings"
	"sync"
	"sync/atomic"
	"testing/synctest"
	"time"

	"github.com/dtn7/dtn7-go/pkg/agent"
	"github.com/dtn7/dtn7-go/pkg/bpv7"
	"github.com/dtn7/dtn7-go/pkg/cla"
	"github.com/dtn7/dtn7-go/pkg/routing"
	"github.com/dtn7/dtn7-go/pkg/storage"
	"github.com/timshannon/badgerhold"

	"verifh/internal/bubble"
	"verifh/internal/model"
)

// SendRec is one call of ConvergenceSender.Send observed at a mock convergence layer.
type SendRec struct {
	Step     int          `json:"step"`
	AtMs     uint64       `json:"at_ms"` // virtual DTN time of the call
	Peer     string       `json:"peer"`
	ID       string       `json:"id"`      // bundle ID as transmitted
	PID      string       `json:"pid"`     // payload id ("" for bundles not made by the harness)
	OK       bool         `json:"ok"`      // outcome reported to the node
	CallNo   int64        `json:"call_no"` // global order of Send calls ...
	RetNo    int64        `json:"ret_no"`  // ... and returns (one counter for both)
	Bytes    []byte       `json:"-"`
	Bundle   model.Bundle `json:"-"`
	ParseErr string       `json:"parse_err,omitempty"` // the node emitted bytes its own parser rejects
}

// Delivery is one bundle handed to a mock application agent.
type Delivery struct {
	Step   int          `json:"step"`
	Agent  string       `json:"agent"`
	ID     string       `json:"id"`
	PID    string       `json:"pid"`
	Bytes  []byte       `json:"-"`
	Bundle model.Bundle `json:"-"`
}

// Event is one line of the trace.
type Event struct {
	Step int    `json:"step"`
	Kind string `json:"kind"`
	Arg  string `json:"arg,omitempty"`
}

// Config of a simulated node.
type Config struct {
	NodeID     string // e.g. "dtn://node/"
	Routing    routing.RoutingConf
	InspectAll bool
	Dir        string // store directory; created under TMPDIR when empty
}

// Sim is the node under test plus its scripted environment.
type Sim struct {
	Cfg    Config
	NodeID bpv7.EndpointID
	Core   *routing.Core
	Dir    string
	ownDir bool

	callCtr    int64
	mu         sync.Mutex
	step       int
	peers      map[string]*Peer
	agents     []*Agent
	sends      []SendRec
	deliveries []Delivery
	trace      []Event
	problems   []string
	closed     bool
}

// EpidemicConf etc. are ready-made routing configurations.
func RoutingConf(algo string) routing.RoutingConf {
	rc := routing.RoutingConf{Algorithm: algo}
	rc.SprayConf = routing.SprayConfig{Multiplicity: 4}
	rc.DTLSRConf = routing.DTLSRConfig{RecomputeTime: "5s", BroadcastTime: "7s", PurgeTime: "10m"}
	rc.ProphetConf = routing.ProphetConfig{PInit: 0.75, Beta: 0.25, Gamma: 0.98, AgeInterval: "1m"}
	if algo == "sensor-mule" {
		inner := routing.RoutingConf{Algorithm: "epidemic"}
		rc.SensorMuleConf = routing.SensorNetworkMuleConfig{Algorithm: &inner, SensorNodeRegex: "^dtn://sensor.*$"}
	}
	return rc
}

// New opens a node. Must be called inside a bubble.
func New(cfg Config) (*Sim, error) {
	if cfg.NodeID == "" {
		cfg.NodeID = "dtn://node/"
	}
	s := &Sim{Cfg: cfg, peers: map[string]*Peer{}}
	s.NodeID = bpv7.MustNewEndpointID(cfg.NodeID)
	if cfg.Dir == "" {
		d, err := os.MkdirTemp("", "nodesim")
		if err != nil {
			return nil, err
		}
		s.Dir, s.ownDir = d, true
	} else {
		s.Dir = cfg.Dir
	}
	if err := s.open(); err != nil {
		return nil, err
	}
	return s, nil
}

// SmallStore makes every store opened afterwards use smaller badger memtables (the default 64 MiB arenas are zeroed
// on every open, which dominates the cost of thousands of short scenarios) and installs a logger that counts
// memtable flushes: while badger waits for a flush it polls with time.Sleep, which makes the bubble look quiescent
// although the node is in the middle of an operation. Wait() uses the counter to settle. Logic is unaffected.
func SmallStore() {
	storage.VerifTuneOptions = func(o *badgerhold.Options) {
		o.Options.MaxTableSize = 16 << 20
		o.Options.Logger = flushWatch{}
	}
}

var flushes int64

// Flushes returns the number of memtable flushes observed so far in this process.
func Flushes() int64 { return atomic.LoadInt64(&flushes) }

type flushWatch struct{}

func (flushWatch) Errorf(string, ...interface{})   {}
func (flushWatch) Warningf(string, ...interface{}) {}
func (flushWatch) Infof(string, ...interface{})    {}
func (flushWatch) Debugf(f string, _ ...interface{}) {
	if strings.HasPrefix(f, "Flushing memtable") {
		atomic.AddInt64(&flushes, 1)
	}
}

func init() { SmallStore() }

func (s *Sim) open() error {
	c, err := routing.NewCore(s.Dir, s.NodeID, s.Cfg.InspectAll, s.Cfg.Routing, nil)
	if err != nil {
		return err
	}
	s.Core = c
	s.closed = false
	settle()
	return nil
}

// Step starts a new logical step and records a trace event.
func (s *Sim) Step(kind, arg string) int {
	s.mu.Lock()
	defer s.mu.Unlock()
	s.step++
	s.trace = append(s.trace, Event{s.step, kind, arg})
	return s.step
}

func (s *Sim) curStep() int {
	s.mu.Lock()
	defer s.mu.Unlock()
	return s.step
}

// Problem records something the environment itself noticed (e.g. node emitted unparseable bytes).
func (s *Sim) Problem(msg string) {
	s.mu.Lock()
	s.problems = append(s.problems, msg)
	s.mu.Unlock()
}

func (s *Sim) Problems() []string {
	s.mu.Lock()
	defer s.mu.Unlock()
	return append([]string(nil), s.problems...)
}

// Wait blocks until every goroutine of the node is durably blocked (quiescent point). If the store flushed a memtable
// meanwhile, some goroutine may merely be polling with time.Sleep: a little virtual time is granted until no further
// flush shows up.
func (s *Sim) Wait() { settle() }

func settle() {
	synctest.Wait()
	for i := 0; i < 200 && Flushes() != settledAt; i++ {
		settledAt = Flushes()
		time.Sleep(25 * time.Millisecond)
		synctest.Wait()
	}
}

var settledAt int64

// Tick advances the virtual clock and waits for quiescence.
func (s *Sim) Tick(d time.Duration) {
	s.Step("tick", d.String())
	time.Sleep(d)
	settle()
}

// Store of the node.
func (s *Sim) Store() *storage.Store { return s.Core.VerifStore() }

// Close shuts the node down (orderly) and removes its directory if the simulator created it.
func (s *Sim) Close() {
	s.shutdown()
	if s.ownDir {
		_ = os.RemoveAll(s.Dir)
	}
}

func (s *Sim) shutdown() {
	if s.closed {
		return
	}
	s.closed = true
	settle()
	s.Core.Close()
	_ = s.Core.VerifCloseAgents()
	settle()
	s.mu.Lock()
	for _, p := range s.peers {
		p.up = false
	}
	s.peers = map[string]*Peer{}
	s.agents = nil
	s.mu.Unlock()
}

// Restart closes the node orderly and opens a new Core on the same directory. All peers and agents are gone.
func (s *Sim) Restart() error {
	s.Step("restart", "")
	s.shutdown()
	return s.open()
}

// ---- mock convergence layer ----

// Peer is a scripted bidirectional convergence layer towards one neighbour node.
type Peer struct {
	sim  *Sim
	Name string
	EID  bpv7.EndpointID
	addr string

	mu      sync.Mutex
	ch      chan cla.ConvergenceStatus
	up      bool
	gone    bool // a disappeared peer cannot be restarted
	started int
	closedN int

	// Outcome decides the result of a Send; nil means success.
	Outcome func(b *bpv7.Bundle, rec *SendRec) error
	// Gate, when non-nil, parks every Send until the harness closes or feeds the channel.
	Gate chan struct{}
	// IDSpin makes GetPeerEndpointID yield the processor that many times before it answers: a slow (but never
	// blocking) lookup that widens whatever window the caller has open while it asks for the peer's ID.
	IDSpin int
	// OnIDLookup, when non-nil, is called at the start of every GetPeerEndpointID (on the caller's goroutine).
	OnIDLookup func()
}

var peerSerial int

// PeerUp registers a new neighbour (EID dtn://<name>/) and lets it announce itself.
func (s *Sim) PeerUp(name string) *Peer {
	s.Step("peer_up", name)
	peerSerial++
	p := &Peer{
		sim: s, Name: name, EID: bpv7.MustNewEndpointID("dtn://" + name + "/"),
		addr: fmt.Sprintf("mock://%s#%d", name, peerSerial),
		ch:   make(chan cla.ConvergenceStatus, 64),
	}
	s.mu.Lock()
	s.peers[name] = p
	s.mu.Unlock()
	s.Core.RegisterConvergable(p)
	p.mu.Lock()
	p.up = true
	p.mu.Unlock()
	p.ch <- cla.NewConvergencePeerAppeared(p, p.EID)
	settle()
	return p
}

// PeerUpWith registers a new neighbour whose behaviour is configured before the node learns about it.
func (s *Sim) PeerUpWith(name string, setup func(*Peer)) *Peer {
	s.Step("peer_up", name)
	peerSerial++
	p := &Peer{
		sim: s, Name: name, EID: bpv7.MustNewEndpointID("dtn://" + name + "/"),
		addr: fmt.Sprintf("mock://%s#%d", name, peerSerial),
		ch:   make(chan cla.ConvergenceStatus, 64),
	}
	if setup != nil {
		setup(p)
	}
	s.mu.Lock()
	s.peers[name] = p
	s.mu.Unlock()
	s.Core.RegisterConvergable(p)
	p.mu.Lock()
	p.up = true
	p.mu.Unlock()
	p.ch <- cla.NewConvergencePeerAppeared(p, p.EID)
	settle()
	return p
}

// PeerUpLink registers a further convergence layer (another address, e.g. a second CLA type) towards a neighbour that
// is already connected: same peer endpoint ID, own address. Its transmissions are recorded under the peer's name.
func (s *Sim) PeerUpLink(name string, link int, setup func(*Peer)) *Peer {
	s.Step("peer_link_up", fmt.Sprintf("%s link %d", name, link))
	peerSerial++
	p := &Peer{
		sim: s, Name: name, EID: bpv7.MustNewEndpointID("dtn://" + name + "/"),
		addr: fmt.Sprintf("mock%d://%s#%d", link, name, peerSerial),
		ch:   make(chan cla.ConvergenceStatus, 64),
	}
	if setup != nil {
		setup(p)
	}
	s.mu.Lock()
	s.peers[fmt.Sprintf("%s~%d", name, link)] = p
	s.mu.Unlock()
	s.Core.RegisterConvergable(p)
	p.mu.Lock()
	p.up = true
	p.mu.Unlock()
	p.ch <- cla.NewConvergencePeerAppeared(p, p.EID)
	settle()
	return p
}

// Links returns the further links towards a neighbour (see PeerUpLink).
func (s *Sim) Links(name string) []*Peer {
	s.mu.Lock()
	defer s.mu.Unlock()
	var out []*Peer
	for k, p := range s.peers {
		if strings.HasPrefix(k, name+"~") {
			out = append(out, p)
		}
	}
	return out
}

// PeerUpNoWait is PeerUp without waiting for quiescence (for coincidence workloads).
func (s *Sim) PeerUpNoWait(name string) *Peer {
	s.Step("peer_up", name)
	peerSerial++
	p := &Peer{
		sim: s, Name: name, EID: bpv7.MustNewEndpointID("dtn://" + name + "/"),
		addr: fmt.Sprintf("mock://%s#%d", name, peerSerial),
		ch:   make(chan cla.ConvergenceStatus, 64),
	}
	s.mu.Lock()
	s.peers[name] = p
	s.mu.Unlock()
	s.Core.RegisterConvergable(p)
	p.mu.Lock()
	p.up = true
	p.mu.Unlock()
	p.ch <- cla.NewConvergencePeerAppeared(p, p.EID)
	return p
}

// Peer returns the currently known peer of that name, or nil.
func (s *Sim) Peer(name string) *Peer {
	s.mu.Lock()
	defer s.mu.Unlock()
	return s.peers[name]
}

// PeersUp lists the names of connected peers.
func (s *Sim) PeersUp() []string {
	s.mu.Lock()
	defer s.mu.Unlock()
	var out []string
	for n, p := range s.peers {
		if p.up && !strings.Contains(n, "~") {
			out = append(out, n)
		}
	}
	sort.Strings(out)
	return out
}

// PeerDown lets the neighbour report its own loss, as a real convergence layer does when the link breaks.
func (s *Sim) PeerDown(name string) {
	s.Step("peer_down", name)
	s.mu.Lock()
	p := s.peers[name]
	delete(s.peers, name)
	var links []*Peer
	for k, l := range s.peers {
		if strings.HasPrefix(k, name+"~") {
			links = append(links, l)
			delete(s.peers, k)
		}
	}
	s.mu.Unlock()
	for _, l := range links {
		l.mu.Lock()
		l.gone, l.up = true, false
		ch := l.ch
		l.mu.Unlock()
		ch <- cla.NewConvergencePeerDisappeared(l, l.EID)
		settle()
	}
	if p == nil {
		return
	}
	p.mu.Lock()
	p.gone = true
	p.up = false
	ch := p.ch
	p.mu.Unlock()
	ch <- cla.NewConvergencePeerDisappeared(p, p.EID)
	settle()
}

// Deliver makes the neighbour hand a received bundle (given as wire bytes) to the node.
func (s *Sim) Deliver(from string, wire []byte) error {
	b, err := bpv7.ParseBundle(bytes.NewReader(wire))
	if err != nil {
		return err
	}
	s.Step("rx", from+" "+b.ID().String())
	p := s.Peer(from)
	if p == nil {
		return errors.New("no such peer")
	}
	p.ch <- cla.NewConvergenceReceivedBundle(p, s.NodeID, &b)
	settle()
	return nil
}

// Inject hands a received bundle to the node without waiting for quiescence.
func (p *Peer) Inject(b *bpv7.Bundle) {
	p.ch <- cla.NewConvergenceReceivedBundle(p, p.sim.NodeID, b)
}

func (p *Peer) Start() (error, bool) {
	p.mu.Lock()
	defer p.mu.Unlock()
	if p.gone {
		return errors.New("peer is gone"), false
	}
	p.started++
	return nil, false
}

func (p *Peer) Close() error {
	p.mu.Lock()
	p.closedN++
	p.mu.Unlock()
	return nil
}

func (p *Peer) Channel() chan cla.ConvergenceStatus { return p.ch }
func (p *Peer) Address() string                     { return p.addr }
func (p *Peer) IsPermanent() bool                   { return false }
func (p *Peer) GetPeerEndpointID() bpv7.EndpointID {
	if f := p.OnIDLookup; f != nil {
		f()
	}
	for i := 0; i < p.IDSpin; i++ {
		runtime.Gosched()
	}
	return p.EID
}
func (p *Peer) GetEndpointID() bpv7.EndpointID { return p.sim.NodeID }
func (p *Peer) String() string                 { return p.addr }

// Send serialises the bundle inside the call like the real convergence layers do.
func (p *Peer) Send(b bpv7.Bundle) error {
	var buf bytes.Buffer
	werr := b.WriteBundle(&buf)
	rec := SendRec{Step: p.sim.curStep(), AtMs: bubble.NowMs(), Peer: p.Name, Bytes: buf.Bytes(), OK: true, CallNo: atomic.AddInt64(&p.sim.callCtr, 1)}
	if werr != nil {
		rec.ParseErr = "serialise: " + werr.Error()
	} else if pb, perr := bpv7.ParseBundle(bytes.NewReader(buf.Bytes())); perr != nil {
		rec.ParseErr = "parse: " + perr.Error()
	} else {
		rec.ID = pb.ID().String()
		rec.Bundle = model.FromBpv7(pb)
		rec.PID = PIDOf(rec.Bundle.Payload())
	}
	if g := p.Gate; g != nil {
		<-g
	}
	var err error
	if p.Outcome != nil {
		err = p.Outcome(&b, &rec)
	}
	if werr != nil && err == nil {
		err = werr
	}
	rec.OK = err == nil
	rec.RetNo = atomic.AddInt64(&p.sim.callCtr, 1)
	p.sim.mu.Lock()
	p.sim.sends = append(p.sim.sends, rec)
	p.sim.mu.Unlock()
	return err
}

// Fail makes every Send fail; OK makes every Send succeed.
func (p *Peer) Fail() {
	p.Outcome = func(*bpv7.Bundle, *SendRec) error { return errors.New("scripted failure") }
}
func (p *Peer) OK() { p.Outcome = nil }

// Sends returns all Send calls observed so far.
func (s *Sim) Sends() []SendRec {
	s.mu.Lock()
	defer s.mu.Unlock()
	return append([]SendRec(nil), s.sends...)
}

// SendsSince returns the Send calls of steps >= step.
func (s *Sim) SendsSince(step int) []SendRec {
	s.mu.Lock()
	defer s.mu.Unlock()
	var out []SendRec
	for _, r := range s.sends {
		if r.Step >= step {
			out = append(out, r)
		}
	}
	return out
}

// ---- application agents ----

// Agent is a mock application agent registered for fixed endpoints.
type Agent struct {
	sim  *Sim
	Name string
	eids []bpv7.EndpointID
	rx   chan agent.Message
	tx   chan agent.Message
	done chan struct{}
}

// AddAgent registers a mock agent for the given endpoint URIs.
func (s *Sim) AddAgent(name string, eids ...string) *Agent {
	s.Step("agent", name+" "+strings.Join(eids, ","))
	a := &Agent{sim: s, Name: name, rx: make(chan agent.Message), tx: make(chan agent.Message), done: make(chan struct{})}
	for _, e := range eids {
		a.eids = append(a.eids, bpv7.MustNewEndpointID(e))
	}
	go a.loop()
	s.mu.Lock()
	s.agents = append(s.agents, a)
	s.mu.Unlock()
	s.Core.RegisterApplicationAgent(a)
	settle()
	return a
}

func (a *Agent) loop() {
	defer close(a.done)
	for msg := range a.rx {
		switch m := msg.(type) {
		case agent.BundleMessage:
			var buf bytes.Buffer
			b := m.Bundle
			_ = b.WriteBundle(&buf)
			mb := model.FromBpv7(m.Bundle)
			d := Delivery{Step: a.sim.curStep(), Agent: a.Name, ID: m.Bundle.ID().String(), PID: PIDOf(mb.Payload()), Bytes: buf.Bytes(), Bundle: mb}
			a.sim.mu.Lock()
			a.sim.deliveries = append(a.sim.deliveries, d)
			a.sim.mu.Unlock()
		case agent.ShutdownMessage:
			close(a.tx)
		}
	}
}

func (a *Agent) Endpoints() []bpv7.EndpointID        { return a.eids }
func (a *Agent) MessageReceiver() chan agent.Message { return a.rx }
func (a *Agent) MessageSender() chan agent.Message   { return a.tx }

// Submit sends a bundle into the node on behalf of the application.
func (a *Agent) Submit(b bpv7.Bundle) {
	a.sim.Step("submit_agent", a.Name+" "+b.ID().String())
	a.tx <- agent.BundleMessage{Bundle: b}
	settle()
}

// Submit hands a locally originated bundle to Core.SendBundle.
func (s *Sim) Submit(b bpv7.Bundle) {
	s.Step("submit", b.ID().String())
	s.Core.SendBundle(&b)
	settle()
}

// Deliveries returns everything handed to mock agents so far.
func (s *Sim) Deliveries() []Delivery {
	s.mu.Lock()
	defer s.mu.Unlock()
	return append([]Delivery(nil), s.deliveries...)
}

// Trace returns the event list.
func (s *Sim) Trace() []Event {
	s.mu.Lock()
	defer s.mu.Unlock()
	return append([]Event(nil), s.trace...)
}

// TraceStrings renders the trace compactly (for witnesses and samples).
func (s *Sim) TraceStrings() []string {
	var out []string
	for _, e := range s.Trace() {
		out = append(out, fmt.Sprintf("%d %s %s", e.Step, e.Kind, e.Arg))
	}
	return out
}

// ---- payload ids ----

// Payload builds a payload that carries a unique id.
func Payload(pid string, pad int) []byte {
	p := []byte("PID:" + pid + ":")
	for i := 0; i < pad; i++ {
		p = append(p, byte('a'+i%26))
	}
	return p
}

// PIDOf extracts the payload id, or "".
func PIDOf(payload []byte) string {
	if !bytes.HasPrefix(payload, []byte("PID:")) {
		return ""
	}
	rest := payload[4:]
	i := bytes.IndexByte(rest, ':')
	if i < 0 {
		return ""
	}
	return string(rest[:i])
}

// ---- store snapshot ----

// StoreItem is the harness's view of one store record.
type StoreItem struct {
	ID      string
	Pending bool
	PIDs    []string // payload ids of the parts
	Props   map[string]interface{}
}

// Snapshot lists the pending records and looks up the given ids.
func (s *Sim) Pending() (map[string]StoreItem, error) {
	bis, err := s.Store().QueryPending()
	if err != nil {
		return nil, err
	}
	out := map[string]StoreItem{}
	for _, bi := range bis {
		it := StoreItem{ID: bi.Id, Pending: bi.Pending, Props: bi.Properties}
		for _, part := range bi.Parts {
			if b, err := part.Load(); err == nil {
				it.PIDs = append(it.PIDs, PIDOf(model.FromBpv7(b).Payload()))
			} else {
				it.PIDs = append(it.PIDs, "!load:"+err.Error())
			}
		}
		out[bi.Id] = it
	}
	return out, nil
}
