package nodesim

import (
	"testing"
	"time"

	"github.com/dtn7/dtn7-go/pkg/bpv7"

	"verifh/internal/bubble"
)

func TestSmoke(t *testing.T) {
	bubble.Quiet()
	for _, algo := range []string{"epidemic", "spray", "binary_spray", "prophet", "dtlsr", "sensor-mule"} {
		t0 := time.Now()
		err := bubble.Run(t, func(t *testing.T) {
			s, err := New(Config{Routing: RoutingConf(algo)})
			if err != nil {
				t.Fatal(err)
			}
			defer s.Close()
			ag := s.AddAgent("app", "dtn://node/app")
			b, err := bpv7.Builder().CRC(bpv7.CRC32).Source("dtn://node/app").Destination("dtn://far/in").CreationTimestampNow().
				Lifetime("1h").PayloadBlock(Payload("p1", 10)).Build()
			if err != nil {
				t.Fatal(err)
			}
			ag.Submit(b)
			pend, _ := s.Pending()
			t.Logf("%s: pending after submit: %d", algo, len(pend))
			s.PeerUp("p1")
			t.Logf("%s: sends after peer up: %d", algo, len(s.Sends()))
			s.Tick(11 * time.Second)
			far := s.PeerUp("far")
			_ = far
			t.Logf("%s: sends after dest up: %v", algo, len(s.Sends()))
			s.PeerDown("p1")
			if err := s.Restart(); err != nil {
				t.Fatal(err)
			}
			s.PeerUp("p2")
			s.Tick(11 * time.Second)
			for _, r := range s.Sends() {
				t.Logf("   send step=%d peer=%s id=%s pid=%s ok=%v", r.Step, r.Peer, r.ID, r.PID, r.OK)
			}
		})
		t.Logf("%s: err=%v real=%v", algo, err, time.Since(t0))
	}
}
