package report

import (
	"os"
	"time"
	"sync"
	"testing"
)

// Fuzz support: a coverage-guided fuzz target (go test -fuzz, compiled binary, iteration-bounded) applies the same
// oracle functions as TestCheck. The engine runs the fuzz body in worker processes which it kills at the end, so a
// worker's Run is flushed periodically under a file tag derived from its pid; the driver merges those files like
// shard results.

var (
	fuzzOnce sync.Once
	fuzzRun  *Run
)

// FuzzRun returns the process-wide Run of a fuzz worker (or of the seed-corpus pass of the coordinating process).
func FuzzRun(t testing.TB, prop, target string) *Run {
	fuzzOnce.Do(func() {
		r := Start(t, prop)
		r.Shard, r.NShards = 0, 1
		r.FileTag = 100000 + os.Getpid()
		r.sampleCap = 1
		r.curCase = "fuzz:" + target
		if os.Getenv("VERIF_OUT") == "" {
			r.OutDir = os.TempDir()
		}
		fuzzRun = r
	})
	return fuzzRun
}

// FuzzExec counts one execution of a fuzz body and flushes the result files now and then.
func (r *Run) FuzzExec() {
	r.mu.Lock()
	r.evals++
	r.counters["fuzz.executions"]++
	n := r.counters["fuzz.executions"]
	due := n == 1 || (n%64 == 0 && time.Since(r.lastFlush) > 1500*time.Millisecond)
	if due {
		r.lastFlush = time.Now()
	}
	r.mu.Unlock()
	if due {
		r.Flush()
	}
}

// ViolationCount returns how many oracle failures were recorded so far.
func (r *Run) ViolationCount() int {
	r.mu.Lock()
	defer r.mu.Unlock()
	n := 0
	for _, c := range r.vioSeen {
		n += c
	}
	return n
}

// LastViolation returns the most recently recorded violation, if any.
func (r *Run) LastViolation() *Violation {
	r.mu.Lock()
	defer r.mu.Unlock()
	if len(r.violations) == 0 {
		return nil
	}
	v := r.violations[len(r.violations)-1]
	return &v
}

// DropViolations forgets recorded violations (a fuzz body decides by re-running the oracle on the same input; the
// engine's own failing-input file is the witness).
func (r *Run) DropViolations() {
	r.mu.Lock()
	for _, v := range r.violations {
		_ = os.Remove(v.Replay)
	}
	r.violations = nil
	r.vioSeen = map[string]int{}
	r.mu.Unlock()
}

// FuzzJudge runs oracle on one fuzz input. An oracle failure is reported to the engine (t.Fatalf with a line
// "SIG:<signature>|<message>") only if it is reproducible on an immediate second application to the same input,
// which rules out the one wall-clock dependence of the parsers (a lifetime running out between two parses).
func (r *Run) FuzzJudge(t *testing.T, oracle func()) {
	r.FuzzExec()
	before := r.ViolationCount()
	oracle()
	if r.ViolationCount() == before {
		return
	}
	first := r.LastViolation()
	r.DropViolations()
	oracle()
	second := r.LastViolation()
	r.DropViolations()
	if second == nil || first == nil || second.Signature != first.Signature {
		r.Count("fuzz.unreproducible_oracle_failures", 1)
		return
	}
	r.Flush()
	t.Fatalf("SIG:%s|%s", second.Signature, second.Message)
}
