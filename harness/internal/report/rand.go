package report

import (
	"crypto/sha256"
	"encoding/binary"
)

// Rand is a splitmix64 generator; its stream depends only on (seed, group, index).
type Rand struct{ s uint64 }

func NewRand(seed int64, group string, idx uint64) *Rand {
	h := sha256.New()
	var b [16]byte
	binary.LittleEndian.PutUint64(b[:8], uint64(seed))
	binary.LittleEndian.PutUint64(b[8:], idx)
	h.Write(b[:])
	h.Write([]byte(group))
	sum := h.Sum(nil)
	return &Rand{s: binary.LittleEndian.Uint64(sum[:8])}
}

func (r *Rand) Uint64() uint64 {
	r.s += 0x9e3779b97f4a7c15
	z := r.s
	z = (z ^ (z >> 30)) * 0xbf58476d1ce4e5b9
	z = (z ^ (z >> 27)) * 0x94d049bb133111eb
	return z ^ (z >> 31)
}

// Intn returns a value in [0,n).
func (r *Rand) Intn(n int) int {
	if n <= 0 {
		return 0
	}
	return int(r.Uint64() % uint64(n))
}

func (r *Rand) Bool() bool { return r.Uint64()&1 == 1 }

// Chance is true with probability num/den.
func (r *Rand) Chance(num, den int) bool { return r.Intn(den) < num }

func (r *Rand) Float64() float64 { return float64(r.Uint64()>>11) / float64(1<<53) }

func (r *Rand) Bytes(n int) []byte {
	b := make([]byte, n)
	for i := 0; i < n; i += 8 {
		v := r.Uint64()
		for j := 0; j < 8 && i+j < n; j++ {
			b[i+j] = byte(v >> (8 * j))
		}
	}
	return b
}

// Perm returns a random permutation of 0..n-1.
func (r *Rand) Perm(n int) []int {
	p := make([]int, n)
	for i := range p {
		p[i] = i
	}
	for i := n - 1; i > 0; i-- {
		j := r.Intn(i + 1)
		p[i], p[j] = p[j], p[i]
	}
	return p
}

// Fork derives an independent generator.
func (r *Rand) Fork() *Rand { return &Rand{s: r.Uint64()} }
