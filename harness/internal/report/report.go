// Package report is the child-side half of the check driver: sharding, case
// journal, counters, distinct-case hashing, samples and violation records.
package report

import (
	"bufio"
	"crypto/sha256"
	"encoding/binary"
	"encoding/json"
	"fmt"
	"os"
	"path/filepath"
	"sort"
	"strconv"
	"strings"
	"sync"
	"testing"
	"time"
)

// Violation is one oracle failure.
type Violation struct {
	Signature string `json:"signature"` // rule id + failing input class; matched against known_findings.json
	Message   string `json:"message"`
	Case      string `json:"case"`   // group/index of the failing case (replayable)
	Replay    string `json:"replay"` // path of the witness file
}

// Run collects what one shard of one check observed.
type Run struct {
	Prop    string
	Tier    string
	Seed    int64
	Shard   int
	FileTag int // number used in the names of the result files (differs from Shard for the race-binary pass)
	NShards int
	Only    string // run only this case key (replay)
	Resume  string // skip all cases up to and including this key (continuation after a process-fatal case)
	OutDir  string

	mu         sync.Mutex
	evals      int64
	counters   map[string]int64
	hashes     map[uint64]struct{}
	samples    []interface{}
	sampleCap  int
	violations []Violation
	vioSeen    map[string]int
	notes      []string
	journal    *os.File
	jw         *bufio.Writer
	start      time.Time
	curCase    string
	exhaustive map[string]bool
	lastFlush  time.Time
}

func envInt(name string, def int64) int64 {
	if v := os.Getenv(name); v != "" {
		if n, err := strconv.ParseInt(v, 10, 64); err == nil {
			return n
		}
	}
	return def
}

// Start reads VERIF_* from the environment.
func Start(t testing.TB, prop string) *Run {
	r := &Run{
		Prop:       prop,
		Tier:       os.Getenv("VERIF_TIER"),
		Seed:       envInt("VERIF_SEED", 1),
		Shard:      int(envInt("VERIF_SHARD", 0)),
		NShards:    int(envInt("VERIF_NSHARDS", 1)),
		Only:       os.Getenv("VERIF_ONLY"),
		Resume:     os.Getenv("VERIF_RESUME_AFTER"),
		OutDir:     os.Getenv("VERIF_OUT"),
		counters:   map[string]int64{},
		hashes:     map[uint64]struct{}{},
		vioSeen:    map[string]int{},
		sampleCap:  6,
		start:      time.Now(),
		exhaustive: map[string]bool{},
	}
	r.FileTag = int(envInt("VERIF_FILE_TAG", int64(r.Shard)))
	if r.Tier == "" {
		r.Tier = "quick"
	}
	if r.NShards < 1 {
		r.NShards = 1
	}
	if r.OutDir == "" {
		r.OutDir = t.TempDir()
	}
	_ = os.MkdirAll(r.OutDir, 0o755)
	if f, err := os.OpenFile(filepath.Join(r.OutDir, fmt.Sprintf("journal-%d.txt", r.FileTag)),
		os.O_CREATE|os.O_WRONLY|os.O_APPEND, 0o644); err == nil {
		r.journal = f
		r.jw = bufio.NewWriter(f)
	}
	return r
}

// Thorough reports whether the thorough tier was requested.
func (r *Run) Thorough() bool { return r.Tier == "thorough" }

// Pick returns q for the quick tier and t for the thorough one.
func (r *Run) Pick(q, t int) int {
	if r.Thorough() {
		return t
	}
	return q
}

// Journal records a line before a risky step so that a process-fatal event can be attributed.
func (r *Run) Journal(line string) {
	if r.jw == nil {
		return
	}
	r.mu.Lock()
	fmt.Fprintln(r.jw, line)
	r.jw.Flush()
	r.mu.Unlock()
}

// Group runs cases 0..n-1 of a named group; this shard executes those with i % NShards == Shard.
// Every case gets a PRNG that depends only on (seed, group, i).
func (r *Run) Group(name string, n int, f func(i int, rng *Rand)) {
	if !groupSelected(name) {
		return
	}
	for i := 0; i < n; i++ {
		key := name + "/" + strconv.Itoa(i)
		if r.Only != "" {
			if r.Only != key {
				continue
			}
		} else if i%r.NShards != r.Shard {
			continue
		}
		if r.Resume != "" {
			if r.Resume == key {
				r.Resume = ""
			}
			continue
		}
		r.Journal("case " + key)
		r.mu.Lock()
		r.curCase = key
		r.evals++
		r.mu.Unlock()
		f(i, NewRand(r.Seed, name, uint64(i)))
	}
	r.mu.Lock()
	r.curCase = ""
	r.mu.Unlock()
}

// groupSelected applies VERIF_ONLY_GROUPS / VERIF_SKIP_GROUPS (comma separated name prefixes).
func groupSelected(name string) bool {
	match := func(list string) bool {
		for _, p := range strings.Split(list, ",") {
			if p != "" && strings.HasPrefix(name, p) {
				return true
			}
		}
		return false
	}
	if only := os.Getenv("VERIF_ONLY_GROUPS"); only != "" && !match(only) {
		return false
	}
	if skip := os.Getenv("VERIF_SKIP_GROUPS"); skip != "" && match(skip) {
		return false
	}
	return true
}

// Exhaustive marks a named sub-space as completely enumerated by this run (all shards together).
func (r *Run) Exhaustive(space string) {
	r.mu.Lock()
	r.exhaustive[space] = true
	r.mu.Unlock()
}

// Evals adds to the number of evaluations (oracle applications) beyond the one counted per case.
func (r *Run) Evals(n int) {
	r.mu.Lock()
	r.evals += int64(n)
	r.mu.Unlock()
}

// Count adds n to a named counter that ends up in the evidence.
func (r *Run) Count(name string, n int) {
	r.mu.Lock()
	r.counters[name] += int64(n)
	r.mu.Unlock()
}

// Nontrivial registers a distinct non-trivial case by the hash of its canonical description.
func (r *Run) Nontrivial(parts ...interface{}) {
	h := sha256.New()
	for _, p := range parts {
		switch v := p.(type) {
		case []byte:
			h.Write(v)
		case string:
			h.Write([]byte(v))
		default:
			fmt.Fprintf(h, "%v", v)
		}
		h.Write([]byte{0})
	}
	sum := h.Sum(nil)
	k := binary.BigEndian.Uint64(sum[:8])
	r.mu.Lock()
	r.hashes[k] = struct{}{}
	r.mu.Unlock()
}

// Sample keeps a few actual cases for the evidence file.
func (r *Run) Sample(v interface{}) {
	r.mu.Lock()
	if len(r.samples) < r.sampleCap {
		r.samples = append(r.samples, v)
	}
	r.mu.Unlock()
}

// Note adds a free-text remark to the evidence (informational).
func (r *Run) Note(s string) {
	r.mu.Lock()
	if len(r.notes) < 50 {
		r.notes = append(r.notes, s)
	}
	r.mu.Unlock()
}

// Violation records an oracle failure. sig must identify rule + failing input class (not the concrete case);
// witness is written to the replay file.
func (r *Run) Violation(sig, msg string, witness interface{}) {
	r.mu.Lock()
	defer r.mu.Unlock()
	r.vioSeen[sig]++
	if r.vioSeen[sig] > 3 { // keep at most three witnesses per signature
		return
	}
	dir := filepath.Join(os.Getenv("VERIF_REPLAYS"), r.Prop)
	if os.Getenv("VERIF_REPLAYS") == "" {
		dir = filepath.Join(r.OutDir, "replays")
	}
	_ = os.MkdirAll(dir, 0o755)
	name := fmt.Sprintf("%s-%d-%d-%d.json", sanitize(sig), r.Seed, r.FileTag, r.vioSeen[sig])
	path := filepath.Join(dir, name)
	rec := map[string]interface{}{
		"property": r.Prop, "signature": sig, "message": msg, "case": r.curCase,
		"seed": r.Seed, "tier": r.Tier, "witness": witness,
	}
	if b, err := json.MarshalIndent(rec, "", " "); err == nil {
		_ = os.WriteFile(path, b, 0o644)
	} else {
		_ = os.WriteFile(path, []byte(fmt.Sprintf("%q", fmt.Sprint(rec))), 0o644)
	}
	r.violations = append(r.violations, Violation{Signature: sig, Message: msg, Case: r.curCase, Replay: path})
}

func sanitize(s string) string {
	var b strings.Builder
	for _, c := range s {
		switch {
		case c >= 'a' && c <= 'z', c >= 'A' && c <= 'Z', c >= '0' && c <= '9', c == '.', c == '-', c == '_':
			b.WriteRune(c)
		default:
			b.WriteByte('_')
		}
	}
	out := b.String()
	if len(out) > 100 {
		out = out[:100]
	}
	return out
}

func writeAtomic(path string, b []byte) {
	tmp := path + ".tmp"
	if err := os.WriteFile(tmp, b, 0o644); err == nil {
		_ = os.Rename(tmp, path)
	}
}

// Finish writes shard-<i>.json and shard-<i>.hashes into OutDir.
func (r *Run) Finish() {
	r.mu.Lock()
	defer r.mu.Unlock()
	if r.jw != nil {
		fmt.Fprintln(r.jw, "finished")
		r.jw.Flush()
		r.journal.Close()
		r.jw = nil
	}
	r.flushLocked()
}

// Flush writes the result files without ending the run (fuzz workers are killed by the engine, never finished).
func (r *Run) Flush() {
	r.mu.Lock()
	defer r.mu.Unlock()
	r.flushLocked()
}

func (r *Run) flushLocked() {
	hs := make([]uint64, 0, len(r.hashes))
	for k := range r.hashes {
		hs = append(hs, k)
	}
	sort.Slice(hs, func(i, j int) bool { return hs[i] < hs[j] })
	hb := make([]byte, 8*len(hs))
	for i, k := range hs {
		binary.LittleEndian.PutUint64(hb[8*i:], k)
	}
	writeAtomic(filepath.Join(r.OutDir, fmt.Sprintf("shard-%d.hashes", r.FileTag)), hb)
	ex := []string{}
	for k := range r.exhaustive {
		ex = append(ex, k)
	}
	sort.Strings(ex)
	vioCounts := map[string]int{}
	for k, v := range r.vioSeen {
		vioCounts[k] = v
	}
	out := map[string]interface{}{
		"property": r.Prop, "tier": r.Tier, "seed": r.Seed, "shard": r.Shard, "nshards": r.NShards,
		"evaluations": r.evals, "counters": r.counters, "samples": r.samples, "notes": r.notes,
		"violations": r.violations, "violation_counts": vioCounts, "exhaustive": ex,
		"wall_s": time.Since(r.start).Seconds(), "only": r.Only,
	}
	b, err := json.Marshal(out)
	if err != nil {
		b, _ = json.Marshal(map[string]interface{}{"property": r.Prop, "shard": r.Shard, "marshal_error": err.Error(),
			"evaluations": r.evals, "violations": r.violations})
	}
	writeAtomic(filepath.Join(r.OutDir, fmt.Sprintf("shard-%d.json", r.FileTag)), b)
}

// DeadlockVerdict turns a node-internal mutex deadlock (see bubble.WatchDeadlocks) into a violation of this run.
func (r *Run) DeadlockVerdict(prefix, frame, dump string) {
	if len(dump) > 60000 {
		dump = dump[:60000]
	}
	r.Violation(prefix+".node-deadlock:"+frame,
		"a goroutine of the node has been blocked on a mutex for minutes at "+frame+" while its holder waits for something that cannot happen (real deadlock inside the node)",
		map[string]interface{}{"case": r.curCase, "goroutines": strings.Split(dump, "\n")})
	r.Finish()
}
