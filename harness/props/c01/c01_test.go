package c01

import (
	"bytes"
	"encoding/hex"
	"fmt"
	"regexp"
	"strings"
	"testing"

	"github.com/dtn7/dtn7-go/pkg/bpv7"

	"verifh/internal/bubble"
	"verifh/internal/model"
	"verifh/internal/report"
)

func hx(b []byte) string {
	if len(b) > 4096 {
		return hex.EncodeToString(b[:4096]) + fmt.Sprintf("...(%d bytes)", len(b))
	}
	return hex.EncodeToString(b)
}

var digits = regexp.MustCompile(`\b[0-9a-f]*[0-9][0-9a-f]*\b`)

// errClass strips the variable parts of an error message so that it names the failing input class.
func errClass(err error) string {
	s := digits.ReplaceAllString(err.Error(), "N")
	s = strings.ReplaceAll(s, "\n", " ")
	s = strings.Join(strings.Fields(s), " ")
	if len(s) > 90 {
		s = s[:90]
	}
	return s
}

// cutWriter accepts `left` bytes and fails afterwards, like a link that breaks in the middle of a bundle.
type cutWriter struct{ left int }

func (w *cutWriter) Write(p []byte) (int, error) {
	if len(p) <= w.left {
		w.left -= len(p)
		return len(p), nil
	}
	n := w.left
	w.left = 0
	return n, fmt.Errorf("link broke")
}

func serialise(b *bpv7.Bundle) (out []byte, err error) {
	defer func() {
		if p := recover(); p != nil {
			err = fmt.Errorf("panic: %v", p)
		}
	}()
	var buf bytes.Buffer
	err = b.WriteBundle(&buf)
	return buf.Bytes(), err
}

func parse(x []byte) (b bpv7.Bundle, err error) {
	defer func() {
		if p := recover(); p != nil {
			err = fmt.Errorf("panic: %v", p)
		}
	}()
	return bpv7.ParseBundle(bytes.NewReader(x))
}

// checkValue: oracle (b), (c) for a generated valid bundle.
func checkValue(r *report.Run, m model.Bundle, label string) {
	rb := m.ToBpv7()
	b1, err := serialise(&rb)
	if err != nil {
		r.Violation("c01.serialise-valid:"+errClass(err), "serialising a valid bundle failed: "+err.Error(), m)
		return
	}
	rb1 := m.ToBpv7()
	b1b, _ := serialise(&rb1)
	multi := m.MapEntries() > 1
	if !multi && !bytes.Equal(b1, b1b) {
		r.Violation("c01.nondeterministic", "serialising the same value twice gave different bytes", map[string]interface{}{"bundle": m, "a": hx(b1), "b": hx(b1b)})
		return
	}
	p, err := parse(b1)
	if err != nil {
		r.Violation("c01.parse-own-output:"+errClass(err), "parser rejects the serialiser's output: "+err.Error(), map[string]interface{}{"bundle": m, "bytes": hx(b1)})
		return
	}
	got := model.FromBpv7(p)
	if got.Canon() != m.Canon() {
		r.Violation("c01.lossy", "parsed bundle differs from the serialised value", map[string]interface{}{"want": m.Canon(), "got": got.Canon(), "bytes": hx(b1)})
		return
	}
	b2, err := serialise(&p)
	if err != nil {
		r.Violation("c01.reserialise", "re-serialising the parsed bundle failed: "+err.Error(), m)
		return
	}
	if multi {
		if len(b1) != len(b2) {
			r.Violation("c01.unstable-len", "re-serialisation changed the length", map[string]interface{}{"a": hx(b1), "b": hx(b2)})
			return
		}
	} else if !bytes.Equal(b1, b2) {
		r.Violation("c01.unstable", "serialise(parse(serialise(v))) differs from serialise(v)", map[string]interface{}{"bundle": m, "a": hx(b1), "b": hx(b2)})
		return
	}
	// informational: compare with the independent encoder
	if !multi {
		if ref, _ := m.Encode(nil); !bytes.Equal(ref, b1) {
			r.Count("interop.differs_from_reference_encoding", 1)
		} else {
			r.Count("interop.equals_reference_encoding", 1)
		}
	}
	r.Nontrivial("v", b1)
	r.Count("values.roundtripped", 1)
}

// checkForeign: oracle (d) for arbitrary bytes; returns whether the parser accepted.
func checkForeign(r *report.Run, x []byte, label string) bool {
	p, err := parse(x)
	if err != nil {
		if len(err.Error()) > 6 && err.Error()[:6] == "panic:" {
			r.Violation("c01.parse-panic", err.Error(), hx(x))
		}
		r.Count("foreign.rejected", 1)
		return false
	}
	r.Count("foreign.accepted", 1)
	m1 := model.FromBpv7(p)
	id1 := p.ID().String()
	y, err := serialise(&p)
	if err != nil {
		r.Violation("c01.accepted-not-serialisable:"+errClass(err), "accepted bytes cannot be re-serialised: "+err.Error(), map[string]interface{}{"bytes": hx(x)})
		return true
	}
	p2, err := parse(y)
	if err != nil {
		r.Violation("c01.reserialised-rejected:"+errClass(err), "re-serialisation of accepted bytes is rejected: "+err.Error(), map[string]interface{}{"bytes": hx(x), "reserialised": hx(y)})
		return true
	}
	m2 := model.FromBpv7(p2)
	if id2 := p2.ID().String(); id1 != id2 {
		r.Violation("c01.id-changed", fmt.Sprintf("bundle ID changed from %s to %s", id1, id2), map[string]interface{}{"bytes": hx(x), "reserialised": hx(y)})
		return true
	}
	if !model.SameBlocks(m1.Blocks, m2.Blocks) {
		r.Violation("c01.blocks-changed", "block list changed by re-serialisation", map[string]interface{}{"before": m1.Canon(), "after": m2.Canon(), "bytes": hx(x)})
		return true
	}
	if n := len(m2.Blocks); n == 0 || m2.Blocks[n-1].Type != model.TPayload {
		r.Violation("c01.payload-not-last", "payload block is not last after re-serialisation", map[string]interface{}{"after": m2.Canon(), "bytes": hx(x)})
		return true
	}
	y2, err := serialise(&p2)
	if err != nil {
		r.Violation("c01.idempotence-serialise", "second re-serialisation failed: "+err.Error(), hx(x))
		return true
	}
	if m2.MapEntries() > 1 {
		if len(y) != len(y2) {
			r.Violation("c01.not-idempotent-len", "second re-serialisation changed the length", map[string]interface{}{"y": hx(y), "y2": hx(y2)})
		}
	} else if !bytes.Equal(y, y2) {
		r.Violation("c01.not-idempotent", "serialise(parse(y)) != y", map[string]interface{}{"bytes": hx(x), "y": hx(y), "y2": hx(y2)})
	}
	if !bytes.Equal(x, y) {
		r.Count("foreign.accepted_and_normalised", 1)
	}
	r.Nontrivial("f", x)
	return true
}

func TestCheck(t *testing.T) {
	bubble.Quiet()
	bubble.RegisterBlocks()
	r := report.Start(t, "C01")
	defer r.Finish()

	err := bubble.Run(t, func(t *testing.T) {
		now := bubble.NowMs()
		opts := model.GenOpts{NowMs: now, MaxPayload: 2000}

		// every admissible flag combination x primary CRC choice on a small bundle (exhaustive)
		var flagCases [][2]uint64
		for _, anon := range []bool{false, true} {
			for _, f := range model.AdmissibleFlags(anon) {
				for crc := uint64(0); crc < 3; crc++ {
					a := uint64(0)
					if anon {
						a = 1
					}
					flagCases = append(flagCases, [2]uint64{f | a<<40, crc})
				}
			}
		}
		r.Group("flags", len(flagCases), func(i int, rng *report.Rand) {
			f := flagCases[i][0] & (1<<40 - 1)
			anon := flagCases[i][0]>>40 == 1
			o := opts
			o.Flags = &f
			o.NoAnonymous = true
			o.SmallOnly = true
			m := model.GenBundle(rng, o)
			if anon {
				m.Src = model.DtnNone()
				for k := range m.Blocks {
					m.Blocks[k].Flags &^= model.BReport
				}
			}
			m.CRC = flagCases[i][1]
			checkValue(r, m, "flags")
			if i < 2 {
				r.Sample(map[string]interface{}{"kind": "flag-combination", "bundle": m.Canon()})
			}
		})
		r.Exhaustive("admissible flag combinations x primary CRC type")

		// size boundaries, once per block type that carries a string
		type sizeCase struct {
			typ  uint64
			size int
		}
		var sizeCases []sizeCase
		for _, s := range []int{0, 1, 23, 24, 255, 256, 65535, 65536, 1<<20 + 1} {
			for _, tp := range []uint64{model.TPayload, 200, model.TSignature, model.TPrevNode} {
				if tp == model.TPrevNode && s > 65536 {
					continue
				}
				sizeCases = append(sizeCases, sizeCase{tp, s})
			}
		}
		r.Group("sizes", len(sizeCases), func(i int, rng *report.Rand) {
			c := sizeCases[i]
			o := opts
			o.SmallOnly = true
			o.NoUnknown = true
			m := model.GenBundle(rng, o)
			switch c.typ {
			case model.TPayload:
				m.Blocks[len(m.Blocks)-1].Data = rng.Bytes(c.size)
				if m.IsFragment() {
					m.Total = m.FragOff + uint64(c.size)
				}
			case 200:
				blk := model.Block{Type: 200, Num: 777, CRC: uint64(rng.Intn(3)), Data: rng.Bytes(c.size)}
				m.Blocks = append([]model.Block{blk}, m.Blocks...)
			case model.TSignature:
				if m.Find(model.TSignature) == nil {
					m.Blocks = append([]model.Block{{Type: model.TSignature, Num: 778}}, m.Blocks...)
				}
				s := m.Find(model.TSignature)
				s.Data, s.Data2 = rng.Bytes(32), rng.Bytes(64) // lengths are fixed by the block's own rules
				m.Blocks[len(m.Blocks)-1].Data = rng.Bytes(c.size)
				if m.IsFragment() {
					m.Total = m.FragOff + uint64(c.size)
				}
			case model.TPrevNode:
				if m.Find(model.TPrevNode) == nil {
					m.Blocks = append([]model.Block{{Type: model.TPrevNode, Num: 779}}, m.Blocks...)
				}
				demux := make([]byte, c.size)
				for k := range demux {
					demux[k] = 'a' + byte(k%26)
				}
				m.Find(model.TPrevNode).Node = model.Dtn("n", string(demux))
			}
			checkValue(r, m, "sizes")
		})

		// uint fields at every width boundary
		r.Group("uints", 7*len(model.UBounds), func(i int, rng *report.Rand) {
			v := model.UBounds[i%len(model.UBounds)]
			o := opts
			o.SmallOnly = true
			o.NoZeroTime = true
			m := model.GenBundle(rng, o)
			switch i / len(model.UBounds) {
			case 0:
				m.Seq = v
			case 1:
				if v > 1<<40 {
					v = 1 << 40
				}
				m.Lifetime = 3_600_000*2 + v
			case 2:
				m.Flags |= model.FIsFragment
				m.Flags &^= model.FNoFragment
				if m.Src.None {
					m.Src = model.Dtn("s", "")
				}
				m.FragOff = v
				m.Total = v
			case 3:
				if v == 1 {
					v = 2
				}
				m.Blocks = append([]model.Block{{Type: 77, Num: v, Data: []byte{7}}}, m.Blocks...)
				for k := 1; k < len(m.Blocks)-1; k++ {
					if m.Blocks[k].Num == v {
						m.Blocks[k].Num = v + 1000003
					}
				}
			case 4:
				if a := m.Find(model.TAge); a != nil {
					a.U = v
				} else {
					m.Blocks = append([]model.Block{{Type: model.TAge, Num: 900, U: v}}, m.Blocks...)
				}
			case 5:
				if a := m.Find(model.TSpray); a != nil {
					a.U = v
				} else {
					m.Blocks = append([]model.Block{{Type: model.TSpray, Num: 901, U: v}}, m.Blocks...)
				}
			case 6:
				m.Blocks = append([]model.Block{{Type: 5000 + v/2, Num: 902, Data: []byte{1}}}, m.Blocks...)
			}
			checkValue(r, m, "uints")
		})

		// random valid bundles
		nRand := r.Pick(10000, 60000)
		r.Group("random", nRand, func(i int, rng *report.Rand) {
			o := opts
			if r.Thorough() && i%500 == 0 {
				o.MaxPayload = 1<<20 + 1
			}
			m := model.GenBundle(rng, o)
			if r.Thorough() && i%500 == 0 {
				m.Blocks[len(m.Blocks)-1].Data = rng.Bytes(1<<20 + 1 - rng.Intn(3))
				if m.IsFragment() {
					m.Total = m.FragOff + uint64(len(m.Blocks[len(m.Blocks)-1].Data))
				}
			}
			checkValue(r, m, "random")
			if i < 3 {
				x, _ := m.Encode(nil)
				r.Sample(map[string]interface{}{"kind": "random valid bundle", "bundle": m.Canon(), "reference_encoding": hx(x)})
			}
			// the reference encoding itself is a foreign byte string for the parser
			x, _ := m.Encode(nil)
			if !checkForeign(r, x, "reference-encoding") && m.MapEntries() >= 0 {
				r.Violation("c01.reference-encoding-rejected", "the parser rejects an independently encoded valid bundle",
					map[string]interface{}{"bundle": m, "bytes": hx(x)})
			}
		})

		// serialisations that fail midway (the link breaks after k bytes) must not influence later ones: the same value
		// serialises to the same bytes before and after, and the parser accepts them
		r.Group("failing-writer", r.Pick(400, 6000), func(i int, rng *report.Rand) {
			o := opts
			o.MaxPayload = 120
			m := model.GenBundle(rng, o)
			if m.MapEntries() > 1 {
				return
			}
			rb := m.ToBpv7()
			b1, err := serialise(&rb)
			if err != nil {
				return
			}
			cuts := []int{}
			if len(b1) <= 160 {
				for k := 0; k < len(b1); k++ {
					cuts = append(cuts, k)
				}
			} else {
				for k := 0; k < 48; k++ {
					cuts = append(cuts, rng.Intn(len(b1)))
				}
			}
			for _, k := range cuts {
				fb := m.ToBpv7()
				if werr := fb.WriteBundle(&cutWriter{left: k}); werr == nil {
					r.Violation("c01.write-error-swallowed", fmt.Sprintf("WriteBundle reported success although the writer failed after %d of %d bytes", k, len(b1)), map[string]interface{}{"bundle": m})
					return
				}
				r.Count("failing_writer.aborted_serialisations", 1)
				rb2 := m.ToBpv7()
				b2, err := serialise(&rb2)
				if err != nil || !bytes.Equal(b1, b2) {
					r.Violation("c01.nondeterministic:after-failed-write", fmt.Sprintf("after a serialisation that was aborted by a write error at byte %d the same value serialises differently (err=%v)", k, err),
						map[string]interface{}{"bundle": m, "before": hx(b1), "after": hx(b2)})
					return
				}
				r.Evals(1)
			}
			if _, err := parse(b1); err != nil {
				r.Violation("c01.parse-own-output:"+errClass(err), "parser rejects the serialiser's output: "+err.Error(), map[string]interface{}{"bundle": m, "bytes": hx(b1)})
				return
			}
			r.Nontrivial("fw", b1)
		})

		// structure-aware mutants
		nMut := r.Pick(80000, 600000)
		r.Group("mutants", nMut, func(i int, rng *report.Rand) {
			o := opts
			o.MaxPayload = 200
			if i%3 == 0 {
				o.SmallOnly = true
			}
			m := model.GenBundle(rng, o)
			x, kind := model.Mutate(rng, m)
			acc := checkForeign(r, x, kind)
			if acc {
				r.Count("mutants.accepted."+kind, 1)
				if i%997 == 0 {
					r.Sample(map[string]interface{}{"kind": "accepted mutant (" + kind + ")", "bytes": hx(x)})
				}
			} else {
				r.Count("mutants.rejected."+kind, 1)
			}
		})
	})
	if err != nil {
		r.Violation("c01.harness-panic", err.Error(), nil)
	}
}
