package c01

import (
	"bytes"
	"testing"

	"verifh/internal/bubble"
	"verifh/internal/model"
	"verifh/internal/report"
)

// FuzzForeign applies oracle (d) - every accepted byte string re-serialises to accepted bytes with the same ID,
// blocks and payload, payload last, idempotently - to inputs found by Go's coverage-guided fuzzing engine, seeded with
// independently encoded valid bundles and structure-aware mutants.
func FuzzForeign(f *testing.F) {
	bubble.Quiet()
	bubble.RegisterBlocks()
	r := report.FuzzRun(f, "C01", "FuzzForeign")
	for i := 0; i < 200; i++ {
		rng := report.NewRand(r.Seed, "fuzzseed", uint64(i))
		o := model.GenOpts{NowMs: bubble.NowMs(), MaxPayload: 64}
		if i%2 == 0 {
			o.SmallOnly = true
		}
		m := model.GenBundle(rng, o)
		if i%3 == 0 {
			x, _ := model.Mutate(rng, m)
			f.Add(x)
		} else {
			x, _ := m.Encode(nil)
			f.Add(x)
		}
	}
	f.Fuzz(func(t *testing.T, x []byte) {
		r.FuzzJudge(t, func() {
			if checkForeign(r, x, "fuzz") {
				r.Count("fuzz.accepted", 1)
			}
			if y := model.FixCRCs(x); !bytes.Equal(x, y) {
				r.Count("fuzz.crc_fixed_variants", 1)
				if checkForeign(r, y, "fuzz-crcfixed") {
					r.Count("fuzz.accepted_after_crc_fix", 1)
				}
			}
		})
	})
}
