package c02

import (
	"bytes"
	"encoding/hex"
	"encoding/json"
	"fmt"
	"sort"
	"strings"
	"testing"
	"time"

	"github.com/dtn7/dtn7-go/pkg/bpv7"

	"verifh/internal/bubble"
	"verifh/internal/model"
	"verifh/internal/report"
)

func parse(x []byte) (b bpv7.Bundle, err error) {
	defer func() {
		if p := recover(); p != nil {
			err = fmt.Errorf("panic: %v", p)
		}
	}()
	return bpv7.ParseBundle(bytes.NewReader(x))
}

func serialise(b *bpv7.Bundle) (out []byte, err error) {
	defer func() {
		if p := recover(); p != nil {
			err = fmt.Errorf("panic: %v", p)
		}
	}()
	var buf bytes.Buffer
	err = b.WriteBundle(&buf)
	return buf.Bytes(), err
}

// a rule breaker turns a valid bundle into one that breaks the named rule; ok=false when not applicable to this base.
type breaker struct {
	name string
	f    func(rng *report.Rand, m *model.Bundle, now uint64) bool
}

func nonAnon(m *model.Bundle) {
	if m.Src.Scheme == 1 && m.Src.None {
		m.Src = model.Dtn("src", "")
	}
}

var breakers = []breaker{
	{"version", func(rng *report.Rand, m *model.Bundle, _ uint64) bool {
		m.Version = []uint64{0, 1, 6, 8, 23, 24, 255, 1 << 32}[rng.Intn(8)]
		return true
	}},
	{"payload-count", func(rng *report.Rand, m *model.Bundle, _ uint64) bool {
		if rng.Bool() { // no payload block: turn it into an unknown block type
			p := &m.Blocks[len(m.Blocks)-1]
			p.Type = 250
			return true
		}
		dup := m.Blocks[len(m.Blocks)-1]
		dup.Num = 9999
		m.Blocks = append([]model.Block{dup}, m.Blocks...)
		return true
	}},
	{"payload-number", func(rng *report.Rand, m *model.Bundle, _ uint64) bool {
		m.Blocks[len(m.Blocks)-1].Num = []uint64{0, 2, 24, 77777}[rng.Intn(4)]
		for i := range m.Blocks[:len(m.Blocks)-1] {
			if m.Blocks[i].Num == m.Blocks[len(m.Blocks)-1].Num {
				m.Blocks[i].Num = 88888
			}
		}
		return true
	}},
	{"payload-not-last", func(rng *report.Rand, m *model.Bundle, _ uint64) bool {
		if len(m.Blocks) < 2 {
			m.Blocks = append([]model.Block{{Type: 201, Num: 50, Data: []byte{1}}}, m.Blocks...)
		}
		n := len(m.Blocks)
		i := rng.Intn(n - 1)
		m.Blocks[i], m.Blocks[n-1] = m.Blocks[n-1], m.Blocks[i]
		return true
	}},
	{"duplicate-number", func(rng *report.Rand, m *model.Bundle, _ uint64) bool {
		n := len(m.Blocks)
		if n < 2 {
			m.Blocks = append([]model.Block{{Type: 201, Num: 1, Data: []byte{1}}}, m.Blocks...)
			return true
		}
		i, j := rng.Intn(n), rng.Intn(n)
		for i == j {
			j = rng.Intn(n)
		}
		if m.Blocks[i].Type == model.TPayload {
			i, j = j, i
		}
		m.Blocks[i].Num = m.Blocks[j].Num
		return true
	}},
	{"duplicate-type", func(rng *report.Rand, m *model.Bundle, _ uint64) bool {
		n := len(m.Blocks)
		if n < 2 {
			m.Blocks = append([]model.Block{{Type: 201, Num: 50, Data: []byte{1}}}, m.Blocks...)
			n++
		}
		dup := m.Blocks[rng.Intn(n-1)]
		dup.Num = 123456
		m.Blocks = append([]model.Block{dup}, m.Blocks...)
		return true
	}},
	{"eid", func(rng *report.Rand, m *model.Bundle, _ uint64) bool {
		bad := []model.EID{model.Dtn("", "x"), model.Dtn("bad node", ""), model.Dtn("a:b", "c"), model.Ipn(0, 1), model.Ipn(1, 0), model.Ipn(0, 0),
			model.Dtn("näme", ""), model.Dtn("n", "a\nb")}[rng.Intn(8)]
		switch rng.Intn(4) {
		case 0:
			m.Dst = bad
		case 1:
			nonAnon(m)
			m.Src = bad
		case 2:
			m.Rpt = bad
		case 3:
			if p := m.Find(model.TPrevNode); p != nil {
				p.Node = bad
			} else {
				m.Blocks = append([]model.Block{{Type: model.TPrevNode, Num: 4242, Node: bad}}, m.Blocks...)
			}
		}
		return true
	}},
	{"fragment+must-not-fragment", func(rng *report.Rand, m *model.Bundle, _ uint64) bool {
		m.Flags |= model.FIsFragment | model.FNoFragment
		m.FragOff, m.Total = 0, uint64(len(m.Payload()))+5
		return true
	}},
	{"admin+report-request", func(rng *report.Rand, m *model.Bundle, _ uint64) bool {
		nonAnon(m)
		m.Flags |= model.FAdminRecord
		m.Flags |= []uint64{model.FReqRecv, model.FReqFwd, model.FReqDeliv, model.FReqDel}[rng.Intn(4)]
		for i := range m.Blocks {
			m.Blocks[i].Flags &^= model.BReport
		}
		return true
	}},
	{"anonymous+report-request", func(rng *report.Rand, m *model.Bundle, _ uint64) bool {
		m.Src = model.DtnNone()
		m.Flags |= model.FNoFragment
		m.Flags &^= model.FIsFragment
		m.Flags |= []uint64{model.FReqRecv, model.FReqFwd, model.FReqDeliv, model.FReqDel}[rng.Intn(4)]
		for i := range m.Blocks {
			m.Blocks[i].Flags &^= model.BReport
		}
		return true
	}},
	{"admin-or-anonymous+reporting-block", func(rng *report.Rand, m *model.Bundle, _ uint64) bool {
		if rng.Bool() {
			nonAnon(m)
			m.Flags |= model.FAdminRecord
		} else {
			m.Src = model.DtnNone()
			m.Flags |= model.FNoFragment
			m.Flags &^= model.FIsFragment
		}
		m.Flags &^= model.FReqAny
		m.Blocks[rng.Intn(len(m.Blocks))].Flags |= model.BReport
		return true
	}},
	{"anonymous-without-must-not-fragment", func(rng *report.Rand, m *model.Bundle, _ uint64) bool {
		m.Src = model.DtnNone()
		m.Flags &^= model.FNoFragment | model.FReqAny
		for i := range m.Blocks {
			m.Blocks[i].Flags &^= model.BReport
		}
		return true
	}},
	{"zero-time-without-age", func(rng *report.Rand, m *model.Bundle, _ uint64) bool {
		m.Time = 0
		var nb []model.Block
		for _, b := range m.Blocks {
			if b.Type != model.TAge {
				nb = append(nb, b)
			}
		}
		m.Blocks = nb
		return true
	}},
	{"hop-count", func(rng *report.Rand, m *model.Bundle, _ uint64) bool {
		limit := uint8(rng.Intn(255))
		count := limit + 1 + uint8(rng.Intn(int(255-limit)))
		if h := m.Find(model.THopCount); h != nil {
			h.Limit, h.Count = limit, count
		} else {
			m.Blocks = append([]model.Block{{Type: model.THopCount, Num: 4343, Limit: limit, Count: count}}, m.Blocks...)
		}
		return true
	}},
	{"lifetime", func(rng *report.Rand, m *model.Bundle, now uint64) bool {
		if m.Time == 0 {
			a := m.Find(model.TAge)
			if a == nil {
				m.Blocks = append([]model.Block{{Type: model.TAge, Num: 4444}}, m.Blocks...)
				a = &m.Blocks[0]
			}
			a.U = m.Lifetime + 1 + uint64(rng.Intn(1000))
			return true
		}
		// expired by 1 ms ... an hour
		m.Lifetime = uint64(rng.Intn(100000))
		m.Time = now - m.Lifetime - 1 - uint64([]int{0, 0, 1, 999, 3600000}[rng.Intn(5)])
		return true
	}},
}

func has(rules []string, prefix string) bool {
	for _, r := range rules {
		if strings.HasPrefix(r, prefix) {
			return true
		}
	}
	return false
}

// checkProduced: a bundle returned without error by a producer must serialise, be accepted by the parser and be well-formed.
func checkProduced(r *report.Run, producer string, b bpv7.Bundle, now uint64, witness interface{}) {
	r.Count("produced."+producer, 1)
	x, err := serialise(&b)
	if err != nil {
		r.Violation("c02.produced-unserialisable:"+producer, "produced bundle cannot be serialised: "+err.Error(), witness)
		return
	}
	p, err := parse(x)
	if err != nil {
		r.Violation("c02.produced-rejected:"+producer, "produced bundle is rejected by the parser: "+err.Error(),
			map[string]interface{}{"witness": witness, "bytes": hex.EncodeToString(x)})
		return
	}
	if bad := model.FromBpv7(p).Invalid(now); len(bad) > 0 {
		r.Violation("c02.produced-malformed:"+producer+":"+bad[0], fmt.Sprintf("produced bundle breaks %v", bad),
			map[string]interface{}{"witness": witness, "bytes": hex.EncodeToString(x)})
		return
	}
	if bad := model.FromBpv7(b).Invalid(now); len(bad) > 0 {
		r.Violation("c02.produced-malformed-struct:"+producer+":"+bad[0], fmt.Sprintf("produced bundle (in memory) breaks %v", bad), witness)
		return
	}
	r.Nontrivial("produced", producer, x)
}

func TestCheck(t *testing.T) {
	bubble.Quiet()
	bubble.RegisterBlocks()
	r := report.Start(t, "C02")
	defer r.Finish()
	bubble.WatchDeadlocks(3, func(frame, dump string) { r.DeadlockVerdict("c02", frame, dump) })

	err := bubble.Run(t, func(t *testing.T) {
		now := bubble.NowMs()
		base := model.GenOpts{NowMs: now, MaxPayload: 120}

		// (2) every rule broken separately at wire level; the unbroken twin must be accepted
		perRule := r.Pick(120, 800)
		r.Group("single", len(breakers)*perRule, func(i int, rng *report.Rand) {
			br := breakers[i%len(breakers)]
			m := model.GenBundle(rng, base)
			twin, _ := m.Encode(nil)
			if _, err := parse(twin); err != nil {
				r.Violation("c02.valid-twin-rejected", "parser rejects an independently encoded well-formed bundle: "+err.Error(),
					map[string]interface{}{"bundle": m, "bytes": hex.EncodeToString(twin)})
				return
			}
			bm := m.Clone()
			if !br.f(rng, &bm, now) {
				return
			}
			bad := bm.Invalid(now)
			if !has(bad, br.name) {
				r.Count("harness.breaker_did_not_break."+br.name, 1)
				return
			}
			x, _ := bm.Encode(nil)
			r.Count("broken."+br.name, 1)
			if _, err := parse(x); err == nil {
				r.Violation("c02.accepted-malformed:"+br.name, fmt.Sprintf("parser accepted a bundle that breaks rule %q (all rules broken: %v)", br.name, bad),
					map[string]interface{}{"twin": hex.EncodeToString(twin), "broken": hex.EncodeToString(x), "bundle": bm})
			} else {
				r.Count("broken.rejected", 1)
			}
			r.Nontrivial("single", br.name, x)
			if i < len(breakers) && i%5 == 0 {
				r.Sample(map[string]interface{}{"rule": br.name, "broken_encoding": hex.EncodeToString(x)})
			}
		})
		r.Exhaustive("each rule of the statement broken singly")

		// pairs of rules
		var pairs [][2]int
		for a := 0; a < len(breakers); a++ {
			for b := a + 1; b < len(breakers); b++ {
				pairs = append(pairs, [2]int{a, b})
			}
		}
		perPair := r.Pick(30, 200)
		r.Group("pairs", len(pairs)*perPair, func(i int, rng *report.Rand) {
			pr := pairs[i%len(pairs)]
			m := model.GenBundle(rng, base)
			bm := m.Clone()
			first, second := breakers[pr[0]], breakers[pr[1]]
			if rng.Bool() {
				first, second = second, first
			}
			if !first.f(rng, &bm, now) || !second.f(rng, &bm, now) {
				return
			}
			bad := bm.Invalid(now)
			if len(bad) == 0 {
				r.Count("harness.pair_not_broken", 1)
				return
			}
			x, _ := bm.Encode(nil)
			r.Count("broken.pairs", 1)
			if _, err := parse(x); err == nil {
				r.Violation("c02.accepted-malformed:"+bad[0], fmt.Sprintf("parser accepted a bundle that breaks %v", bad),
					map[string]interface{}{"broken": hex.EncodeToString(x), "bundle": bm})
			}
			r.Nontrivial("pair", x)
		})

		// (1) accepted => well-formed, on structure-aware mutants
		r.Group("mutants", r.Pick(80000, 400000), func(i int, rng *report.Rand) {
			m := model.GenBundle(rng, base)
			x, kind := model.Mutate(rng, m)
			p, err := parse(x)
			if err != nil {
				r.Count("mutants.rejected", 1)
				return
			}
			r.Count("mutants.accepted", 1)
			if bad := model.FromBpv7(p).Invalid(now); len(bad) > 0 {
				r.Violation("c02.accepted-malformed:"+bad[0], fmt.Sprintf("parser accepted a mutant (%s) that breaks %v", kind, bad),
					map[string]interface{}{"bytes": hex.EncodeToString(x)})
			}
			r.Nontrivial("mutant", x)
		})

		// (3a) builder programs
		r.Group("builder", r.Pick(15000, 100000), func(i int, rng *report.Rand) {
			var prog []string
			b, err := runBuilderProgram(rng, &prog)
			if err != nil {
				r.Count("builder.error", 1)
				return
			}
			checkProduced(r, "builder", b, now, prog)
			if i < 40 && i%16 == 0 {
				r.Sample(map[string]interface{}{"builder_program": prog})
			}
		})

		// (3b) BuildFromMap with JSON-decoded argument maps (as the REST agent passes them)
		r.Group("frommap", r.Pick(15000, 100000), func(i int, rng *report.Rand) {
			js := genBuildMap(rng)
			var args map[string]interface{}
			if err := json.Unmarshal([]byte(js), &args); err != nil {
				r.Count("frommap.json_error", 1)
				return
			}
			b, err, panicked := buildFromMap(args)
			if panicked {
				r.Count("frommap.panic_(decided_by_C04)", 1)
				return
			}
			if err != nil {
				r.Count("frommap.error", 1)
				return
			}
			checkProduced(r, "frommap", b, now, js)
			if i < 64 && i%32 == 0 {
				r.Sample(map[string]interface{}{"build_from_map": js})
			}
		})

		// (3c) fragmentation and reassembly outputs
		r.Group("fragments", r.Pick(5000, 30000), func(i int, rng *report.Rand) {
			o := base
			o.NoFragment = true
			o.MaxPayload = 600
			m := model.GenBundle(rng, o)
			rb := m.ToBpv7()
			x, err := serialise(&rb)
			if err != nil {
				return
			}
			mtu := 60 + rng.Intn(len(x)+40)
			frags, err, panicked := fragment(rb, mtu)
			if panicked || err != nil {
				r.Count("fragments.error_or_panic_(decided_by_C09)", 1)
				return
			}
			for _, f := range frags {
				checkProduced(r, "fragment", f, now, map[string]interface{}{"bundle": m, "mtu": mtu})
			}
			if len(frags) > 1 {
				re, err, panicked := reassemble(frags)
				if panicked || err != nil {
					r.Count("reassembly.error_or_panic_(decided_by_C10)", 1)
					return
				}
				checkProduced(r, "reassembly", re, now, map[string]interface{}{"bundle": m, "mtu": mtu})
			}
		})
	})
	if err != nil {
		r.Violation("c02.harness-panic", err.Error(), nil)
	}

	// (3d) bundles generated or forwarded by a real node, per routing algorithm
	bubble.SetT(t)
	algos := []string{"epidemic", "spray", "binary_spray", "prophet", "dtlsr", "sensor-mule"}
	r.Group("node-produced", len(algos)*r.Pick(8, 40), func(i int, rng *report.Rand) {
		if err := nodeProduced(r, algos[i%len(algos)], i, rng); err != nil {
			r.Violation("c02.node-deadlock-or-panic", err.Error(), nil)
		}
	})
}

func fragment(b bpv7.Bundle, mtu int) (fs []bpv7.Bundle, err error, panicked bool) {
	defer func() {
		if p := recover(); p != nil {
			panicked = true
		}
	}()
	fs, err = b.Fragment(mtu)
	return
}

func reassemble(fs []bpv7.Bundle) (b bpv7.Bundle, err error, panicked bool) {
	defer func() {
		if p := recover(); p != nil {
			panicked = true
		}
	}()
	b, err = bpv7.ReassembleFragments(fs)
	return
}

func buildFromMap(args map[string]interface{}) (b bpv7.Bundle, err error, panicked bool) {
	defer func() {
		if p := recover(); p != nil {
			panicked = true
		}
	}()
	b, err = bpv7.BuildFromMap(args)
	return
}

var eidPool = []string{"dtn://a/", "dtn://node-1/app", "dtn://x.y_z/~group", "dtn:none", "ipn:1.1", "ipn:23.42", "ipn:4294967296.1",
	"dtn://", "dtn:/a/", "ipn:0.1", "ipn:1", "http://a/", "", "dtn://a b/", "dtn://n/ünï"}

func genBuildMap(rng *report.Rand) string {
	val := func() string {
		switch rng.Intn(9) {
		case 0:
			return "null"
		case 1:
			return fmt.Sprintf("%d", rng.Intn(100000))
		case 2:
			return fmt.Sprintf("%d.5", rng.Intn(100))
		case 3:
			return `"` + []string{"10m", "24h", "1s", "0s", "-1s", "abc", "1000000h"}[rng.Intn(7)] + `"`
		case 4:
			return "true"
		case 5:
			return "[1,2,3]"
		case 6:
			return `{"a":1}`
		case 7:
			return "-3"
		default:
			b, _ := json.Marshal(eidPool[rng.Intn(len(eidPool))])
			return string(b)
		}
	}
	eid := func() string {
		if rng.Chance(1, 8) {
			return val()
		}
		b, _ := json.Marshal(eidPool[rng.Intn(7)])
		return string(b)
	}
	kv := map[string]string{}
	if rng.Chance(9, 10) {
		kv["source"] = eid()
	}
	if rng.Chance(9, 10) {
		kv["destination"] = eid()
	}
	if rng.Chance(1, 3) {
		kv["report_to"] = eid()
	}
	switch rng.Intn(4) {
	case 0:
		kv["creation_timestamp_epoch"] = val()
	case 1, 2:
		kv["creation_timestamp_now"] = val()
	}
	if rng.Chance(9, 10) {
		if rng.Chance(1, 6) {
			kv["lifetime"] = val()
		} else {
			kv["lifetime"] = []string{`"10m"`, `"24h"`, `60000`, `1`, `0`, `"1ms"`}[rng.Intn(6)]
		}
	}
	if rng.Chance(9, 10) {
		if rng.Chance(1, 5) {
			kv["payload_block"] = val()
		} else {
			kv["payload_block"] = []string{`"hello"`, `""`, `"\u0000\u0001"`, `42`}[rng.Intn(4)]
		}
	}
	if rng.Chance(1, 3) {
		if rng.Bool() {
			kv["bundle_age_block"] = val()
		} else {
			kv["bundle_age_block"] = []string{`0`, `1000`, `"1s"`, `"100h"`}[rng.Intn(4)]
		}
	}
	if rng.Chance(1, 4) {
		kv["hop_count_block"] = val()
	}
	if rng.Chance(1, 4) {
		kv["previous_node_block"] = eid()
	}
	if rng.Chance(1, 20) {
		kv[[]string{"bundle_ctrl_flags", "canonical", "creation_timestamp_time", "bogus"}[rng.Intn(4)]] = val()
	}
	keys := make([]string, 0, len(kv))
	for k := range kv {
		keys = append(keys, k)
	}
	sort.Strings(keys)
	var sb strings.Builder
	sb.WriteString("{")
	for i, k := range keys {
		if i > 0 {
			sb.WriteString(",")
		}
		fmt.Fprintf(&sb, "%q:%s", k, kv[k])
	}
	sb.WriteString("}")
	return sb.String()
}

// runBuilderProgram executes a random sequence of builder methods with valid, boundary and wrong-typed arguments.
func runBuilderProgram(rng *report.Rand, prog *[]string) (b bpv7.Bundle, err error) {
	defer func() {
		if p := recover(); p != nil {
			err = fmt.Errorf("panic (decided by C04): %v", p)
		}
	}()
	bl := bpv7.Builder()
	say := func(f string, a ...interface{}) { *prog = append(*prog, fmt.Sprintf(f, a...)) }
	eid := func() interface{} {
		s := eidPool[rng.Intn(len(eidPool))]
		if rng.Chance(9, 10) {
			s = eidPool[rng.Intn(7)]
		}
		switch rng.Intn(4) {
		case 0:
			if e, err := bpv7.NewEndpointID(s); err == nil {
				return e
			}
			return s
		case 1:
			if rng.Chance(1, 4) {
				return 42
			}
		}
		return s
	}
	steps := 3 + rng.Intn(9)
	hasSrc, hasDst, hasPayload, hasTime := false, false, false, false
	for k := 0; k < steps+4; k++ {
		c := rng.Intn(14)
		// make the programme likely to be complete
		if k >= steps {
			switch {
			case !hasSrc:
				c = 0
			case !hasDst:
				c = 1
			case !hasTime:
				c = 3
			case !hasPayload:
				c = 9
			default:
				c = 99
			}
		}
		switch c {
		case 0:
			e := eid()
			say("Source(%v)", e)
			bl.Source(e)
			hasSrc = true
		case 1:
			e := eid()
			say("Destination(%v)", e)
			bl.Destination(e)
			hasDst = true
		case 2:
			e := eid()
			say("ReportTo(%v)", e)
			bl.ReportTo(e)
		case 3:
			hasTime = true
			switch rng.Intn(4) {
			case 0:
				say("CreationTimestampEpoch()")
				bl.CreationTimestampEpoch()
			case 1:
				d := time.Duration(rng.Intn(7200)) * time.Second
				say("CreationTimestampTime(now-%v)", d)
				bl.CreationTimestampTime(time.Now().Add(-d))
			default:
				say("CreationTimestampNow()")
				bl.CreationTimestampNow()
			}
		case 4:
			var l interface{}
			switch rng.Intn(8) {
			case 0:
				l = "10m"
			case 1:
				l = uint64(rng.Intn(10000000))
			case 2:
				l = rng.Intn(100000) - 5
			case 3:
				l = 3 * time.Hour
			case 4:
				l = float64(rng.Intn(100000))
			case 5:
				l = "nonsense"
			case 6:
				l = []byte{1}
			default:
				l = "24h"
			}
			say("Lifetime(%v)", l)
			bl.Lifetime(l)
		case 5:
			fl := model.AdmissibleFlags(false)
			f := fl[rng.Intn(len(fl))]
			if rng.Chance(1, 5) {
				f = rng.Uint64() & 0x7ffff
			}
			say("BundleCtrlFlags(%#x)", f)
			bl.BundleCtrlFlags(bpv7.BundleControlFlags(f))
		case 6:
			c := bpv7.CRCType(rng.Intn(3))
			say("CRC(%v)", c)
			bl.CRC(c)
		case 7:
			var a interface{} = rng.Intn(300)
			if rng.Chance(1, 5) {
				a = "x"
			}
			say("HopCountBlock(%v)", a)
			bl.HopCountBlock(a)
		case 8:
			var a interface{} = uint64(rng.Intn(100000))
			switch rng.Intn(5) {
			case 0:
				a = "5s"
			case 1:
				a = -4
			}
			say("BundleAgeBlock(%v)", a)
			bl.BundleAgeBlock(a)
		case 9:
			var a interface{} = rng.Bytes(rng.Intn(40))
			switch rng.Intn(6) {
			case 0:
				a = uint32(7)
			case 1:
				a = "a string" // binary.Write cannot encode a string
			}
			say("PayloadBlock(%T)", a)
			bl.PayloadBlock(a)
			hasPayload = true
		case 10:
			e := eid()
			say("PreviousNodeBlock(%v)", e)
			bl.PreviousNodeBlock(e)
		case 11:
			var eb bpv7.ExtensionBlock
			switch rng.Intn(5) {
			case 0:
				eb = bpv7.NewGenericExtensionBlock(rng.Bytes(rng.Intn(20)), uint64(200+rng.Intn(40)))
			case 1:
				eb = bpv7.NewBinarySprayBlock(uint64(rng.Intn(10)))
			case 2:
				eb = bpv7.NewBundleAgeBlock(uint64(rng.Intn(1000)))
			case 3:
				eb = bpv7.NewPayloadBlock(rng.Bytes(3))
				hasPayload = true
			default:
				eb = bpv7.NewHopCountBlock(uint8(rng.Intn(256)))
			}
			fl := bpv7.BlockControlFlags(rng.Intn(32) & 0x17)
			say("Canonical(%T, %#x)", eb, fl)
			if rng.Bool() {
				bl.Canonical(eb, fl)
			} else {
				cb := bpv7.NewCanonicalBlock(uint64(rng.Intn(5)), fl, eb)
				cb.SetCRCType(bpv7.CRCType(rng.Intn(3)))
				bl.Canonical(cb)
			}
		case 12:
			say("StatusReport(...)")
			ref, _ := bpv7.Builder().Source("dtn://ref/").Destination("dtn://d/").CreationTimestampNow().Lifetime("1h").
				PayloadBlock([]byte("x")).Build()
			bl.StatusReport(ref, bpv7.StatusInformationPos(rng.Intn(4)), bpv7.StatusReportReason(rng.Intn(12)))
			hasPayload = true
		case 13:
			say("Canonical()")
			if rng.Chance(1, 10) {
				bl.Canonical()
			}
		}
	}
	say("Build()")
	return bl.Build()
}
