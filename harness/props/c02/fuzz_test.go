package c02

import (
	"bytes"
	"encoding/hex"
	"fmt"
	"testing"

	"verifh/internal/bubble"
	"verifh/internal/model"
	"verifh/internal/report"
)

// FuzzAccepted applies direction (1) of the oracle - every byte string the parser accepts satisfies the independent
// validity predicate - to inputs found by Go's coverage-guided fuzzing engine. Each input is also tried with its block
// CRCs recomputed by the harness, so that byte-level mutation reaches the structural rules behind the checksums.
// The instant used by the predicate's lifetime rule is read BEFORE the parser runs: a bundle accepted afterwards had
// not run out of lifetime at that earlier instant either.
func FuzzAccepted(f *testing.F) {
	bubble.Quiet()
	bubble.RegisterBlocks()
	r := report.FuzzRun(f, "C02", "FuzzAccepted")
	for i := 0; i < 200; i++ {
		rng := report.NewRand(r.Seed, "fuzzseed", uint64(i))
		o := model.GenOpts{NowMs: bubble.NowMs(), MaxPayload: 64}
		if i%2 == 0 {
			o.SmallOnly = true
		}
		m := model.GenBundle(rng, o)
		if i%3 == 0 {
			x, _ := model.Mutate(rng, m)
			f.Add(x)
		} else {
			x, _ := m.Encode(nil)
			f.Add(x)
		}
	}
	one := func(x []byte, tag string) {
		now0 := bubble.NowMs()
		p, err := parse(x)
		if err != nil {
			r.Count("fuzz.rejected", 1)
			return
		}
		r.Count("fuzz.accepted"+tag, 1)
		if bad := model.FromBpv7(p).Invalid(now0); len(bad) > 0 {
			r.Violation("c02.accepted-malformed:"+bad[0], fmt.Sprintf("parser accepted a fuzz input that breaks %v", bad),
				map[string]interface{}{"bytes": hex.EncodeToString(x)})
		}
		r.Nontrivial("fuzz", x)
	}
	f.Fuzz(func(t *testing.T, x []byte) {
		r.FuzzJudge(t, func() {
			one(x, "")
			if y := model.FixCRCs(x); !bytes.Equal(x, y) {
				one(y, "_after_crc_fix")
			}
		})
	})
}
