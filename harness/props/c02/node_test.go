package c02

import (
	"fmt"
	"testing"
	"time"

	"github.com/dtn7/dtn7-go/pkg/agent"
	"github.com/dtn7/dtn7-go/pkg/bpv7"

	"verifh/internal/bubble"
	"verifh/internal/model"
	"verifh/internal/nodesim"
	"verifh/internal/report"
)

// nodeProduced runs a real node through a scenario that makes it generate bundles of its own (status reports, pongs,
// routing metadata) and forward others; everything handed to a convergence layer or an agent must be accepted by the
// parser and satisfy the validity predicate.
func nodeProduced(r *report.Run, algo string, idx int, rng *report.Rand) error {
	return bubble.Run(nil, func(t *testing.T) {
		s, err := nodesim.New(nodesim.Config{Routing: nodesim.RoutingConf(algo)})
		if err != nil {
			r.Violation("c02.node.open-failed", err.Error(), nil)
			return
		}
		defer s.Close()
		s.Core.RegisterApplicationAgent(agent.NewPing(bpv7.MustNewEndpointID("dtn://node/ping")))
		s.AddAgent("app", "dtn://node/app")
		s.PeerUp("p")
		s.PeerUp("q")
		now := bubble.NowMs()
		for i := 0; i < 6; i++ {
			o := model.GenOpts{NowMs: now, NoAnonymous: true, NoZeroTime: rng.Bool(), MaxPayload: 60, NoFragment: true, NoMultiMaps: true}
			m := model.GenBundle(rng, o)
			m.Src = model.Dtn("origin", fmt.Sprintf("a%d", i))
			m.Rpt = model.Dtn("rpt", "x")
			switch i % 4 {
			case 0:
				m.Dst = model.Dtn("node", "ping")
			case 1:
				m.Dst = model.Dtn("node", "app")
			case 2:
				m.Dst = model.Dtn("far", "in")
			default:
				m.Dst = model.Dtn("node", "nobody")
			}
			if m.Flags&model.FAdminRecord == 0 {
				m.Flags |= []uint64{model.FReqRecv, model.FReqFwd, model.FReqDeliv, model.FReqDel, model.FReqAny}[rng.Intn(5)]
			}
			for k := range m.Blocks {
				if m.Blocks[k].Type == model.TPrevNode {
					m.Blocks[k].Node = model.Dtn("p", "")
				}
			}
			if bad := m.Invalid(now); len(bad) > 0 {
				continue
			}
			wire, _ := m.Encode(nil)
			_ = s.Deliver("p", wire)
		}
		b, _ := bpv7.Builder().CRC(bpv7.CRC32).Source("dtn://node/app").Destination("dtn://far/in").CreationTimestampNow().Lifetime("1h").
			BundleCtrlFlags(bpv7.StatusRequestForward | bpv7.StatusRequestDeletion).PayloadBlock(nodesim.Payload("np", 4)).Build()
		s.Submit(b)
		s.Tick(8 * time.Second)
		s.PeerUp("far")
		s.Tick(12 * time.Second)
		check := func(where string, parseErr string, mb model.Bundle, atMs uint64) bool {
			r.Count("produced.node", 1)
			if parseErr != "" {
				r.Violation("c02.node-produced-rejected:"+algo, "the node handed over a bundle its own parser rejects: "+parseErr, map[string]interface{}{"trace": s.TraceStrings()})
				return false
			}
			if bad := mb.Invalid(atMs); len(bad) > 0 {
				r.Violation("c02.node-produced-malformed:"+bad[0], fmt.Sprintf("bundle handed to a %s breaks %v: %s", where, bad, mb.Canon()), map[string]interface{}{"trace": s.TraceStrings()})
				return false
			}
			if mb.Src.Node == "node" {
				r.Count("produced.node_originated", 1)
				r.Nontrivial("node", algo, mb.Canon())
			}
			return true
		}
		for _, x := range s.Sends() {
			if !check("convergence layer", x.ParseErr, x.Bundle, x.AtMs) {
				return
			}
		}
		for _, d := range s.Deliveries() {
			if !check("agent", "", d.Bundle, now) {
				return
			}
		}
	})
}
