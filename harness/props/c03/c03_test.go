package c03

import (
	"bytes"
	"encoding/hex"
	"fmt"
	"testing"

	"github.com/dtn7/dtn7-go/pkg/bpv7"

	"verifh/internal/bubble"
	"verifh/internal/model"
	"verifh/internal/report"
)

func parse(x []byte) (err error) {
	defer func() {
		if p := recover(); p != nil {
			err = fmt.Errorf("panic: %v", p)
		}
	}()
	_, err = bpv7.ParseBundle(bytes.NewReader(x))
	return
}

func serialise(b *bpv7.Bundle) ([]byte, error) {
	var buf bytes.Buffer
	err := b.WriteBundle(&buf)
	return buf.Bytes(), err
}

func sameSpans(a, b []model.Span) bool {
	if len(a) != len(b) {
		return false
	}
	for i := range a {
		if a[i] != b[i] {
			return false
		}
	}
	return true
}

// judge applies oracle (b) to a changed encoding: if the independent computation demands rejection, the parser must reject.
func judge(r *report.Run, orig, x []byte, kind string, what string) {
	v := model.JudgeCRC(x)
	err := parse(x)
	r.Evals(1)
	if v.MustReject {
		r.Count("changed."+kind+".must_reject", 1)
		if err == nil {
			r.Violation("c03.accepted-corrupt:"+kind+":"+v.Why,
				"parser accepted a changed encoding although an independent check finds: "+v.Why,
				map[string]interface{}{"original": hex.EncodeToString(orig), "changed": hex.EncodeToString(x), "change": what})
		}
	} else {
		// every declared CRC still matches after the change: impossible for single bits and short bursts
		r.Count("changed."+kind+".all_crcs_still_match", 1)
	}
	if err != nil {
		r.Count("changed."+kind+".rejected", 1)
	} else {
		r.Count("changed."+kind+".accepted", 1)
	}
}

func TestCheck(t *testing.T) {
	bubble.Quiet()
	bubble.RegisterBlocks()
	r := report.Start(t, "C03")
	defer r.Finish()

	err := bubble.Run(t, func(t *testing.T) {
		now := bubble.NowMs()

		// (a) serialiser writes the specified CRCs; exhaustive single-bit flips and bursts
		nBundles := r.Pick(160, 1500)
		r.Group("bundles", nBundles, func(i int, rng *report.Rand) {
			o := model.GenOpts{NowMs: now, CRCMode: 4, SmallOnly: true, MaxPayload: 64}
			big := r.Thorough() && i%50 == 0
			m := model.GenBundle(rng, o)
			if big {
				m.Blocks[len(m.Blocks)-1].Data = rng.Bytes(65536)
				if m.IsFragment() {
					m.Total = m.FragOff + 65536
				}
			}
			rb := m.ToBpv7()
			x, err := serialise(&rb)
			if err != nil {
				r.Violation("c03.serialise", "cannot serialise a valid bundle: "+err.Error(), m)
				return
			}
			v := model.JudgeCRC(x)
			if v.MustReject || v.Protected != len(m.Blocks)+1 {
				r.Violation("c03.serialiser-crc:"+v.Why, fmt.Sprintf("serialiser output fails the independent CRC check (%s; %d of %d blocks verified)",
					v.Why, v.Protected, len(m.Blocks)+1), map[string]interface{}{"bundle": m, "bytes": hex.EncodeToString(x)})
				return
			}
			if err := parse(x); err != nil {
				r.Violation("c03.own-output-rejected", "parser rejects the serialiser's CRC-protected output: "+err.Error(), hex.EncodeToString(x))
				return
			}
			// the independent encoder must agree byte for byte on the CRC values (interoperability of X-25 / CRC-32C)
			if m.MapEntries() <= 1 {
				if ref, _ := m.Encode(nil); !bytes.Equal(ref, x) {
					r.Count("reference_encoding_differs", 1)
				} else {
					r.Count("reference_encoding_equal", 1)
				}
			}
			r.Nontrivial("bundle", x)
			r.Count("bundles.fully_protected", 1)
			r.Count("blocks.crc_verified_independently", v.Protected)
			if i < 2 {
				r.Sample(map[string]interface{}{"bundle": m.Canon(), "bytes": hex.EncodeToString(x)})
			}

			nbits := len(x) * 8
			exhaustiveBits := true
			step := 1
			if len(x) > 4096 {
				exhaustiveBits = false
			}
			y := make([]byte, len(x))
			for bit := 0; bit < nbits; bit += step {
				if !exhaustiveBits && bit >= 4096*8 {
					bit += rng.Intn(64)
					if bit >= nbits {
						break
					}
				}
				copy(y, x)
				y[bit/8] ^= 0x80 >> uint(bit%8)
				vv := model.JudgeCRC(y)
				err := parse(y)
				r.Evals(1)
				r.Count("bitflips", 1)
				if err == nil {
					r.Violation("c03.bitflip-accepted", fmt.Sprintf("single-bit change accepted (independent verdict: must_reject=%v %s)", vv.MustReject, vv.Why),
						map[string]interface{}{"original": hex.EncodeToString(x), "bit": bit})
				}
				if !vv.MustReject {
					r.Count("bitflips.independent_check_sees_no_mismatch", 1)
				}
			}

			// bursts inside one block, no longer than that block's CRC width
			patterns := r.Pick(8, 64)
			for bi, s := range v.Blocks {
				typ := uint64(0)
				if bi == 0 {
					typ = m.CRC
				} else {
					typ = m.Blocks[bi-1].CRC
				}
				width := 8 * model.CRCLen(typ)
				for start := s.Start; start < s.End; start++ {
					if !exhaustiveBits && start > 4096 && rng.Intn(128) != 0 { // 64 KiB payloads: one start in 128 beyond the first 4 KiB
						continue
					}
					for p := 0; p < patterns; p++ {
						blen := 2 + rng.Intn(width-1) // 2..width bits
						sb := start*8 + rng.Intn(8)
						if sb+blen > s.End*8 {
							continue
						}
						copy(y, x)
						for k := 0; k < blen; k++ {
							if k == 0 || k == blen-1 || rng.Bool() {
								b := sb + k
								y[b/8] ^= 0x80 >> uint(b%8)
							}
						}
						vv := model.JudgeCRC(y)
						intact := vv.Blocks != nil && sameSpans(vv.Blocks, v.Blocks)
						err := parse(y)
						r.Evals(1)
						r.Count("bursts", 1)
						if intact {
							r.Count("bursts.boundaries_intact", 1)
						}
						if (vv.MustReject || intact) && err == nil {
							r.Violation("c03.burst-accepted:"+vv.Why, "burst no longer than the CRC width accepted",
								map[string]interface{}{"original": hex.EncodeToString(x), "changed": hex.EncodeToString(y), "block": bi, "independent": vv.Why})
						}
						if intact && !vv.MustReject {
							r.Count("bursts.independent_check_sees_no_mismatch", 1)
						}
					}
				}
			}
		})
		r.Exhaustive("every bit position of every sampled encoding up to 4 KiB")

		// (c) declared CRC type without CRC element / with a CRC element of the wrong width
		nC := r.Pick(1000, 6000)
		r.Group("arity", nC, func(i int, rng *report.Rand) {
			o := model.GenOpts{NowMs: now, CRCMode: 4, SmallOnly: true}
			m := model.GenBundle(rng, o)
			orig, _ := m.Encode(nil)
			if err := parse(orig); err != nil {
				r.Violation("c03.reference-rejected", "parser rejects an independently encoded, CRC-protected valid bundle: "+err.Error(),
					map[string]interface{}{"bundle": m, "bytes": hex.EncodeToString(orig)})
				return
			}
			r.Nontrivial("arity", orig)
			for bi := 0; bi <= len(m.Blocks); bi++ {
				for variant := 0; variant < 4; variant++ {
					mm := m.Clone()
					opts := &model.EncodeOpts{}
					what := ""
					switch variant {
					case 0, 1: // no CRC element; variant 1 additionally alters the content so that a skipped check matters
						if bi == 0 {
							opts.PrimaryNoCRCField = true
							if variant == 1 {
								mm.Seq ^= 1
							}
						} else {
							opts.BlockNoCRCField = map[int]bool{bi - 1: true}
							if variant == 1 {
								c := mm.Blocks[bi-1].Content()
								if len(c) > 0 && mm.Blocks[bi-1].Type == model.TPayload {
									c = bytes.Clone(c)
									c[0] ^= 0x55
									mm.Blocks[bi-1].Data = c
								}
							}
						}
						what = fmt.Sprintf("block %d without CRC element (variant %d)", bi, variant)
					case 2, 3:
						typ := mm.CRC
						if bi > 0 {
							typ = mm.Blocks[bi-1].CRC
						}
						l := model.CRCLen(typ)
						if variant == 2 {
							l = 6 - l // 2 <-> 4
						} else {
							l = []int{0, 1, 3, 5, 8}[rng.Intn(5)]
						}
						opts.BadCRCLen = map[int]int{bi: l}
						what = fmt.Sprintf("block %d with a %d-byte CRC element", bi, l)
					}
					x, _ := mm.Encode(opts)
					judge(r, orig, x, "arity", what)
				}
			}
		})

		// created primary blocks always carry a CRC
		r.Group("created", r.Pick(600, 2000), func(i int, rng *report.Rand) {
			src := model.GenEID(rng, false)
			dst := model.GenEID(rng, false)
			crc := bpv7.CRCType(rng.Intn(3))
			b, err := bpv7.Builder().CRC(crc).Source(src.String()).Destination(dst.String()).
				CreationTimestampNow().Lifetime("10m").PayloadBlock(rng.Bytes(rng.Intn(50))).Build()
			if err != nil {
				r.Count("created.builder_error", 1)
				return
			}
			x, err := serialise(&b)
			if err != nil {
				r.Violation("c03.created-serialise", err.Error(), nil)
				return
			}
			v := model.JudgeCRC(x)
			items, _ := model.ArrayItems(x, v.Blocks[0])
			typ, _ := model.UIntAt(x, items[2])
			if v.MustReject || typ == 0 {
				r.Violation("c03.created-primary-without-crc", fmt.Sprintf("a built bundle's primary block carries no valid CRC (type %d, %s)", typ, v.Why),
					hex.EncodeToString(x))
			}
			// the serialiser always writes the CRC of what it writes: edit fields of an already serialised / parsed
			// bundle (as the node does when it assigns the sequence number) and serialise again
			for round := 0; round < 3; round++ {
				switch rng.Intn(4) {
				case 0:
					b.PrimaryBlock.CreationTimestamp[1] = rng.Uint64() >> uint(rng.Intn(64))
				case 1:
					b.PrimaryBlock.Lifetime += uint64(1 + rng.Intn(100000))
				case 2:
					b.PrimaryBlock.ReportTo = model.GenEID(rng, false).ToBpv7()
				case 3:
					if p2, err := bpv7.ParseBundle(bytes.NewReader(x)); err == nil {
						b = p2
						b.PrimaryBlock.Lifetime += 7
					}
				}
				y, err := serialise(&b)
				if err != nil {
					break
				}
				if vv := model.JudgeCRC(y); vv.MustReject {
					r.Violation("c03.serialiser-crc-after-edit:"+vv.Why, "after editing a field of a serialised bundle the serialiser wrote a CRC that does not match the bytes it wrote ("+vv.Why+")",
						map[string]interface{}{"first": hex.EncodeToString(x), "second": hex.EncodeToString(y)})
					return
				}
				if err := parse(y); err != nil {
					r.Violation("c03.edited-output-rejected", "parser rejects the serialiser's output for an edited bundle: "+err.Error(), hex.EncodeToString(y))
					return
				}
				r.Count("created.edited_and_reserialised", 1)
				x = y
			}
			pb := bpv7.NewPrimaryBlock(0, dst.ToBpv7(), src.ToBpv7(), bpv7.NewCreationTimestamp(bpv7.DtnTimeNow(), 0), 60000)
			pb.SetCRCType(crc)
			if !pb.HasCRC() {
				r.Violation("c03.newprimary-without-crc", "NewPrimaryBlock/SetCRCType left the primary block without CRC", nil)
			}
			r.Count("created.primary_crc_present", 1)
			r.Nontrivial("created", x)
		})
	})
	if err != nil {
		r.Violation("c03.harness-panic", err.Error(), nil)
	}
}
