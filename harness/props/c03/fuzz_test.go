package c03

import (
	"encoding/hex"
	"os"
	"strings"
	"testing"

	"verifh/internal/bubble"
	"verifh/internal/model"
	"verifh/internal/report"
)

// FuzzCorrupt applies oracle (b) to inputs found by Go's coverage-guided fuzzing engine: whenever the independent
// item walker delimits the blocks and finds a block that declares a CRC but does not carry the bitwise-computed value
// (or carries no / a wrongly sized CRC element, or declares an unknown CRC type), the parser must reject. Inputs whose
// framing the walker cannot follow are counted only (the walker is deliberately narrower than CBOR).
func FuzzCorrupt(f *testing.F) {
	bubble.Quiet()
	bubble.RegisterBlocks()
	r := report.FuzzRun(f, "C03", "FuzzCorrupt")
	for i := 0; i < 200; i++ {
		rng := report.NewRand(r.Seed, "fuzzseed", uint64(i))
		o := model.GenOpts{NowMs: bubble.NowMs(), MaxPayload: 64, SmallOnly: i%2 == 0}
		m := model.GenBundle(rng, o)
		m.CRC = uint64(1 + i%2)
		for k := range m.Blocks {
			m.Blocks[k].CRC = uint64(1 + (i+k)%2)
		}
		x, _ := m.Encode(nil)
		f.Add(x)
	}
	f.Fuzz(func(t *testing.T, x []byte) {
		r.FuzzJudge(t, func() {
			if st := os.Getenv("VERIF_FUZZ_SELFTEST"); (st == "1" && len(x)%7 == 3) || (st == "2" && len(x) == 1) {
				// self test of the driver's fuzz-violation path (never set in a registered command)
				r.Violation("selftest.fuzz-path", "self test: input of the chosen length", hex.EncodeToString(x))
				return
			}
			v := model.JudgeCRC(x)
			err := parse(x)
			switch {
			case v.MustReject && (strings.HasPrefix(v.Why, "CRC") || v.Why == "unknown CRC type"):
				r.Count("fuzz.must_reject_for_crc", 1)
				if err == nil {
					r.Violation("c03.accepted-corrupt:fuzz:"+v.Why,
						"parser accepted a fuzz input although an independent check finds: "+v.Why,
						map[string]interface{}{"bytes": hex.EncodeToString(x)})
				}
			case v.MustReject:
				r.Count("fuzz.framing_not_followed", 1)
				if err == nil {
					r.Count("fuzz.framing_not_followed_but_accepted", 1)
				}
			default:
				r.Count("fuzz.all_declared_crcs_match", 1)
				if err == nil {
					r.Count("fuzz.accepted_with_matching_crcs", 1)
					if v.Protected > 0 {
						r.Nontrivial("fz", x)
					}
				}
			}
		})
	})
}
