// Package c04 decides property C04 ("bytes from the network or clients can never crash, hang or balloon the node")
// by running every decoder of the node on generated hostile inputs inside monitored child processes.
package c04

import (
	"bufio"
	"encoding/hex"
	"encoding/json"
	"fmt"
	"os"
	"os/exec"
	"path/filepath"
	"regexp"
	"strconv"
	"strings"
	"testing"
	"time"

	"verifh/internal/bubble"
	"verifh/internal/report"
)

func hx(b []byte) string {
	if len(b) > 2048 {
		return hex.EncodeToString(b[:2048]) + fmt.Sprintf("...(%d bytes)", len(b))
	}
	return hex.EncodeToString(b)
}

var digits = regexp.MustCompile(`[0-9]+`)
var hexaddr = regexp.MustCompile(`0x[0-9a-f]+`)

func stripNumbers(s string) string {
	s = hexaddr.ReplaceAllString(s, "0xN")
	s = digits.ReplaceAllString(s, "N")
	return strings.Join(strings.Fields(s), " ")
}

// childRun is the parent's view of one child process.
type childRun struct {
	results map[int]result
	started int  // last "S" index, -1 if none
	ended   bool // "E" seen
	timeout bool // "T" seen (child's watchdog) or killed by the parent's watchdog
	phase   int
	exit    int
	stderr  string
}

func selfBinary() string {
	if b := os.Getenv("VERIF_BIN"); b != "" {
		if _, err := os.Stat(b); err == nil {
			return b
		}
	}
	return os.Args[0]
}

var childSeq int

// spawn runs one child on inputs [start,end) of the input file and parses its journal.
func spawn(tg *target, inFile string, start, end int, timeoutS int) childRun {
	childSeq++
	dir := filepath.Dir(inFile)
	outFile := filepath.Join(dir, fmt.Sprintf("out-%d-%d.txt", os.Getpid(), childSeq))
	errFile := filepath.Join(dir, fmt.Sprintf("err-%d-%d.txt", os.Getpid(), childSeq))
	defer os.Remove(outFile)
	defer os.Remove(errFile)
	ef, _ := os.Create(errFile)
	cmd := exec.Command(selfBinary(), "-test.run", "^TestChild$", "-test.count", "1", "-test.timeout", "0")
	cmd.Env = append(os.Environ(),
		"C04_CHILD=1", "C04_TARGET="+tg.name, "C04_IN="+inFile, "C04_OUT="+outFile,
		"C04_START="+strconv.Itoa(start), "C04_END="+strconv.Itoa(end), "C04_TIMEOUT="+strconv.Itoa(timeoutS),
		"GOMAXPROCS=2", "GOTRACEBACK=all")
	cmd.Stdout = ef
	cmd.Stderr = ef
	cr := childRun{results: map[int]result{}, started: -1}
	if err := cmd.Start(); err != nil {
		ef.Close()
		cr.exit = -1
		cr.stderr = "cannot start child: " + err.Error()
		return cr
	}
	done := make(chan error, 1)
	go func() { done <- cmd.Wait() }()
	// parent-side watchdog (second line behind the child's own): no growth of the journal for 3x the timeout
	lastSize, lastChange := int64(-1), time.Now()
	tick := time.NewTicker(500 * time.Millisecond)
	defer tick.Stop()
	killed := false
wait:
	for {
		select {
		case <-done:
			break wait
		case <-tick.C:
			if st, err := os.Stat(outFile); err == nil && st.Size() != lastSize {
				lastSize, lastChange = st.Size(), time.Now()
			} else if time.Since(lastChange) > time.Duration(3*timeoutS+30)*time.Second {
				_ = cmd.Process.Kill()
				killed = true
			}
		}
	}
	ef.Close()
	if cmd.ProcessState != nil {
		cr.exit = cmd.ProcessState.ExitCode()
	}
	if b, err := os.ReadFile(errFile); err == nil {
		if len(b) > 200000 {
			b = b[:200000]
		}
		cr.stderr = string(b)
	}
	if f, err := os.Open(outFile); err == nil {
		sc := bufio.NewScanner(f)
		sc.Buffer(make([]byte, 1<<20), 1<<24)
		for sc.Scan() {
			ln := sc.Text()
			switch {
			case strings.HasPrefix(ln, "S "):
				cr.started, _ = strconv.Atoi(ln[2:])
				cr.phase = 0
			case strings.HasPrefix(ln, "P "):
				cr.phase = 1
			case strings.HasPrefix(ln, "R "):
				rest := ln[2:]
				if sp := strings.IndexByte(rest, ' '); sp > 0 {
					var res result
					if json.Unmarshal([]byte(rest[sp+1:]), &res) == nil {
						cr.results[res.I] = res
					}
				}
			case strings.HasPrefix(ln, "T "):
				cr.timeout = true
			case ln == "E":
				cr.ended = true
			}
		}
		f.Close()
	}
	if killed {
		cr.timeout = true
	}
	return cr
}

var fatalRe = regexp.MustCompile(`(?m)^(fatal error: .*|panic: .*|runtime: out of memory.*|SIGSEGV.*|unexpected fault address.*|signal: .*)$`)
var frameRe = regexp.MustCompile(`(?m)^(github\.com/dtn7/dtn7-go/[^\s]+)\(`)

// classifyDeath names the reason of a child's death from its stderr.
func classifyDeath(stderr string, exit int) (class, site string) {
	if m := fatalRe.FindStringSubmatch(stderr); m != nil {
		class = stripNumbers(m[1])
		if len(class) > 100 {
			class = class[:100]
		}
		rest := stderr[strings.Index(stderr, m[1]):]
		if fm := frameRe.FindStringSubmatch(rest); fm != nil {
			site = cleanFunc(fm[1] + "(")
		}
		return
	}
	return fmt.Sprintf("child exited with status %d without a Go fatal message", exit), ""
}

// confirmedHangs counts the non-termination verdicts of this shard process. Each costs 150 s of wall clock; after
// maxConfirmedHangs of them further candidates are skipped so that the shard ends within the driver's watchdog.
var confirmedHangs int

const maxConfirmedHangs = 3

// slowRetries counts the second attempts (up to 120 s each) of this shard process, whatever their outcome.
var slowRetries int

const maxSlowRetries = 6

// notRun counts inputs that were skipped (batch cut short): a run with skipped inputs and no violation is not a pass.
var notRun int

// runBatch runs the inputs in child processes, restarting after every process-fatal input, and judges every result.
func runBatch(r *report.Run, tg *target, ins []inp) {
	if len(ins) == 0 {
		return
	}
	t0 := time.Now()
	defer func() { r.Count("wall_ms."+tg.name, int(time.Since(t0)/time.Millisecond)) }()
	dir, err := os.MkdirTemp("", "c04-")
	if err != nil {
		r.Note("harness: " + err.Error())
		return
	}
	defer os.RemoveAll(dir)
	inFile := filepath.Join(dir, "inputs.bin")
	if err := writeInputs(inFile, ins); err != nil {
		r.Note("harness: " + err.Error())
		return
	}
	results := make([]*result, len(ins))
	start := 0
	restarts := 0
	hangsInBatch := 0
	for start < len(ins) {
		if restarts > 40 {
			r.Note(fmt.Sprintf("target %s: more than 40 child restarts in one batch; %d inputs of the batch not run", tg.name, len(ins)-start))
			r.Count("harness.batches_cut_short", 1)
			break
		}
		r.Journal(fmt.Sprintf("child %s from %d", tg.name, start))
		firstTimeout := 30
		if confirmedHangs >= maxConfirmedHangs || slowRetries >= maxSlowRetries {
			firstTimeout = 5 // hangs are already established in this shard: keep moving, unfinished inputs are skipped
		}
		cr := spawn(tg, inFile, start, len(ins), firstTimeout)
		r.Count("children.spawned", 1)
		next := start
		for i := start; i < len(ins); i++ {
			if res, ok := cr.results[i]; ok {
				rc := res
				results[i] = &rc
				next = i + 1
			} else {
				break
			}
		}
		if next >= len(ins) {
			break
		}
		restarts++
		if cr.started < next {
			// the child stopped between two inputs (voluntary restart after a huge allocation / a spin verdict) or never got going
			if next == start && cr.started < start {
				// nothing at all: child could not run
				r.Note(fmt.Sprintf("target %s: child produced nothing (exit %d): %s", tg.name, cr.exit, tailStr(cr.stderr, 300)))
				r.Count("harness.child_failures", 1)
				if restarts > 5 {
					break
				}
			}
			start = next
			continue
		}
		// input `cr.started` was begun and has no result: the process died or was stopped while decoding it
		i := cr.started
		res := result{I: i}
		if cr.timeout && (confirmedHangs >= maxConfirmedHangs || hangsInBatch >= 2 || slowRetries >= maxSlowRetries) {
			// the time budget for confirming non-termination (120 s each) is used up; the violation is already recorded
			r.Count("harness.batches_cut_short", 1)
			r.Note(fmt.Sprintf("target %s: batch cut short after repeated non-termination; %d inputs not run", tg.name, len(ins)-i))
			break
		}
		if cr.timeout {
			r.Count("slow.first_attempt_without_result_after_30s", 1)
			r.Note(fmt.Sprintf("no result after 30 s at first attempt: %s [%s; %s]", tg.name, ins[i].Class, ins[i].Desc))
			// again, alone in a fresh child, with 120 s
			slowRetries++
			cr2 := spawn(tg, inFile, i, i+1, 120)
			r.Count("children.spawned", 1)
			if r2, ok := cr2.results[i]; ok {
				res = r2
				r.Count("slow.second_attempt_returned", 1)
			} else if cr2.timeout {
				res.St = "timeout"
				res.Msg = "no result after 30 s and, alone in a fresh process, after 120 s"
				if cr.phase == 1 || cr2.phase == 1 {
					res.St = "dead"
					res.Msg = "a valid bundle on a fresh connection was not delivered within 120 s after this input"
				}
			} else {
				cls, site := classifyDeath(cr2.stderr, cr2.exit)
				res.St, res.Msg, res.Site = "fatal", cls, site
			}
		} else {
			cls, site := classifyDeath(cr.stderr, cr.exit)
			res.St, res.Msg, res.Site = "fatal", cls, site
		}
		if res.St == "timeout" || res.St == "dead" {
			confirmedHangs++
			hangsInBatch++
		}
		results[i] = &res
		start = i + 1
	}
	r.Count("children.restarts", restarts)

	for i, in := range ins {
		res := results[i]
		if res == nil {
			r.Count("inputs.not_run", 1)
			notRun++
			continue
		}
		judge(r, tg, in, *res)
	}
}

func tailStr(s string, n int) string {
	if len(s) > n {
		return s[len(s)-n:]
	}
	return s
}

func signature(kind string, tg *target, in inp, site string) string {
	sig := "c04." + kind + ":" + tg.name + ":" + in.Class
	if (in.Coarse == "mutant" || in.Coarse == "truncated") && site != "" {
		sig += "@" + site
	}
	return sig
}

// judge applies the oracle to one result.
func judge(r *report.Run, tg *target, in inp, res result) {
	r.Evals(1)
	t := "t." + tg.name
	r.Count(t+".inputs", 1)
	r.Count(t+"."+in.Coarse, 1)
	witness := map[string]interface{}{
		"target": tg.name, "class": in.Class, "what": in.Desc, "input_len": len(in.Data), "input_hex": hx(in.Data),
		"index_in_batch": res.I, "result": res,
	}
	viol := func(kind, msg string) {
		r.Violation(signature(kind, tg, in, res.Site), fmt.Sprintf("%s: %s [%s; %s]", tg.name, msg, in.Class, in.Desc), witness)
		r.Count("verdict."+kind, 1)
	}
	bud := budget(len(in.Data), res.Extra)
	if os.Getenv("C04_DEBUG") != "" {
		fmt.Printf("DBG %s %s %q st=%s alloc=%d extra=%d us=%d len=%d info=%s\n", tg.name, in.Class, in.Desc, res.St, res.Alloc, res.Extra, res.Us, len(in.Data), res.Info)
	}
	switch res.St {
	case "panic":
		viol("panic", "decoder panicked: "+stripNumbers(res.Msg)+" at "+res.Site)
		return
	case "fatal":
		viol("fatal", "process-fatal while decoding: "+res.Msg+" at "+res.Site)
		return
	case "timeout":
		viol("hang", res.Msg)
		return
	case "blocked":
		viol("hang", res.Msg)
		return
	case "spin":
		viol("spin", res.Msg)
		return
	case "dead":
		viol("dead", res.Msg)
		return
	}
	if res.Alloc > bud {
		viol("alloc", fmt.Sprintf("allocated %d bytes for an input of %d bytes (budget 1024*len + 8 MiB + %d = %d) at %s", res.Alloc, len(in.Data), res.Extra, bud, res.Site))
		return
	}
	if strings.Contains(res.Info, "harness-error") {
		r.Count("harness.errors", 1)
		r.Note("harness error in " + tg.name + ": " + stripNumbers(res.Msg))
		return
	}
	// held for this input
	r.Nontrivial(tg.name, in.Data)
	if res.St == "ok" {
		r.Count(t+".accepted", 1)
	} else {
		r.Count(t+".rejected", 1)
	}
	if res.Info != "" {
		for _, tag := range strings.Fields(res.Info) {
			r.Count("info."+tg.name+"."+tag, 1)
		}
	}
	if in.Coarse == "valid" {
		if res.St == "ok" {
			r.Count("calibration.valid_accepted", 1)
		} else {
			r.Count("calibration.valid_rejected."+tg.name, 1)
		}
		// calibration of the allocation budget: valid messages leave at least 4 MiB of it unused
		if res.Alloc+4<<20 <= bud {
			r.Count("calibration.valid_with_4MiB_headroom", 1)
		} else {
			r.Count("calibration.valid_without_headroom."+tg.name, 1)
			r.Note(fmt.Sprintf("calibration: a valid %s message of %d bytes allocated %d bytes (budget %d)", tg.name, len(in.Data), res.Alloc, bud))
		}
	}
	switch {
	case res.Alloc <= 64<<10:
		r.Count("alloc.le_64KiB", 1)
	case res.Alloc <= 1<<20:
		r.Count("alloc.le_1MiB", 1)
	case res.Alloc <= 4<<20:
		r.Count("alloc.le_4MiB", 1)
	default:
		r.Count("alloc.le_budget", 1)
	}
	if res.Us > 1_000_000 {
		r.Count("slow.over_1s."+tg.name, 1)
	}
	if tg.name == "tcpcl.sender" && res.Bound > 0 {
		r.Count("sender.runs_with_segment_count_checked", 1)
	}
}

func TestCheck(t *testing.T) {
	if os.Getenv("C04_CHILD") != "" {
		t.Skip("child process")
	}
	bubble.Quiet()
	bubble.RegisterBlocks()
	r := report.Start(t, "C04")
	defer r.Finish()

	nStruct := r.Pick(16, 96)    // corpus elements per target, each with all its boundary / truncation variants
	nMutants := r.Pick(5000, 200000)
	perBatch := r.Pick(313, 1000) // 16 batches per target in the quick tier (one per shard), 200 in the thorough tier
	rot := 0
	for _, tg := range allTargets() {
		tg := tg
		ns := nStruct
		switch tg.name {
		case "tcpcl.sender":
			ns = r.Pick(2, 8)
		case "bbc.connector", "mtcp.server":
			ns = r.Pick(8, 48)
		case "rest.build", "buildfrommap", "rest.register", "rest.fetch":
			ns = r.Pick(4, 16)
		}
		// groups are rotated over the shards (case index offset) so that small groups do not all land on shard 0
		group := func(name string, n int, f func(k int, rng *report.Rand)) {
			off := rot % 16
			rot += n
			r.Group(name, off+n, func(i int, rng *report.Rand) {
				if i < off {
					r.Evals(-1) // padding index, not a case
					return
				}
				f(i-off, rng)
			})
		}
		group(tg.name+".struct", ns, func(i int, rng *report.Rand) {
			g0 := time.Now()
			ins := structCase(tg.name, i, rng)
			r.Count("gen_ms."+tg.name, int(time.Since(g0)/time.Millisecond))
			if i == 0 && len(ins) > 1 {
				r.Sample(map[string]interface{}{"target": tg.name, "kind": ins[1].Coarse, "class": ins[1].Class, "what": ins[1].Desc, "input_hex": hx(ins[1].Data[:min(len(ins[1].Data), 96)])})
			}
			runBatch(r, tg, ins)
		})
		group(tg.name+".mutants", (nMutants+perBatch-1)/perBatch, func(i int, rng *report.Rand) {
			g0 := time.Now()
			ins := mutantCase(tg.name, i, rng, perBatch)
			r.Count("gen_ms."+tg.name, int(time.Since(g0)/time.Millisecond))
			runBatch(r, tg, ins)
		})
		r.Count("targets."+tg.name, 1)
	}
	if notRun > 0 {
		// the driver reports a failing shard without violations as inconclusive
		defer t.Errorf("%d inputs were not run (batches cut short after repeated restarts / non-termination)", notRun)
	}
}
