package c04

// Child side of the C04 decoder monitor.  A child process runs ONE target on a file of inputs.  For every input it
//   1. appends "S <i>" to the result file (the journal) BEFORE decoding,
//   2. reads the cumulative heap allocation counter (runtime/metrics /gc/heap/allocs:bytes),
//   3. runs the decoder in a goroutine of its own with recover(),
//   4. reads the counter again and appends "R <i> <json>" (returned value | error | panic value, allocated bytes, duration).
// Whatever kills the process (Go fatal error, out of memory, a panic on a goroutine of the code under test) leaves the
// journal with an "S" line without "R" line; the parent attributes the death to that input and restarts after it.

import (
	"bufio"
	"encoding/binary"
	"encoding/json"
	"fmt"
	"os"
	"runtime"
	"runtime/debug"
	"runtime/metrics"
	"sort"
	"strconv"
	"strings"
	"sync/atomic"
	"syscall"
	"testing"
	"time"

	"verifh/internal/bubble"
)

// result is what the child reports for one input.
type result struct {
	I       int    `json:"i"`
	St      string `json:"st"`            // ok (returned a value) | err (returned an error) | panic | blocked | spin | dead | fatal | timeout
	Msg     string `json:"msg,omitempty"` // error text / panic value / fatal line
	Site    string `json:"site,omitempty"`
	Alloc   uint64 `json:"alloc"`           // bytes allocated while the decoder ran
	Extra   uint64 `json:"extra,omitempty"` // target-specific constant added to the budget (documented per target)
	Us      int64  `json:"us"`              // real duration in microseconds
	N       int64  `json:"n,omitempty"`     // sender: segments emitted
	Bound   int64  `json:"bound,omitempty"` // sender: logical bound
	Info    string `json:"info,omitempty"`  // informational tag (never a verdict)
	Restart bool   `json:"restart,omitempty"`
}

// outcome is what a target's runner returns.
type outcome struct {
	accepted bool
	err      error
	st       string // overrides: "spin", "blocked", "dead"
	msg      string
	n, bound int64
	extra    uint64
	info     string
	restart  bool
}

var allocSample = []metrics.Sample{{Name: "/gc/heap/allocs:bytes"}}

func heapAllocs() uint64 {
	metrics.Read(allocSample)
	return allocSample[0].Value.Uint64()
}

// realMicros is a clock that testing/synctest does not fake.
func realMicros() int64 {
	var tv syscall.Timeval
	_ = syscall.Gettimeofday(&tv)
	return int64(tv.Sec)*1_000_000 + int64(tv.Usec)
}

const repoPrefix = "github.com/dtn7/dtn7-go/"

// repoSite returns the innermost function of the repository on a stack dump (after the panic frame, if there is one).
func repoSite(stack string) string {
	lines := strings.Split(stack, "\n")
	start := 0
	for i, ln := range lines {
		if strings.HasPrefix(ln, "panic(") {
			start = i
		}
	}
	for _, ln := range lines[start:] {
		if strings.HasPrefix(ln, repoPrefix) {
			return cleanFunc(ln)
		}
	}
	return ""
}

func cleanFunc(ln string) string {
	ln = strings.TrimPrefix(strings.TrimSpace(ln), repoPrefix)
	// cut the argument list: last '(' that is followed by arguments (method receivers look like "(*T).M(...)")
	if i := strings.LastIndex(ln, "("); i > 0 {
		ln = ln[:i]
	}
	ln = strings.TrimPrefix(ln, "pkg/")
	// closures: ".func1" etc. are kept, generics dropped
	return ln
}

// topAllocSite names the repository function on the stack of the largest sampled allocation (best effort; large
// allocations are always sampled by the runtime's memory profiler).
func topAllocSite() string {
	runtime.GC()
	runtime.GC()
	n, _ := runtime.MemProfile(nil, true)
	recs := make([]runtime.MemProfileRecord, n+64)
	n, ok := runtime.MemProfile(recs, true)
	if !ok {
		return ""
	}
	recs = recs[:n]
	sort.Slice(recs, func(i, j int) bool { return recs[i].AllocBytes > recs[j].AllocBytes })
	for _, rec := range recs {
		frames := runtime.CallersFrames(rec.Stack())
		for {
			f, more := frames.Next()
			if strings.HasPrefix(f.Function, repoPrefix) {
				return strings.TrimPrefix(strings.TrimPrefix(f.Function, repoPrefix), "pkg/")
			}
			if !more {
				break
			}
		}
		break // only the largest record counts
	}
	return ""
}

// budgetFactor: DESIGN.md planned 64 bytes per input byte; calibration on valid messages showed that decoding bytes
// that HAVE arrived legitimately costs up to ~600 bytes per byte in this code base (every dtn endpoint ID of ~10 bytes
// compiles a regular expression, ~6 KB of garbage: a valid 10 KB announcement packet allocates 6 MB, 216 small bundles
// on one MTCP connection 13 MB).  1024 is the next power of two; what the property forbids (allocation sized by a
// declared length: 2^31 and up) is orders of magnitude beyond either factor.
const (
	budgetFactor = 1024
	budgetConst  = 8 << 20
	restartAbove = 256 << 20
)

func budget(inputLen int, extra uint64) uint64 {
	return uint64(budgetFactor*inputLen) + budgetConst + extra
}

func readInputs(path string) ([][]byte, error) {
	b, err := os.ReadFile(path)
	if err != nil {
		return nil, err
	}
	if len(b) < 4 {
		return nil, fmt.Errorf("short input file")
	}
	n := int(binary.LittleEndian.Uint32(b))
	b = b[4:]
	out := make([][]byte, 0, n)
	for i := 0; i < n; i++ {
		if len(b) < 4 {
			return nil, fmt.Errorf("truncated input file")
		}
		l := int(binary.LittleEndian.Uint32(b))
		b = b[4:]
		if len(b) < l {
			return nil, fmt.Errorf("truncated input file")
		}
		out = append(out, b[:l:l])
		b = b[l:]
	}
	return out, nil
}

func writeInputs(path string, ins []inp) error {
	f, err := os.Create(path)
	if err != nil {
		return err
	}
	w := bufio.NewWriterSize(f, 1<<20)
	var u [4]byte
	binary.LittleEndian.PutUint32(u[:], uint32(len(ins)))
	w.Write(u[:])
	for _, in := range ins {
		binary.LittleEndian.PutUint32(u[:], uint32(len(in.Data)))
		w.Write(u[:])
		w.Write(in.Data)
	}
	if err := w.Flush(); err != nil {
		f.Close()
		return err
	}
	return f.Close()
}

type childState struct {
	out      *os.File
	seq      atomic.Int64 // bumped at every journal line (progress for the watchdog)
	cur      atomic.Int64 // index of the input being decoded
	phase    atomic.Int64 // 0 decoding, 1 probing (mtcp)
	finished atomic.Bool
}

func (c *childState) line(s string) {
	_, _ = c.out.WriteString(s + "\n")
	c.seq.Add(1)
}

// TestChild is the entry point of the child processes (re-exec of the test binary with C04_CHILD=1).
func TestChild(t *testing.T) {
	if os.Getenv("C04_CHILD") == "" {
		t.Skip("child-only helper")
	}
	bubble.Quiet()
	bubble.RegisterBlocks()
	// memory ceiling: an allocation sized by a hostile 2^40 dies at once instead of thrashing the machine
	lim := uint64(6 << 30)
	_ = syscall.Setrlimit(syscall.RLIMIT_AS, &syscall.Rlimit{Cur: lim, Max: lim})
	debug.SetGCPercent(200)

	tg := targetByName(os.Getenv("C04_TARGET"))
	if tg == nil {
		t.Fatalf("unknown target %q", os.Getenv("C04_TARGET"))
	}
	ins, err := readInputs(os.Getenv("C04_IN"))
	if err != nil {
		t.Fatal(err)
	}
	start, _ := strconv.Atoi(os.Getenv("C04_START"))
	end := len(ins)
	if v := os.Getenv("C04_END"); v != "" {
		end, _ = strconv.Atoi(v)
	}
	timeout := 30 * time.Second
	if v, err := strconv.Atoi(os.Getenv("C04_TIMEOUT")); err == nil && v > 0 {
		timeout = time.Duration(v) * time.Second
	}
	out, err := os.OpenFile(os.Getenv("C04_OUT"), os.O_CREATE|os.O_WRONLY|os.O_APPEND, 0o644)
	if err != nil {
		t.Fatal(err)
	}
	cs := &childState{out: out}

	// real-time watchdog outside every bubble: no journal line for `timeout` => the current input did not return
	go func() {
		last := cs.seq.Load()
		lastChange := time.Now()
		for !cs.finished.Load() {
			time.Sleep(50 * time.Millisecond)
			if s := cs.seq.Load(); s != last {
				last, lastChange = s, time.Now()
				continue
			}
			if time.Since(lastChange) > timeout {
				cs.line(fmt.Sprintf("T %d %d", cs.cur.Load(), cs.phase.Load()))
				os.Exit(3)
			}
		}
	}()

	emit := func(res result) {
		b, _ := json.Marshal(res)
		cs.line("R " + strconv.Itoa(res.I) + " " + string(b))
		if res.Restart {
			cs.line("X " + strconv.Itoa(res.I))
			os.Exit(0)
		}
	}

	one := func(i int, inBubble bool) result {
		in := ins[i]
		cs.cur.Store(int64(i))
		cs.phase.Store(0)
		cs.line("S " + strconv.Itoa(i))
		res := result{I: i}
		t0 := realMicros()
		a0 := heapAllocs()
		done := make(chan outcome, 1)
		var pmsg, psite string
		go func() {
			defer func() {
				if p := recover(); p != nil {
					pmsg = fmt.Sprint(p)
					psite = repoSite(string(debug.Stack()))
					done <- outcome{st: "panic"}
				}
			}()
			done <- tg.run(cs, in)
		}()
		var oc outcome
		if inBubble {
			// the fake clock only advances when every goroutine of the bubble is durably blocked: this timer can
			// fire only if the decoder is dead-locked (a logical verdict, not a wall-clock one)
			tm := time.NewTimer(1000 * time.Hour)
			select {
			case oc = <-done:
				tm.Stop()
			case <-tm.C:
				oc = outcome{st: "blocked", msg: "decoder goroutine is durably blocked"}
			}
		} else {
			oc = <-done
		}
		a1 := heapAllocs()
		res.Alloc = a1 - a0
		res.Us = realMicros() - t0
		res.Extra, res.N, res.Bound, res.Info = oc.extra, oc.n, oc.bound, oc.info
		switch {
		case oc.st == "panic":
			res.St, res.Msg, res.Site = "panic", pmsg, psite
		case oc.st != "":
			res.St, res.Msg = oc.st, oc.msg
		case oc.err != nil:
			res.St, res.Msg = "err", oc.err.Error()
		case oc.accepted:
			res.St = "ok"
		default:
			res.St, res.Msg = "err", oc.msg
		}
		if len(res.Msg) > 300 {
			res.Msg = res.Msg[:300]
		}
		if res.Alloc > budget(len(in), res.Extra) {
			res.Site = topAllocSite()
		}
		if res.Alloc > restartAbove || oc.restart {
			res.Restart = true
		}
		return res
	}

	switch tg.mode {
	case modePure:
		i := start
		for i < end {
			// one bubble (fake clock at the fixed date) per chunk of inputs
			chunkEnd := i + 256
			if chunkEnd > end {
				chunkEnd = end
			}
			var pending *result
			_ = bubble.Run(t, func(t *testing.T) {
				for ; i < chunkEnd; i++ {
					res := one(i, true)
					if res.Restart || res.St == "blocked" {
						res.Restart = true
						pending = &res
						i++
						return
					}
					emit(res)
				}
			})
			if pending != nil {
				emit(*pending)
			}
		}
	case modeStateful:
		for i := start; i < end; i++ {
			var res result
			got := false
			berr := bubble.Run(t, func(t *testing.T) {
				res = one(i, true)
				got = true
			})
			if !got {
				res = result{I: i, St: "err", Msg: "bubble: " + fmt.Sprint(berr), Info: "bubble-aborted"}
			} else if berr != nil {
				// goroutines of the code under test were still blocked when the scenario ended (leak, not a verdict)
				res.Info = strings.TrimSpace(res.Info + " leak")
			}
			emit(res)
		}
	case modeReal:
		for i := start; i < end; i++ {
			emit(one(i, false))
		}
	}
	cs.line("E")
	cs.finished.Store(true)
	out.Close()
}
