package c04

// Input generation: per target a valid corpus (built with the harness's own encoders, not with the code under
// test), every length/count position set to each boundary value, truncation, and seeded mutation.

import (
	"bytes"
	"encoding/binary"
	"encoding/json"
	"fmt"
	"hash/crc32"
	"sort"
	"strings"

	"github.com/dtn7/dtn7-go/pkg/cla/bbc"

	"verifh/internal/model"
	"verifh/internal/report"
)

// inp is one input of a target.
type inp struct {
	Class  string // field / position class (goes into violation signatures): valid | truncated | mutant | <field name>
	Coarse string // valid | boundary | truncated | mutant | sequence
	Desc   string
	Data   []byte
}

// bvals are the boundary values of the property's quantifier.
var bvals = []uint64{0, 1, 23, 24, 1 << 16, 1<<31 - 1, 1 << 31, 1<<32 - 1, 1 << 62, 1 << 63, 1<<64 - 1}

const maxInput = 64 << 10

// fixedNowMs is the DTN time (ms since 2000) of the children's fake clock (2026-03-01T12:00Z): the case list does
// not depend on the wall clock.
const fixedNowMs = uint64(825681600000)

// fixedField is a fixed-width big-endian length/count/size field (TCPCLv4 layouts).
type fixedField struct {
	Off, Width int
	What       string
}

// doc is a valid message together with the positions of its length/count fields.
type doc struct {
	B      []byte
	Heads  []model.Head // CBOR heads (absolute offsets)
	Fixed  []fixedField
	Prefix int // leading harness selector bytes (not part of the wire format)
	// Rebuild returns a consistently re-encoded message (outer lengths and CRCs adjusted) in which head hi carries v;
	// nil when the head is not nested.
	Rebuild func(hi int, v uint64) []byte
}

func minWidth(v uint64) int {
	switch {
	case v < 24:
		return 0
	case v < 1<<8:
		return 1
	case v < 1<<16:
		return 2
	case v < 1<<32:
		return 4
	}
	return 8
}

func spliceHead(b []byte, h model.Head, v uint64) []byte {
	nh := model.HeadWidth(h.Major, v, minWidth(v))
	out := make([]byte, 0, len(b)+len(nh))
	out = append(out, b[:h.Off]...)
	out = append(out, nh...)
	out = append(out, b[h.Off+h.Len:]...)
	return out
}

func pow2name(v uint64) string {
	switch v {
	case 1 << 16:
		return "2^16"
	case 1<<31 - 1:
		return "2^31-1"
	case 1 << 31:
		return "2^31"
	case 1<<32 - 1:
		return "2^32-1"
	case 1 << 62:
		return "2^62"
	case 1 << 63:
		return "2^63"
	case 1<<64 - 1:
		return "2^64-1"
	}
	return fmt.Sprint(v)
}

// variants: the valid message, every length/count position at every boundary value, truncations.
func (d doc) variants() (out []inp) {
	add := func(class, coarse, desc string, b []byte) {
		if len(b) > maxInput {
			b = b[:maxInput]
		}
		out = append(out, inp{Class: class, Coarse: coarse, Desc: desc, Data: b})
	}
	add("valid", "valid", "valid message", d.B)
	for hi, h := range d.Heads {
		for _, v := range bvals {
			if v == h.Val {
				continue
			}
			add(h.What, "boundary", fmt.Sprintf("head %q at offset %d: %d -> %s (in place)", h.What, h.Off, h.Val, pow2name(v)), spliceHead(d.B, h, v))
			if d.Rebuild != nil {
				if b := d.Rebuild(hi, v); b != nil {
					add(h.What, "boundary", fmt.Sprintf("head %q: %d -> %s (enclosing lengths and CRCs re-encoded)", h.What, h.Val, pow2name(v)), b)
				}
			}
		}
	}
	for _, f := range d.Fixed {
		seen := map[uint64]bool{}
		var cur uint64
		for k := 0; k < f.Width; k++ {
			cur = cur<<8 | uint64(d.B[f.Off+k])
		}
		seen[cur] = true
		for _, v := range bvals {
			if f.Width < 8 {
				v &= 1<<(8*uint(f.Width)) - 1
			}
			if seen[v] {
				continue
			}
			seen[v] = true
			b := append([]byte(nil), d.B...)
			for k := 0; k < f.Width; k++ {
				b[f.Off+k] = byte(v >> (8 * uint(f.Width-1-k)))
			}
			add(f.What, "boundary", fmt.Sprintf("field %q (u%d at offset %d): %d -> %s", f.What, 8*f.Width, f.Off, cur, pow2name(v)), b)
		}
	}
	// truncation: every offset for short messages; for long ones every offset of the first 1 KiB, both sides of
	// every length position, the last 32 offsets and a stride in between
	L := len(d.B)
	offs := map[int]bool{}
	if L <= 1536 {
		for o := d.Prefix; o < L; o++ {
			offs[o] = true
		}
	} else {
		for o := d.Prefix; o < 1024; o++ {
			offs[o] = true
		}
		for o := L - 32; o < L; o++ {
			offs[o] = true
		}
		for o := 1024; o < L; o += 509 {
			offs[o] = true
		}
		for _, h := range d.Heads {
			for _, o := range []int{h.Off, h.Off + 1, h.Off + h.Len, h.Off + h.Len + 1} {
				if o >= d.Prefix && o < L {
					offs[o] = true
				}
			}
		}
		for _, f := range d.Fixed {
			for _, o := range []int{f.Off, f.Off + 1, f.Off + f.Width, f.Off + f.Width + 1} {
				if o >= d.Prefix && o < L {
					offs[o] = true
				}
			}
		}
	}
	var ol []int
	for o := range offs {
		ol = append(ol, o)
	}
	sort.Ints(ol)
	for _, o := range ol {
		add("truncated", "truncated", fmt.Sprintf("truncated to %d of %d bytes", o, L), d.B[:o:o])
	}
	return
}

// ---- own encoders for the auxiliary CBOR formats (model.Enc records every length/count head) ----

func encEID(e *model.Enc, id model.EID) {
	e.Array(2, "eid")
	e.UInt(uint64(id.Scheme))
	switch {
	case id.Scheme == 1 && id.None:
		e.UInt(0)
	case id.Scheme == 1:
		e.Text("//"+id.Node+"/"+id.Demux, "eid.ssp")
	default:
		e.Array(2, "eid.ipn")
		e.UInt(id.INode)
		e.UInt(id.IServ)
	}
}

func encStatusReport(e *model.Enc, rng *report.Rand) {
	frag := rng.Chance(1, 3)
	n := uint64(4)
	if frag {
		n = 6
	}
	e.Array(n, "statusreport.array")
	e.Array(4, "statusreport.item-count")
	for i := 0; i < 4; i++ {
		asserted := rng.Bool()
		if asserted && rng.Bool() {
			e.Array(2, "statusreport.item")
			e.Raw([]byte{0xf5})
			e.UInt(model.GenUInt(rng))
		} else {
			e.Array(1, "statusreport.item")
			if asserted {
				e.Raw([]byte{0xf5})
			} else {
				e.Raw([]byte{0xf4})
			}
		}
	}
	e.UInt(uint64(rng.Intn(13)))
	encEID(e, model.GenEID(rng, false))
	e.Array(2, "statusreport.timestamp")
	e.UInt(fixedNowMs - uint64(rng.Intn(100000)))
	e.UInt(model.GenUInt(rng))
	if frag {
		e.UInt(uint64(rng.Intn(5000)))
		e.UInt(5000 + uint64(rng.Intn(5000)))
	}
}

func encAdminRecord(rng *report.Rand) *model.Enc {
	e := &model.Enc{}
	e.Array(2, "adminrecord.array")
	e.UInt(1)
	encStatusReport(e, rng)
	return e
}

func encDoc(e *model.Enc) doc { return doc{B: e.B, Heads: e.Heads} }

func prefixed(prefix []byte, d doc) doc {
	out := doc{Prefix: len(prefix) + d.Prefix}
	out.B = append(append([]byte(nil), prefix...), d.B...)
	for _, h := range d.Heads {
		h.Off += len(prefix)
		out.Heads = append(out.Heads, h)
	}
	for _, f := range d.Fixed {
		f.Off += len(prefix)
		out.Fixed = append(out.Fixed, f)
	}
	if d.Rebuild != nil {
		rb := d.Rebuild
		out.Rebuild = func(hi int, v uint64) []byte {
			b := rb(hi, v)
			if b == nil {
				return nil
			}
			return append(append([]byte(nil), prefix...), b...)
		}
	}
	return out
}

// ---- bundles ----

func genModelBundle(rng *report.Rand, k int) model.Bundle {
	o := model.GenOpts{NowMs: fixedNowMs, MaxPayload: 400}
	switch k % 4 {
	case 0:
		o.SmallOnly = true
		o.NoUnknown = true
	case 1:
		o.NoUnknown = true
		o.CRCMode = 1
	case 2:
		o.MaxPayload = 3000
	case 3:
		o.CRCMode = 1
		o.SmallOnly = true
	}
	for {
		m := model.GenBundle(rng, o)
		if enc, _ := m.Encode(nil); len(enc) <= 60000 { // inputs are limited to 64 KiB
			return m
		}
	}
}

// bundleDoc encodes a model bundle and provides consistent re-encoding for heads nested in block contents.
func bundleDoc(m model.Bundle, inner *model.Enc) doc {
	b, lay := m.Encode(nil)
	d := doc{B: b, Heads: lay.Heads}
	// map nested heads to (block index, offset relative to the block's content)
	type nest struct{ blk, rel int }
	nests := map[int]nest{}
	for hi, h := range lay.Heads {
		for bi := 1; bi < len(lay.DataHead); bi++ {
			dh := lay.DataHead[bi]
			cs := dh.Off + dh.Len
			ce := cs + int(dh.Val)
			if h.Off >= cs && h.Off < ce && !(h.Off == dh.Off) {
				nests[hi] = nest{bi - 1, h.Off - cs}
			}
		}
	}
	payloadIdx := len(m.Blocks) - 1
	if inner != nil {
		// heads of the administrative record inside the payload
		dh := lay.DataHead[payloadIdx+1]
		cs := dh.Off + dh.Len
		for _, h := range inner.Heads {
			h2 := h
			h2.Off += cs
			nests[len(d.Heads)] = nest{payloadIdx, h.Off}
			d.Heads = append(d.Heads, h2)
		}
	}
	d.Rebuild = func(hi int, v uint64) []byte {
		ns, ok := nests[hi]
		if !ok {
			return nil
		}
		h := d.Heads[hi]
		m2 := m.Clone()
		content := m.Blocks[ns.blk].Content()
		rel := model.Head{Off: ns.rel, Len: h.Len, Major: h.Major, Val: h.Val}
		if rel.Off+rel.Len > len(content) {
			return nil
		}
		nc := spliceHead(content, rel, v)
		if m2.Blocks[ns.blk].Type == model.TPayload || !model.Known(m2.Blocks[ns.blk].Type) {
			m2.Blocks[ns.blk].Data = nc
		} else {
			m2.Blocks[ns.blk].RawContent = nc
		}
		out, _ := m2.Encode(nil)
		return out
	}
	return d
}

func adminBundle(rng *report.Rand, k int) (model.Bundle, *model.Enc) {
	flags := uint64(model.FAdminRecord)
	if rng.Bool() {
		flags |= model.FNoFragment
	}
	o := model.GenOpts{NowMs: fixedNowMs, MaxPayload: 100, SmallOnly: k%2 == 0, NoUnknown: true, NoFragment: true,
		NoAnonymous: true, Flags: &flags}
	if k%3 == 0 {
		o.CRCMode = 1
	}
	m := model.GenBundle(rng, o)
	e := encAdminRecord(rng)
	m.Blocks[len(m.Blocks)-1].Data = e.B
	return m, e
}

// zeroTime makes the bundle's validity independent of the clock: creation time zero plus a bundle age block.
func zeroTime(m model.Bundle) model.Bundle {
	m = m.Clone()
	m.Time = 0
	if m.Lifetime < 1000 {
		m.Lifetime = 1000
	}
	if a := m.Find(model.TAge); a != nil {
		if a.U > m.Lifetime {
			a.U = m.Lifetime / 2
		}
		return m
	}
	used := map[uint64]bool{}
	for _, b := range m.Blocks {
		used[b.Num] = true
	}
	num := uint64(2)
	for used[num] {
		num++
	}
	m.Blocks = append([]model.Block{{Type: model.TAge, Num: num, U: 7}}, m.Blocks...)
	return m
}

// ---- TCPCLv4 wire layouts (written from the TCPCLv4 document) ----

func be(v uint64, w int) []byte {
	b := make([]byte, w)
	for k := 0; k < w; k++ {
		b[k] = byte(v >> (8 * uint(w-1-k)))
	}
	return b
}

func msgSessInit(keepalive uint16, segMru, xferMru uint64, nodeID string) doc {
	var b []byte
	b = append(b, 0x07)
	b = append(b, be(uint64(keepalive), 2)...)
	b = append(b, be(segMru, 8)...)
	b = append(b, be(xferMru, 8)...)
	b = append(b, be(uint64(len(nodeID)), 2)...)
	b = append(b, nodeID...)
	extOff := len(b)
	b = append(b, 0, 0, 0, 0)
	return doc{B: b, Fixed: []fixedField{{3, 8, "sess_init.segment-mru"}, {11, 8, "sess_init.transfer-mru"},
		{19, 2, "sess_init.nodeid-length"}, {extOff, 4, "sess_init.extension-length"}}}
}

func msgXferSegment(flags byte, tid uint64, data []byte) doc {
	var b []byte
	b = append(b, 0x01, flags)
	b = append(b, be(tid, 8)...)
	b = append(b, 0, 0, 0, 0)
	b = append(b, be(uint64(len(data)), 8)...)
	b = append(b, data...)
	return doc{B: b, Fixed: []fixedField{{10, 4, "xfer_segment.extension-length"}, {14, 8, "xfer_segment.data-length"}}}
}

func msgXferAck(flags byte, tid, l uint64) doc {
	b := append([]byte{0x02, flags}, be(tid, 8)...)
	b = append(b, be(l, 8)...)
	return doc{B: b, Fixed: []fixedField{{10, 8, "xfer_ack.acknowledged-length"}}}
}

func msgXferRefuse(reason byte, tid uint64) doc {
	return doc{B: append([]byte{0x03, reason}, be(tid, 8)...)}
}

func msgSimple(k int, rng *report.Rand) doc {
	switch k {
	case 0:
		return doc{B: []byte{0x05, byte(rng.Intn(2)), byte(rng.Intn(6))}} // SESS_TERM
	case 1:
		return doc{B: []byte{0x04}} // KEEPALIVE
	case 2:
		return doc{B: []byte{0x06, byte(1 + rng.Intn(3)), byte(rng.Intn(8))}} // MSG_REJECT
	}
	return doc{B: []byte{'d', 't', 'n', '!', 4, byte(rng.Intn(2))}} // contact header
}

func genNodeID(rng *report.Rand) string { return model.GenNodeEID(rng).String() }

// tcpclDoc: message kind k (0..7) in the order of tcpclCodes.
func tcpclDoc(k int, rng *report.Rand) doc {
	switch k % 8 {
	case 0:
		return msgSessInit(uint16(rng.Intn(3600)), 1<<uint(10+rng.Intn(12)), 1<<uint(20+rng.Intn(12)), genNodeID(rng))
	case 1:
		return msgSimple(0, rng)
	case 2:
		n := []int{0, 1, 100, 1000, 5000}[rng.Intn(5)]
		return msgXferSegment(byte(rng.Intn(4)), model.GenUInt(rng), rng.Bytes(n))
	case 3:
		return msgXferAck(byte(rng.Intn(4)), model.GenUInt(rng), model.GenUInt(rng))
	case 4:
		return msgXferRefuse(byte(rng.Intn(7)), model.GenUInt(rng))
	case 5:
		return msgSimple(1, rng)
	case 6:
		return msgSimple(2, rng)
	}
	return msgSimple(3, rng)
}

// segmentTrain cuts a bundle encoding into XFER_SEGMENT messages.
func segmentTrain(tid uint64, enc []byte, seg int) (msgs [][]byte) {
	if seg < 1 {
		seg = 1
	}
	for off := 0; ; off += seg {
		end := off + seg
		var flags byte
		if off == 0 {
			flags |= 0x02
		}
		if end >= len(enc) {
			end = len(enc)
			flags |= 0x01
		}
		msgs = append(msgs, msgXferSegment(flags, tid, enc[off:end]).B)
		if flags&0x01 != 0 {
			return
		}
	}
}

func cat(parts ...[]byte) []byte { return bytes.Join(parts, nil) }

// transferInCase: corpus element k of the transfer-in target with its hostile sequence variants.
func transferInCase(k int, rng *report.Rand) (out []inp) {
	m := genModelBundle(rng, k)
	enc, _ := m.Encode(nil)
	if len(enc) > 1500 {
		m = genModelBundle(rng, 0)
		enc, _ = m.Encode(nil)
	}
	seg := 1 + rng.Intn(len(enc))
	if rng.Bool() {
		seg = 16 + rng.Intn(64)
	}
	tid := uint64(rng.Intn(5))
	train := segmentTrain(tid, enc, seg)
	add := func(class, coarse, desc string, mode byte, msgs ...[]byte) {
		b := append([]byte{mode}, cat(msgs...)...)
		if len(b) > maxInput {
			b = b[:maxInput]
		}
		out = append(out, inp{Class: class, Coarse: coarse, Desc: desc, Data: b})
	}
	last := train[len(train)-1]
	first := train[0]
	add("valid", "valid", "segment train of a valid bundle", 0, train...)
	add("own-transfer-unacknowledged", "sequence", "segment train of a valid bundle while an own transfer is outgoing and never acknowledged", 1, train...)
	for mode := byte(0); mode < 2; mode++ {
		add("unknown-ack", "sequence", "XFER_ACK for a transfer that was never started", mode, msgXferAck(1, 77, 10).B, cat(train...))
		add("ack-before-segment", "sequence", "XFER_ACK for transfer 0 before any segment", mode, msgXferAck(2, 0, 1<<40).B, cat(train...))
		add("refuse", "sequence", "XFER_REFUSE for an unknown / the outgoing transfer", mode, msgXferRefuse(byte(rng.Intn(7)), uint64(rng.Intn(2))).B, cat(train...))
		add("segment-after-end", "sequence", "segment after the END segment of the same transfer", mode, cat(train...), last, first)
		add("no-start-flag", "sequence", "train without the first segment", mode, cat(train[1:]...), last)
		add("duplicate-segment", "sequence", "first segment twice", mode, first, cat(train...))
		other := segmentTrain(tid+1, enc, seg)
		var inter [][]byte
		for i := 0; i < len(train) || i < len(other); i++ {
			if i < len(train) {
				inter = append(inter, train[i])
			}
			if i < len(other) {
				inter = append(inter, other[i])
			}
		}
		add("interleaved-transfers", "sequence", "two transfers interleaved", mode, inter...)
		add("session-message-midstream", "sequence", "SESS_INIT / KEEPALIVE / SESS_TERM in the middle of a transfer", mode,
			first, tcpclDoc(rng.Intn(2)*5, rng).B, cat(train[1:]...))
		add("end-only", "sequence", "many END-only empty segments with fresh transfer ids", mode, func() []byte {
			var b []byte
			for i := 0; i < 50; i++ {
				b = append(b, msgXferSegment(0x03, uint64(1000+i), nil).B...)
			}
			return b
		}())
		add("ack-flood", "sequence", "hundred acknowledgements for transfer 0", mode, func() []byte {
			var b []byte
			for i := 0; i < 100; i++ {
				b = append(b, msgXferAck(0, 0, uint64(i)).B...)
			}
			return b
		}())
	}
	// boundary values in the fixed fields of the first and the last segment, truncation of the stream
	for which, msg := range [][]byte{first, last} {
		d := msgXferSegment(0, 0, nil)
		for _, f := range d.Fixed {
			for _, v := range bvals {
				if f.Width < 8 {
					v &= 1<<(8*uint(f.Width)) - 1
				}
				b := append([]byte(nil), msg...)
				copy(b[f.Off:], be(v, f.Width))
				var seq [][]byte
				if which == 0 {
					seq = append([][]byte{b}, train[1:]...)
				} else {
					seq = append(append([][]byte{}, train[:len(train)-1]...), b)
				}
				add(f.What, "boundary", fmt.Sprintf("%s := %s in segment %d of the train", f.What, pow2name(v), which), 0, seq...)
			}
		}
	}
	all := cat(train...)
	step := 1
	if len(all) > 600 {
		step = len(all)/600 + 1
	}
	for o := 0; o < len(all); o += step {
		add("truncated", "truncated", fmt.Sprintf("stream truncated to %d of %d bytes", o, len(all)), 0, all[:o])
	}
	return
}

// senderCase: SESS_INIT with every MRU boundary value x 3 bundle sizes x both sender entry points.
func senderCase(k int, rng *report.Rand) (out []inp) {
	base := msgSessInit(uint16(rng.Intn(100)), 1<<uint(6+rng.Intn(12)), 1<<30, genNodeID(rng))
	add := func(class, coarse, desc string, mode, size byte, b []byte) {
		out = append(out, inp{Class: class, Coarse: coarse, Desc: desc, Data: append([]byte{mode, size}, b...)})
	}
	for mode := byte(0); mode < 4; mode++ { // bit 0: Send / NextSegment; bit 1: passive / active side
		for size := byte(0); size < 3; size++ {
			add("valid", "valid", "valid SESS_INIT", mode, size, base.B)
			for fi, f := range base.Fixed {
				if fi >= 2 && (mode != 0 || size != 0) {
					continue // node-id and extension lengths do not interact with the sender
				}
				seen := map[uint64]bool{}
				for _, v := range bvals {
					if f.Width < 8 {
						v &= 1<<(8*uint(f.Width)) - 1
					}
					if seen[v] {
						continue
					}
					seen[v] = true
					b := append([]byte(nil), base.B...)
					copy(b[f.Off:], be(v, f.Width))
					add(f.What, "boundary", fmt.Sprintf("%s := %s, mode %d, bundle size class %d", f.What, pow2name(v), mode, size), mode, size, b)
				}
			}
			// both MRUs at the same boundary value
			for _, v := range bvals {
				b := append([]byte(nil), base.B...)
				copy(b[3:], be(v, 8))
				copy(b[11:], be(v, 8))
				add("sess_init.both-mru", "boundary", fmt.Sprintf("segment and transfer MRU := %s, mode %d, size class %d", pow2name(v), mode, size), mode, size, b)
			}
		}
	}
	if k == 0 {
		for o := 0; o < len(base.B); o++ {
			add("truncated", "truncated", fmt.Sprintf("SESS_INIT truncated to %d bytes", o), 0, 0, base.B[:o])
		}
	}
	return
}

// ---- BBC ----

// bbcStream returns the xz stream the real sender produces for the bundle.
func bbcStream(m model.Bundle) ([]byte, error) {
	t, err := bbc.NewOutgoingTransmission(1, m.ToBpv7(), 250)
	if err != nil {
		return nil, err
	}
	var s []byte
	for i := 0; i < 100000; i++ {
		f, fin, err := t.WriteFragment()
		if err != nil {
			return nil, err
		}
		s = append(s, f.Payload...)
		if fin {
			return s, nil
		}
	}
	return nil, fmt.Errorf("transmission does not finish")
}

type bfrag struct {
	tid, seq         byte
	start, end, fail bool
	payload          []byte
}

func (f bfrag) bytes() []byte {
	id := (f.seq & 0x1f) << 3
	if f.start {
		id |= 4
	}
	if f.end {
		id |= 2
	}
	if f.fail {
		id |= 1
	}
	return append([]byte{f.tid, id}, f.payload...)
}

func fragmentStream(tid byte, s []byte, mtu int) (fr []bfrag) {
	seq := byte(0)
	per := mtu - 2
	for off := 0; ; off += per {
		end := off + per
		last := false
		if end >= len(s) {
			end, last = len(s), true
		}
		seq = (seq + 1) % 16
		fr = append(fr, bfrag{tid: tid, seq: seq, start: off == 0, end: last, payload: s[off:end]})
		if last {
			return
		}
	}
}

func trainBytes(fr []bfrag) []byte {
	var b []byte
	for _, f := range fr {
		fb := f.bytes()
		if len(fb) > 255 {
			fb = fb[:255]
		}
		b = append(b, byte(len(fb)))
		b = append(b, fb...)
	}
	return b
}

// xzSetDict rewrites the dictionary-size property of the first block header of an xz stream (and the header's CRC).
func xzSetDict(s []byte, code byte) []byte {
	if len(s) < 24 {
		return nil
	}
	hl := (int(s[12]) + 1) * 4
	if 12+hl > len(s) {
		return nil
	}
	hdr := s[12 : 12+hl]
	i := bytes.Index(hdr[2:hl-4], []byte{0x21, 0x01})
	if i < 0 || 2+i+2 >= hl-4 {
		return nil
	}
	out := append([]byte(nil), s...)
	out[12+2+i+2] = code
	binary.LittleEndian.PutUint32(out[12+hl-4:], crc32.ChecksumIEEE(out[12:12+hl-4]))
	return out
}

func bbcCase(k int, rng *report.Rand) (out []inp) {
	m := genModelBundle(rng, k)
	s, err := bbcStream(m)
	if err != nil {
		m = genModelBundle(rng, 0)
		if s, err = bbcStream(m); err != nil {
			return nil
		}
	}
	mtu := 20 + rng.Intn(230)
	tid := byte(rng.Intn(256))
	fr := fragmentStream(tid, s, mtu)
	add := func(class, coarse, desc string, f []bfrag) {
		b := trainBytes(f)
		if len(b) > maxInput {
			b = b[:maxInput]
		}
		out = append(out, inp{Class: class, Coarse: coarse, Desc: desc, Data: b})
	}
	cp := func() []bfrag { return append([]bfrag(nil), fr...) }
	add("valid", "valid", "fragment train of a valid bundle", fr)
	two := append(cp(), fragmentStream(tid+1, s, mtu)...)
	add("valid", "valid", "two transmissions back to back", two)
	// declared dictionary size of the xz stream (a size field whose bytes never arrive)
	// (codes 31..40 = 192 MiB .. 4 GiB are left out: the smaller ones show the same thing without stressing the machine)
	for _, code := range []int{0, 1, 2, 5, 10, 15, 18, 20, 21, 22, 23, 24, 25, 26, 27, 28, 29, 30, 41} {
		if x := xzSetDict(s, byte(code)); x != nil {
			add("xz-dictionary-size", "boundary", fmt.Sprintf("xz block header declares dictionary size code %d", code), fragmentStream(tid, x, mtu))
		}
	}
	if x := xzSetDict(s, 0xff); x != nil {
		add("xz-dictionary-size", "boundary", "xz block header declares dictionary size code 255", fragmentStream(tid, x, mtu))
	}
	if len(fr) > 1 {
		i := rng.Intn(len(fr))
		f := cp()
		f = append(f[:i], f[i+1:]...)
		add("dropped-fragment", "sequence", fmt.Sprintf("fragment %d dropped", i), f)
		f = cp()
		f = append(f[:i+1], f[i:]...)
		add("duplicated-fragment", "sequence", fmt.Sprintf("fragment %d duplicated", i), f)
		f = cp()
		j := rng.Intn(len(fr))
		f[i], f[j] = f[j], f[i]
		add("swapped-fragments", "sequence", fmt.Sprintf("fragments %d and %d swapped", i, j), f)
		f = cp()
		f[len(f)/2].start = true
		add("start-bit-midstream", "sequence", "start bit in the middle of a transmission", f)
		f = cp()
		f[len(f)/2].tid++
		add("transmission-id-change", "sequence", "transmission id changes in the middle", f)
		f = cp()
		f[len(f)/2].end = true
		add("early-end-bit", "sequence", "end bit before the stream is complete", f)
		f = cp()
		f[len(f)-1].end = false
		add("no-end-bit", "sequence", "train without end bit", f)
	}
	f := cp()
	f[0].start = false
	add("no-start-bit", "sequence", "train without start bit", f)
	f = cp()
	f[len(f)/2].fail = true
	add("fail-bit", "sequence", "failure fragment in the middle of a transmission", f)
	var fails []bfrag
	for i := 0; i < 70; i++ {
		fails = append(fails, bfrag{tid: byte(i), seq: 1, fail: true})
	}
	add("failure-fragment-flood", "sequence", "70 failure fragments, then a valid train", append(fails, fr...))
	var ends []bfrag
	for i := 0; i < 200; i++ {
		ends = append(ends, bfrag{tid: byte(i), seq: 1, start: true, end: true, payload: rng.Bytes(rng.Intn(30))})
	}
	add("single-fragment-garbage", "sequence", "200 complete single-fragment transmissions with random payload", ends)
	all := trainBytes(fr)
	step := len(all)/300 + 1
	for o := 0; o < len(all); o += step {
		out = append(out, inp{Class: "truncated", Coarse: "truncated", Desc: fmt.Sprintf("train truncated to %d of %d bytes", o, len(all)), Data: all[:o:o]})
	}
	return
}

// ---- JSON (REST agent, BuildFromMap) ----

var buildKeys = []string{"destination", "source", "report_to", "creation_timestamp_epoch", "creation_timestamp_now",
	"creation_timestamp_time", "lifetime", "bundle_ctrl_flags", "canonical", "bundle_age_block", "hop_count_block",
	"payload_block", "previous_node_block"}

// wrongValues are JSON values of every kind for every documented key.
var wrongValues = []struct{ name, json string }{
	{"null", "null"}, {"true", "true"}, {"false", "false"}, {"zero", "0"}, {"negative", "-1"}, {"float", "1.5"},
	{"huge", "1e400"}, {"big", "18446744073709551616"}, {"small", "1e-320"}, {"int", "64"}, {"empty-string", `""`},
	{"string", `"x"`}, {"eid-string", `"dtn://c04-rest/app"`}, {"duration-string", `"10m"`}, {"bad-duration", `"-5m"`},
	{"empty-array", "[]"}, {"array", "[1,2,3]"}, {"array-of-null", "[null]"}, {"nested-array", "[[[[]]]]"},
	{"empty-object", "{}"}, {"object", `{"a":1}`}, {"nested-object", `{"a":{"b":{"c":[null,{"d":1}]}}}`},
	{"long-string", ""}, // filled in below
}

func init() {
	wrongValues[len(wrongValues)-1].json = `"` + strings.Repeat("A", 3000) + `"`
}

func validArgs(rng *report.Rand) map[string]string {
	a := map[string]string{
		"destination":            `"dtn://c04-dst/in"`,
		"source":                 `"dtn://c04-rest/app"`,
		"creation_timestamp_now": "1",
		"lifetime":               `"24h"`,
		"payload_block":          `"hello world"`,
	}
	if rng.Bool() {
		a["report_to"] = `"dtn://c04-rest/app"`
	}
	if rng.Bool() {
		a["bundle_age_block"] = "0"
	}
	// (a hop_count_block can never be given through JSON: the builder insists on a Go int)
	if rng.Bool() {
		a["previous_node_block"] = `"dtn://c04-prev/"`
	}
	if rng.Chance(1, 4) {
		a["lifetime"] = "3600000"
	}
	return a
}

func argsJSON(a map[string]string) string {
	keys := make([]string, 0, len(a))
	for k := range a {
		keys = append(keys, k)
	}
	sort.Strings(keys)
	var sb strings.Builder
	sb.WriteString("{")
	for i, k := range keys {
		if i > 0 {
			sb.WriteString(",")
		}
		kb, _ := json.Marshal(k)
		sb.Write(kb)
		sb.WriteString(":")
		sb.WriteString(a[k])
	}
	sb.WriteString("}")
	return sb.String()
}

func wrapBuild(args string) string {
	return `{"uuid":"` + uuidPlaceholder + `","arguments":` + args + `}`
}

// jsonCase: structured inputs of the JSON targets. wrap turns an arguments object into a request body.
func buildCase(k int, rng *report.Rand, wrap func(string) string) (out []inp) {
	add := func(class, coarse, desc, body string) {
		out = append(out, inp{Class: class, Coarse: coarse, Desc: desc, Data: []byte(body)})
	}
	va := validArgs(rng)
	add("valid", "valid", "valid build arguments", wrap(argsJSON(va)))
	for _, key := range buildKeys {
		for _, wv := range wrongValues {
			a := map[string]string{}
			for k2, v := range va {
				a[k2] = v
			}
			a[key] = wv.json
			add(key+"-"+wv.name, "boundary", fmt.Sprintf("argument %q := %s", key, wv.name), wrap(argsJSON(a)))
			// the key alone
			add(key+"-"+wv.name, "boundary", fmt.Sprintf("only argument %q := %s", key, wv.name), wrap(argsJSON(map[string]string{key: wv.json})))
		}
	}
	for _, wv := range wrongValues {
		add("arguments-"+wv.name, "boundary", "arguments := "+wv.name, wrap(wv.json))
		add("unknown-key-"+wv.name, "boundary", "unknown method := "+wv.name, wrap(argsJSON(map[string]string{"no_such_method": wv.json})))
	}
	v := wrap(argsJSON(va))
	for o := 0; o < len(v); o++ {
		add("truncated", "truncated", fmt.Sprintf("truncated to %d bytes", o), v[:o])
	}
	return
}

func restSimpleCase(key string, validValue string, rng *report.Rand) (out []inp) {
	add := func(class, coarse, desc, body string) {
		out = append(out, inp{Class: class, Coarse: coarse, Desc: desc, Data: []byte(body)})
	}
	v := `{"` + key + `":` + validValue + `}`
	add("valid", "valid", "valid request", v)
	for _, wv := range wrongValues {
		add(key+"-"+wv.name, "boundary", fmt.Sprintf("%q := %s", key, wv.name), `{"`+key+`":`+wv.json+`}`)
		add("body-"+wv.name, "boundary", "body := "+wv.name, wv.json)
	}
	for _, e := range []string{"dtn:none", "ipn:1.1", "dtn://a/", "dtn:", "ipn:0.0", "ipn:18446744073709551616.1", "x:", ":", "dtn://" + strings.Repeat("n", 5000) + "/"} {
		eb, _ := json.Marshal(e)
		add(key+"-string", "boundary", "string value "+e[:min(len(e), 30)], `{"`+key+`":`+string(eb)+`}`)
	}
	for o := 0; o < len(v); o++ {
		add("truncated", "truncated", fmt.Sprintf("truncated to %d bytes", o), v[:o])
	}
	return
}

// ---- endpoint-ID strings ----

func eidStringCase(k int, rng *report.Rand) (out []inp) {
	add := func(class, coarse, desc, s string) {
		if len(s) > maxInput {
			s = s[:maxInput]
		}
		out = append(out, inp{Class: class, Coarse: coarse, Desc: desc, Data: []byte(s)})
	}
	v := model.GenEID(rng, true).String()
	add("valid", "valid", "valid endpoint id", v)
	for o := 0; o < len(v); o++ {
		add("truncated", "truncated", fmt.Sprintf("truncated to %d bytes", o), v[:o])
	}
	if k == 0 {
		for _, n := range []int{0, 1, 23, 24, 255, 256, 1 << 12, 1<<16 - 16} {
			add("name-length", "boundary", fmt.Sprintf("node name of %d bytes", n), "dtn://"+strings.Repeat("n", n)+"/")
			add("demux-length", "boundary", fmt.Sprintf("demux of %d bytes", n), "dtn://n/"+strings.Repeat("d", n))
			add("scheme-length", "boundary", fmt.Sprintf("scheme of %d bytes", n), strings.Repeat("s", n)+":x")
			add("ipn-digits", "boundary", fmt.Sprintf("ipn node number of %d digits", n), "ipn:"+strings.Repeat("9", n)+".1")
		}
		for _, s := range []string{"", ":", "dtn:", "ipn:", "dtn:none", "dtn://", "dtn:///", "ipn:1", "ipn:.", "ipn:1.", "ipn:0.1",
			"ipn:18446744073709551615.18446744073709551615", "ipn:18446744073709551616.1", "dtn://\x00/", "dtn://a/\n", "dtn://a/\xff\xfe",
			"DTN://a/", "dtn://a//b", "dtn://~g/x", "dtn:none/", "xyz:abc", "dtn://a/" + strings.Repeat("/", 1000)} {
			add("special", "boundary", "special string", s)
		}
	}
	return
}

// ---- structured case of a target ----

// structCase returns the structured inputs (valid, boundary, truncation, hostile sequences) of corpus element k.
func structCase(tg string, k int, rng *report.Rand) []inp {
	switch tg {
	case "parsebundle":
		return bundleDoc(genModelBundle(rng, k), nil).variants()
	case "bundle.adminrecord":
		m, e := adminBundle(rng, k)
		return bundleDoc(m, e).variants()
	case "adminrecord":
		return encDoc(encAdminRecord(rng)).variants()
	case "statusreport.cbor":
		e := &model.Enc{}
		encStatusReport(e, rng)
		return encDoc(e).variants()
	case "eid.cbor":
		e := &model.Enc{}
		encEID(e, model.GenEID(rng, true))
		return encDoc(e).variants()
	case "bundleid.cbor":
		e := &model.Enc{}
		encEID(e, model.GenEID(rng, true))
		e.Array(2, "bundleid.timestamp")
		e.UInt(fixedNowMs)
		e.UInt(model.GenUInt(rng))
		frag := byte(k % 2)
		if frag == 1 {
			e.UInt(model.GenUInt(rng))
			e.UInt(model.GenUInt(rng))
		}
		return prefixed([]byte{frag}, encDoc(e)).variants()
	case "eid.string":
		return eidStringCase(k, rng)
	case "tcpcl.readmessage":
		return tcpclDoc(k, rng).variants()
	case "tcpcl.unmarshal":
		return prefixed([]byte{byte(k % 8)}, tcpclDoc(k, rng)).variants()
	case "tcpcl.transfer-in":
		return transferInCase(k, rng)
	case "tcpcl.sender":
		return senderCase(k, rng)
	case "mtcp.server":
		m := zeroTime(genModelBundle(rng, k))
		bd := bundleDoc(m, nil)
		e := &model.Enc{}
		e.Bytes(nil, "mtcp.frame-length")
		head := model.HeadWidth(2, uint64(len(bd.B)), minWidth(uint64(len(bd.B))))
		d := prefixed(head, bd)
		d.Prefix = 0
		d.Heads = append([]model.Head{{Off: 0, Len: len(head), Major: 2, Val: uint64(len(bd.B)), What: "mtcp.frame-length"}}, d.Heads...)
		rb := d.Rebuild
		d.Rebuild = func(hi int, v uint64) []byte {
			if hi == 0 {
				return nil
			}
			return rb(hi-1, v)
		}
		out := d.variants()
		if k%2 == 0 { // two frames on one connection
			m2 := zeroTime(genModelBundle(rng, k+1))
			b2, _ := m2.Encode(nil)
			two := cat(d.B, model.HeadWidth(2, uint64(len(b2)), minWidth(uint64(len(b2)))), b2)
			if len(two) <= maxInput {
				out = append(out, inp{Class: "valid", Coarse: "valid", Desc: "two frames on one connection", Data: two})
			}
		}
		return out
	case "bbc.fragment":
		f := bfrag{tid: byte(rng.Intn(256)), seq: byte(rng.Intn(32)), start: rng.Bool(), end: rng.Bool(), fail: rng.Chance(1, 5), payload: rng.Bytes(rng.Intn(250))}
		return doc{B: f.bytes()}.variants()
	case "bbc.connector":
		return bbcCase(k, rng)
	case "discovery":
		e := &model.Enc{}
		n := rng.Intn(5)
		e.Array(uint64(n), "discovery.announcement-count")
		for i := 0; i < n; i++ {
			e.Array(3, "discovery.announcement")
			e.UInt([]uint64{0, 1, 10, 20}[rng.Intn(4)])
			encEID(e, model.GenEID(rng, false))
			e.UInt(uint64(rng.Intn(65536)))
		}
		return encDoc(e).variants()
	case "wam":
		e := &model.Enc{}
		e.Array(2, "wam.array")
		code := uint64(k % 5)
		e.UInt(code)
		switch code {
		case 0:
			e.Text([]string{"", "some error", strings.Repeat("e", 300)}[rng.Intn(3)], "wam.status-text")
		case 1:
			e.Text(model.GenEID(rng, false).String(), "wam.register-text")
		case 2:
			bd := bundleDoc(genModelBundle(rng, k/5), nil)
			return prefixed(e.B, bd).withHeads(e.Heads).variants()
		case 3:
			e.Text("node id", "wam.syscall-request-text")
		case 4:
			e.Array(2, "wam.syscall-response-array")
			e.Text("node id", "wam.syscall-response-text")
			e.Bytes(rng.Bytes(rng.Intn(300)), "wam.syscall-response-bytes")
		}
		return encDoc(e).variants()
	case "rest.register":
		return restSimpleCase("endpoint_id", `"`+model.GenEID(rng, false).String()+`"`, rng)
	case "rest.fetch":
		return restSimpleCase("uuid", `"`+uuidPlaceholder+`"`, rng)
	case "rest.build":
		out := buildCase(k, rng, wrapBuild)
		for _, wv := range wrongValues {
			out = append(out, inp{Class: "uuid-" + wv.name, Coarse: "boundary", Desc: "uuid := " + wv.name,
				Data: []byte(`{"uuid":` + wv.json + `,"arguments":` + argsJSON(validArgs(rng)) + `}`)})
		}
		return out
	case "buildfrommap":
		return buildCase(k, rng, func(a string) string { return a })
	}
	panic("no structured corpus for target " + tg)
}

// withHeads prepends heads that lie in the prefix of a prefixed document (the prefix is wire data, not a selector).
func (d doc) withHeads(hs []model.Head) doc {
	n := len(hs)
	d.Heads = append(append([]model.Head(nil), hs...), d.Heads...)
	d.Prefix = 0
	if rb := d.Rebuild; rb != nil {
		d.Rebuild = func(hi int, v uint64) []byte {
			if hi < n {
				return nil
			}
			return rb(hi-n, v)
		}
	}
	return d
}

// validDocs returns a few valid messages of the target (seeds for the mutator).
func validSeeds(tg string, k int, rng *report.Rand) (seeds [][]byte, prefix int) {
	switch tg {
	case "bundleid.cbor", "tcpcl.unmarshal", "tcpcl.transfer-in":
		prefix = 1
	case "tcpcl.sender":
		prefix = 2
	}
	n := 6
	if tg == "bbc.connector" {
		n = 3
	}
	for i := 0; i < n; i++ {
		for _, in := range structCase(tg, k*n+i, rng.Fork()) {
			if in.Coarse == "valid" {
				seeds = append(seeds, in.Data)
			}
		}
	}
	// hostile sequences are good seeds, too
	if tg == "tcpcl.transfer-in" || tg == "bbc.connector" {
		for _, in := range structCase(tg, k, rng.Fork()) {
			if in.Coarse == "sequence" && len(seeds) < 40 {
				seeds = append(seeds, in.Data)
			}
		}
	}
	return
}
