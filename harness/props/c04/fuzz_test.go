package c04

// Coverage-guided stage of the decoder monitor: Go's native fuzzing engine (compiled test binary, iteration-bounded,
// see the driver's fuzz stage) drives the pure byte-level decoders; the oracle is the same as in judge(): no panic, no
// hang, allocation within 1024*len + 8 MiB. Seeds are the valid corpus of the target. Process-fatal events (Go fatal
// error, out of memory under the driver's address-space limit) end the worker; the engine then records the input and
// the driver turns it into a violation.

import (
	"fmt"
	"runtime/debug"
	"testing"
	"time"

	"verifh/internal/bubble"
	"verifh/internal/report"
)

func fuzzPure(f *testing.F, name string) {
	bubble.Quiet()
	bubble.RegisterBlocks()
	r := report.FuzzRun(f, "C04", name)
	tg := targetByName(name)
	if tg == nil || tg.mode != modePure {
		f.Fatalf("no pure target %q", name)
	}
	for k := 0; k < 4; k++ {
		seeds, _ := validSeeds(name, k, report.NewRand(r.Seed, "fuzzseed."+name, uint64(k)))
		for _, s := range seeds {
			if len(s) <= 4096 {
				f.Add(s)
			}
		}
	}
	f.Fuzz(func(t *testing.T, in []byte) {
		r.FuzzJudge(t, func() {
			type res struct {
				oc    outcome
				pmsg  string
				psite string
			}
			done := make(chan res, 1)
			a0 := heapAllocs()
			go func() {
				defer func() {
					if p := recover(); p != nil {
						done <- res{pmsg: fmt.Sprint(p), psite: repoSite(string(debug.Stack())), oc: outcome{st: "panic"}}
					}
				}()
				done <- res{oc: tg.run(nil, in)}
			}()
			var got res
			select {
			case got = <-done:
			case <-time.After(120 * time.Second):
				r.Violation("c04.hang:"+name+":fuzz", name+": decoder did not return within 120 s of real time", map[string]interface{}{"input_hex": hx(in)})
				return
			}
			alloc := heapAllocs() - a0
			r.Count("t."+name+".fuzz_inputs", 1)
			switch {
			case got.oc.st == "panic":
				r.Violation("c04.panic:"+name+":fuzz@"+got.psite, name+": decoder panicked: "+stripNumbers(got.pmsg)+" at "+got.psite,
					map[string]interface{}{"input_hex": hx(in)})
			case alloc > budget(len(in), got.oc.extra):
				r.Violation("c04.alloc:"+name+":fuzz", fmt.Sprintf("%s: allocated %d bytes for an input of %d bytes (budget %d)", name, alloc, len(in), budget(len(in), got.oc.extra)),
					map[string]interface{}{"input_hex": hx(in)})
			default:
				if got.oc.accepted {
					r.Count("t."+name+".fuzz_accepted", 1)
					r.Nontrivial("fz", name, in)
				}
			}
		})
	})
}

func FuzzParseBundle(f *testing.F)      { fuzzPure(f, "parsebundle") }
func FuzzAdminRecord(f *testing.F)      { fuzzPure(f, "adminrecord") }
func FuzzStatusReport(f *testing.F)     { fuzzPure(f, "statusreport.cbor") }
func FuzzEidCbor(f *testing.F)          { fuzzPure(f, "eid.cbor") }
func FuzzBundleIDCbor(f *testing.F)     { fuzzPure(f, "bundleid.cbor") }
func FuzzEidString(f *testing.F)        { fuzzPure(f, "eid.string") }
func FuzzTcpclReadMessage(f *testing.F) { fuzzPure(f, "tcpcl.readmessage") }
func FuzzTcpclUnmarshal(f *testing.F)   { fuzzPure(f, "tcpcl.unmarshal") }
func FuzzBbcFragment(f *testing.F)      { fuzzPure(f, "bbc.fragment") }
func FuzzDiscovery(f *testing.F)        { fuzzPure(f, "discovery") }
func FuzzWam(f *testing.F)              { fuzzPure(f, "wam") }
func FuzzBuildFromMap(f *testing.F)     { fuzzPure(f, "buildfrommap") }
