package c04

import (
	"encoding/json"
	"fmt"
	"strings"

	"verifh/internal/model"
	"verifh/internal/report"
)

var interestingBytes = []byte{0x00, 0x01, 0x17, 0x18, 0x19, 0x1a, 0x1b, 0x1c, 0x1f, 0x20, 0x3b, 0x40, 0x57, 0x58, 0x59, 0x5a, 0x5b, 0x5f,
	0x60, 0x78, 0x7b, 0x7f, 0x80, 0x81, 0x82, 0x98, 0x9a, 0x9b, 0x9f, 0xa0, 0xb8, 0xbb, 0xbf, 0xc0, 0xd8, 0xf4, 0xf5, 0xf6, 0xf7, 0xfb, 0xfe, 0xff}

func interestingUint(rng *report.Rand) uint64 {
	v := bvals[rng.Intn(len(bvals))]
	switch rng.Intn(6) {
	case 0:
		return v + 1
	case 1:
		return v - 1
	case 2:
		return uint64(rng.Intn(70000))
	}
	return v
}

// mutateBytes applies one to three byte-level mutations; the first `prefix` bytes (harness selectors) are only
// replaced by other selector values.
func mutateBytes(rng *report.Rand, seed []byte, other []byte, prefix int) []byte {
	x := append([]byte(nil), seed...)
	body := func() int { // a random offset behind the prefix
		if len(x) <= prefix {
			return prefix
		}
		return prefix + rng.Intn(len(x)-prefix)
	}
	nops := 1 + rng.Intn(3)
	for op := 0; op < nops; op++ {
		if len(x) < prefix {
			break
		}
		switch rng.Intn(14) {
		case 0: // bit flip
			if len(x) > prefix {
				x[body()] ^= 1 << uint(rng.Intn(8))
			}
		case 1: // interesting byte
			if len(x) > prefix {
				x[body()] = interestingBytes[rng.Intn(len(interestingBytes))]
			}
		case 2: // random byte
			if len(x) > prefix {
				x[body()] = byte(rng.Intn(256))
			}
		case 3: // big-endian integer of width 2/4/8 overwritten with an interesting value
			w := []int{2, 4, 8}[rng.Intn(3)]
			if len(x)-prefix >= w {
				o := prefix + rng.Intn(len(x)-prefix-w+1)
				copy(x[o:], be(interestingUint(rng), w))
			}
		case 4: // CBOR head with a boundary argument replaces the byte at a position
			o := body()
			h := model.HeadWidth(byte(rng.Intn(8)), interestingUint(rng), []int{0, 1, 2, 4, 8}[rng.Intn(5)])
			if rng.Bool() {
				v := interestingUint(rng)
				h = model.HeadWidth(byte(2+rng.Intn(4)), v, minWidth(v))
			}
			end := o + 1
			if end > len(x) {
				end = len(x)
			}
			x = append(append(append([]byte(nil), x[:o]...), h...), x[end:]...)
		case 5: // insert random bytes
			o := body()
			ins := rng.Bytes(1 + rng.Intn(8))
			x = append(append(append([]byte(nil), x[:o]...), ins...), x[o:]...)
		case 6: // delete a range
			if len(x) > prefix+1 {
				o := body()
				n := 1 + rng.Intn(8)
				if o+n > len(x) {
					n = len(x) - o
				}
				x = append(append([]byte(nil), x[:o]...), x[o+n:]...)
			}
		case 7: // duplicate a range
			if len(x) > prefix+1 {
				o := body()
				n := 1 + rng.Intn(32)
				if o+n > len(x) {
					n = len(x) - o
				}
				x = append(append(append([]byte(nil), x[:o+n]...), x[o:o+n]...), x[o+n:]...)
			}
		case 8: // splice with another valid message
			if len(other) > prefix && len(x) > prefix {
				o := body()
				p := prefix + rng.Intn(len(other)-prefix)
				x = append(append([]byte(nil), x[:o]...), other[p:]...)
			}
		case 9: // truncate
			if len(x) > prefix {
				x = x[:body()]
			}
		case 10: // append garbage or another message
			if rng.Bool() && len(other) > prefix {
				x = append(x, other[prefix:]...)
			} else {
				x = append(x, rng.Bytes(1+rng.Intn(16))...)
			}
		case 11: // repeat the message many times
			if len(x) > prefix {
				bodyBytes := append([]byte(nil), x[prefix:]...)
				for k := 0; k < 1+rng.Intn(20) && len(x) < maxInput/2; k++ {
					x = append(x, bodyBytes...)
				}
			}
		case 12: // run of one byte
			o := body()
			n := 1 + rng.Intn(64)
			bb := interestingBytes[rng.Intn(len(interestingBytes))]
			run := make([]byte, n)
			for i := range run {
				run[i] = bb
			}
			x = append(append(append([]byte(nil), x[:o]...), run...), x[o:]...)
		case 13: // selector bytes
			for i := 0; i < prefix && i < len(x); i++ {
				if rng.Bool() {
					x[i] = byte(rng.Intn(8))
				}
			}
		}
	}
	if len(x) > maxInput {
		x = x[:maxInput]
	}
	return x
}

// randJSON draws a JSON value of arbitrary kind (bounded depth).
func randJSON(rng *report.Rand, depth int) string {
	switch k := rng.Intn(12); {
	case k == 0:
		return "null"
	case k == 1:
		return []string{"true", "false"}[rng.Intn(2)]
	case k <= 3:
		return []string{"0", "-1", "1.5", "255", "256", "65536", "4294967296", "18446744073709551615", "1e19", "-1e19", "1e308", "1e-310", "9007199254740993"}[rng.Intn(13)]
	case k <= 6:
		s := []string{"", "x", "dtn://c04-rest/app", "dtn:none", "ipn:1.1", "10m", "1h", "-1s", "0s", "99999999h", "dtn://a/\u0000", "ü", "2006-01-02T15:04:05Z"}[rng.Intn(13)]
		if rng.Chance(1, 10) {
			s = strings.Repeat("s", rng.Intn(5000))
		}
		b, _ := json.Marshal(s)
		return string(b)
	case k <= 8 && depth < 4:
		n := rng.Intn(4)
		var parts []string
		for i := 0; i < n; i++ {
			parts = append(parts, randJSON(rng, depth+1))
		}
		return "[" + strings.Join(parts, ",") + "]"
	case depth < 4:
		n := rng.Intn(3)
		var parts []string
		for i := 0; i < n; i++ {
			parts = append(parts, fmt.Sprintf("%q:%s", fmt.Sprintf("k%d", i), randJSON(rng, depth+1)))
		}
		return "{" + strings.Join(parts, ",") + "}"
	}
	return "7"
}

// jsonMutant draws a structure-level mutant of build arguments.
func jsonMutant(rng *report.Rand) string {
	a := validArgs(rng)
	for n := 1 + rng.Intn(3); n > 0; n-- {
		switch rng.Intn(4) {
		case 0:
			delete(a, buildKeys[rng.Intn(len(buildKeys))])
		default:
			a[buildKeys[rng.Intn(len(buildKeys))]] = randJSON(rng, 0)
		}
	}
	if rng.Chance(1, 20) {
		a[fmt.Sprintf("k%d", rng.Intn(3))] = randJSON(rng, 0)
	}
	return argsJSON(a)
}

// mutantCase draws n mutants of the target (case index k of the mutant group).
func mutantCase(tg string, k int, rng *report.Rand, n int) (out []inp) {
	seeds, prefix := validSeeds(tg, k, rng.Fork())
	if len(seeds) == 0 {
		return nil
	}
	for i := 0; i < n; i++ {
		var data []byte
		desc := "byte-level mutant"
		switch {
		case (tg == "rest.build" || tg == "buildfrommap") && i%2 == 0:
			desc = "structure-level JSON mutant"
			if tg == "rest.build" {
				data = []byte(wrapBuild(jsonMutant(rng)))
			} else {
				data = []byte(jsonMutant(rng))
			}
		case (tg == "rest.register" || tg == "rest.fetch") && i%2 == 0:
			desc = "structure-level JSON mutant"
			key := map[string]string{"rest.register": "endpoint_id", "rest.fetch": "uuid"}[tg]
			if rng.Chance(1, 5) {
				key = "other"
			}
			data = []byte(fmt.Sprintf("{%q:%s}", key, randJSON(rng, 0)))
		case tg == "eid.string" && i%3 == 0:
			desc = "scheme-prefixed random string"
			p := []string{"dtn:", "dtn://", "ipn:", "dtn://n/", "ipn:1.", ""}[rng.Intn(6)]
			data = append([]byte(p), rng.Bytes(rng.Intn(40))...)
		default:
			s := seeds[rng.Intn(len(seeds))]
			o := seeds[rng.Intn(len(seeds))]
			data = mutateBytes(rng, s, o, prefix)
		}
		out = append(out, inp{Class: "mutant", Coarse: "mutant", Desc: desc, Data: data})
	}
	return
}
