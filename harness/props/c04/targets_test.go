package c04

// The decoders under test, each as a named target with a runner that feeds ONE input to the real code.

import (
	"bytes"
	"encoding/json"
	"errors"
	"fmt"
	"io"
	"net"
	"net/http/httptest"
	"strings"
	"sync"
	"time"

	"github.com/gorilla/mux"

	"github.com/dtn7/dtn7-go/pkg/agent"
	"github.com/dtn7/dtn7-go/pkg/bpv7"
	"github.com/dtn7/dtn7-go/pkg/cla"
	"github.com/dtn7/dtn7-go/pkg/cla/bbc"
	"github.com/dtn7/dtn7-go/pkg/cla/mtcp"
	"github.com/dtn7/dtn7-go/pkg/cla/tcpclv4"
	"github.com/dtn7/dtn7-go/pkg/discovery"

	"verifh/internal/bubble"
)

const (
	modePure     = iota // pure computation: many inputs per bubble (fake clock at the fixed date)
	modeStateful        // goroutines / channels / timers: one bubble per input, quiescence via synctest.Wait
	modeReal            // real sockets: real time, no bubble
)

type target struct {
	name string
	mode int
	run  func(cs *childState, in []byte) outcome
}

var targets []*target

func targetByName(n string) *target {
	for _, t := range allTargets() {
		if t.name == n {
			return t
		}
	}
	return nil
}

func ret(accepted bool, err error) outcome { return outcome{accepted: err == nil && accepted, err: err} }

func allTargets() []*target {
	if targets != nil {
		return targets
	}
	targets = []*target{
		{"parsebundle", modePure, runParseBundle},
		{"bundle.adminrecord", modePure, runParseBundle},
		{"adminrecord", modePure, func(_ *childState, in []byte) outcome {
			ar, err := bpv7.NewAdministrativeRecordFromCbor(in)
			if err == nil && ar != nil {
				_ = ar.RecordTypeCode()
				if sr, ok := ar.(*bpv7.StatusReport); ok {
					_ = sr.String()
					_ = sr.StatusInformations()
				}
			}
			return ret(true, err)
		}},
		{"statusreport.cbor", modePure, func(_ *childState, in []byte) outcome {
			var sr bpv7.StatusReport
			err := sr.UnmarshalCbor(bytes.NewReader(in))
			if err == nil {
				_ = sr.String()
			}
			return ret(true, err)
		}},
		{"eid.cbor", modePure, func(_ *childState, in []byte) outcome {
			var e bpv7.EndpointID
			err := e.UnmarshalCbor(bytes.NewReader(in))
			if err == nil {
				_ = e.String()
				_ = e.CheckValid()
			}
			return ret(true, err)
		}},
		{"bundleid.cbor", modePure, func(_ *childState, in []byte) outcome {
			if len(in) == 0 {
				return ret(false, errors.New("empty"))
			}
			var id bpv7.BundleID
			id.IsFragment = in[0]&1 == 1
			err := id.UnmarshalCbor(bytes.NewReader(in[1:]))
			if err == nil {
				_ = id.String()
			}
			return ret(true, err)
		}},
		{"eid.string", modePure, func(_ *childState, in []byte) outcome {
			e, err := bpv7.NewEndpointID(string(in))
			if err == nil {
				_ = e.String()
			}
			return ret(true, err)
		}},
		{"tcpcl.readmessage", modePure, func(_ *childState, in []byte) outcome {
			m, err := tcpclv4.VerifReadMessage(bytes.NewReader(in))
			if err == nil {
				_ = fmt.Sprint(m)
			}
			return ret(true, err)
		}},
		{"tcpcl.unmarshal", modePure, func(_ *childState, in []byte) outcome {
			if len(in) == 0 {
				return ret(false, errors.New("empty"))
			}
			m, err := tcpclv4.VerifNewMessage(tcpclCodes[int(in[0])%len(tcpclCodes)])
			if err != nil {
				return ret(false, err)
			}
			err = m.Unmarshal(bytes.NewReader(in[1:]))
			return ret(true, err)
		}},
		{"tcpcl.transfer-in", modeStateful, runTransferIn},
		{"tcpcl.sender", modeStateful, runSender},
		{"mtcp.server", modeReal, runMtcp},
		{"bbc.fragment", modePure, func(_ *childState, in []byte) outcome {
			f, err := bbc.ParseFragment(in)
			if err == nil {
				_ = f.String()
				_ = f.Bytes()
				_ = f.ReportFailure()
			}
			return ret(true, err)
		}},
		{"bbc.connector", modeStateful, runBbcConnector},
		{"discovery", modePure, func(_ *childState, in []byte) outcome {
			as, err := discovery.UnmarshalAnnouncements(in)
			if err == nil {
				for _, a := range as {
					_ = a.String()
				}
			}
			return ret(true, err)
		}},
		{"wam", modePure, func(_ *childState, in []byte) outcome {
			_, err := agent.VerifWamUnmarshal(bytes.NewReader(in))
			return ret(true, err)
		}},
		{"rest.register", modeStateful, func(cs *childState, in []byte) outcome { return runRest("/register", in) }},
		{"rest.fetch", modeStateful, func(cs *childState, in []byte) outcome { return runRest("/fetch", in) }},
		{"rest.build", modeStateful, func(cs *childState, in []byte) outcome { return runRest("/build", in) }},
		{"buildfrommap", modePure, func(_ *childState, in []byte) outcome {
			var m map[string]interface{}
			if err := json.Unmarshal(in, &m); err != nil {
				return outcome{err: err, info: "not-json"}
			}
			_, err := bpv7.BuildFromMap(m)
			return ret(true, err)
		}},
	}
	return targets
}

var tcpclCodes = []uint8{tcpclv4.VerifSESS_INIT, tcpclv4.VerifSESS_TERM, tcpclv4.VerifXFER_SEGMENT, tcpclv4.VerifXFER_ACK,
	tcpclv4.VerifXFER_REFUSE, tcpclv4.VerifKEEPALIVE, tcpclv4.VerifMSG_REJECT, 0x64}

// ---- bundles ----

func runParseBundle(_ *childState, in []byte) outcome {
	b, err := bpv7.ParseBundle(bytes.NewReader(in))
	if err != nil {
		return ret(false, err)
	}
	_ = b.ID().String()
	if b.IsAdministrativeRecord() {
		// the node decodes the payload of an accepted administrative-record bundle (routing/processing.go)
		if ar, arErr := b.AdministrativeRecord(); arErr == nil && ar != nil {
			_ = ar.RecordTypeCode()
			if sr, ok := ar.(*bpv7.StatusReport); ok {
				_ = sr.String()
			}
			return outcome{accepted: true, info: "adminrecord-decoded"}
		}
		return outcome{accepted: true, info: "adminrecord-rejected"}
	}
	return ret(true, nil)
}

// ---- TCPCLv4: receiving side of the transfer machinery fed a hostile message sequence ----

func parseMessages(in []byte, max int) (out []tcpclv4.VerifMessage) {
	r := bytes.NewReader(in)
	for len(out) < max {
		m, err := tcpclv4.VerifReadMessage(r)
		if err != nil {
			return
		}
		out = append(out, m)
	}
	return
}

// fixedBundle is a valid bundle whose encoding is roughly n bytes long (created at the bubble's fake "now").
func fixedBundle(n int) bpv7.Bundle {
	pl := n - 70
	if pl < 0 {
		pl = 0
	}
	payload := make([]byte, pl)
	for i := range payload {
		payload[i] = byte(i * 7)
	}
	b, err := bpv7.Builder().
		CRC(bpv7.CRC32).
		Source("dtn://c04-src/").
		Destination("dtn://c04-dst/x").
		CreationTimestampNow().
		Lifetime("1h").
		PayloadBlock(payload).
		Build()
	if err != nil {
		panic("harness: cannot build the fixed bundle: " + err.Error())
	}
	return b
}

func bundleLen(b bpv7.Bundle) int {
	var buf bytes.Buffer
	_ = b.MarshalCbor(&buf)
	return buf.Len()
}

func runTransferIn(_ *childState, in []byte) outcome {
	if len(in) == 0 {
		return ret(false, errors.New("empty"))
	}
	withSend := in[0]&1 == 1
	script := parseMessages(in[1:], 4096)

	tmIn := make(chan tcpclv4.VerifMessage)
	tmOut := make(chan tcpclv4.VerifMessage)
	tm := tcpclv4.VerifNewTransferManager(tmIn, tmOut, 64)
	bundles, errs := tm.Exchange()
	stop := make(chan struct{})
	var mu sync.Mutex
	var firstErr error
	nBundles, nOut := 0, 0
	var wg sync.WaitGroup
	wg.Add(1)
	go func() { // the session side of the manager: consume everything it produces
		defer wg.Done()
		for {
			select {
			case <-stop:
				return
			case <-tmOut:
				mu.Lock()
				nOut++
				mu.Unlock()
			case <-bundles:
				mu.Lock()
				nBundles++
				mu.Unlock()
			case e := <-errs:
				mu.Lock()
				if firstErr == nil {
					firstErr = e
				}
				mu.Unlock()
			}
		}
	}()
	fed := 0
	feederDone := make(chan struct{})
	go func() {
		defer close(feederDone)
		for _, m := range script {
			select {
			case tmIn <- m:
				mu.Lock()
				fed++
				mu.Unlock()
			case <-stop:
				return
			}
		}
	}()
	var sendErr error
	sendDone := make(chan struct{})
	if withSend {
		go func() {
			defer close(sendDone)
			sendErr = tm.Send(fixedBundle(300))
		}()
	} else {
		close(sendDone)
	}
	bubble.Wait() // everything that can happen without time passing has happened
	<-sendDone    // Send has a 10 s (fake) acknowledgement timeout: it always returns
	bubble.Wait()
	mu.Lock()
	f, e := fed, firstErr
	mu.Unlock()
	_ = tm.Close()
	close(stop)
	<-feederDone
	wg.Wait()
	bubble.Wait()
	oc := outcome{n: int64(f)}
	switch {
	case f < len(script) && e == nil:
		// the manager neither consumed the message nor reported an error: it is stuck
		oc.st, oc.msg = "blocked", fmt.Sprintf("transfer manager stopped consuming after %d of %d messages without reporting an error", f, len(script))
	case e != nil:
		oc.err = e
	case sendErr != nil:
		oc.err = sendErr
	default:
		oc.accepted = true
	}
	return oc
}

// ---- TCPCLv4: sending side configured by the peer's SESS_INIT ----

var senderSizes = []int{80, 1100, 66000}

// senderExtra: the sender legitimately works on the L bytes of the bundle and spends a few hundred bytes on every
// segment it emits (message, acknowledgement, timer); the number of segments is bounded separately.
func senderExtra(L, n, bound int64) uint64 {
	if n > bound+1 {
		n = bound + 1
	}
	return uint64(budgetFactor*L + 1024*n)
}

func runSender(_ *childState, in []byte) outcome {
	if len(in) < 3 {
		return ret(false, errors.New("short"))
	}
	mode := in[0] % 2
	b := fixedBundle(senderSizes[int(in[1])%len(senderSizes)])
	L := int64(bundleLen(b))
	peerMsg, err := tcpclv4.VerifReadMessage(bytes.NewReader(in[2:]))
	if err != nil {
		return outcome{err: err, info: "sess-init-unparsed"}
	}

	// session initialisation stage over channels, our side passive or active
	msgIn := make(chan tcpclv4.VerifMessage, 4)
	msgOut := make(chan tcpclv4.VerifMessage, 4)
	var segMtu, xferMtu uint64
	conf := tcpclv4.VerifConfiguration{ActivePeer: in[0]&2 != 0, Keepalive: 30, SegmentMru: 1048576, TransferMru: 1073741824,
		NodeId: bpv7.MustNewEndpointID("dtn://c04-node/")}
	sh := tcpclv4.VerifNewStageHandler([]tcpclv4.VerifStageSetup{{
		Stage: &tcpclv4.VerifSessInitStage{},
		PostHook: func(_ *tcpclv4.VerifStageHandler, st *tcpclv4.VerifState) error {
			segMtu, xferMtu = st.SegmentMtu, st.TransferMtu
			return nil
		},
	}}, msgIn, msgOut, conf)
	msgIn <- peerMsg
	var stageErr error
	for e := range sh.Error() {
		if stageErr == nil {
			stageErr = e
		}
	}
	_ = sh.Close()
	if stageErr != nil {
		return outcome{err: stageErr, info: "sess-init-rejected"}
	}
	_ = xferMtu

	bound := L + 1
	if segMtu >= 1 {
		bound = (L+int64(segMtu)-1)/int64(segMtu) + 1
		if segMtu > uint64(L) {
			bound = 2
		}
	}

	if mode == 1 {
		// the segmenter alone
		tr := tcpclv4.VerifNewBundleOutgoingTransfer(1, b)
		var n, total int64
		var segErr error
		spin := false
		for {
			seg, e := tr.NextSegment(segMtu)
			if e != nil {
				segErr = e
				break
			}
			n++
			total += int64(len(seg.Data))
			if n > bound {
				spin = true
				break
			}
		}
		// release the goroutine that serialises the bundle into the transfer's pipe
		for k := 0; k < 1000; k++ {
			if _, e := tr.NextSegment(1 << 16); e != nil {
				break
			}
		}
		bubble.Wait()
		oc := outcome{n: n, bound: bound, extra: senderExtra(L, n, bound)}
		switch {
		case spin:
			oc.st, oc.msg = "spin", fmt.Sprintf("NextSegment(mtu=%d) produced more than %d segments for a %d byte bundle", segMtu, bound, L)
		case segErr != nil && !errors.Is(segErr, io.EOF):
			oc.err = segErr
		case total != L:
			oc.err = fmt.Errorf("segments carry %d of %d bytes", total, L)
		default:
			oc.accepted = true
		}
		return oc
	}

	// TransferManager.Send against a well-behaved receiving peer
	tmIn := make(chan tcpclv4.VerifMessage)
	tmOut := make(chan tcpclv4.VerifMessage)
	tm := tcpclv4.VerifNewTransferManager(tmIn, tmOut, segMtu)
	_, errs := tm.Exchange()
	stop := make(chan struct{})
	var mu sync.Mutex
	var n, total int64
	spin := false
	var wg sync.WaitGroup
	wg.Add(1)
	go func() { // the peer: counts every segment and acknowledges it like a receiving TCPCLv4 node (never stops reading)
		defer wg.Done()
		var pend []tcpclv4.VerifMessage
		for {
			var ackCh chan<- tcpclv4.VerifMessage
			var next tcpclv4.VerifMessage
			if len(pend) > 0 {
				ackCh, next = tmIn, pend[0]
			}
			select {
			case <-stop:
				return
			case <-errs:
			case ackCh <- next:
				pend = pend[1:]
			case m := <-tmOut:
				seg, ok := m.(*tcpclv4.VerifDataTransmissionMessage)
				if !ok {
					continue
				}
				mu.Lock()
				n++
				total += int64(len(seg.Data))
				over := n > bound
				if over && !spin {
					spin = true
					_ = tm.Close() // ends the sending goroutine at its next iteration
				}
				ackLen := uint64(total)
				mu.Unlock()
				if !over && len(pend) < 1<<20 {
					pend = append(pend, tcpclv4.VerifNewDataAcknowledgementMessage(seg.Flags, seg.TransferId, ackLen))
				}
			}
		}
	}()
	sendErr := tm.Send(b)
	bubble.Wait() // the sending goroutine has emitted everything it is going to emit
	mu.Lock()
	oc := outcome{n: n, bound: bound, extra: senderExtra(L, n, bound)}
	sp := spin
	mu.Unlock()
	if !sp {
		_ = tm.Close()
	}
	close(stop)
	wg.Wait()
	bubble.Wait()
	switch {
	case sp:
		oc.st, oc.msg = "spin", fmt.Sprintf("Send with peer segment MRU %d emitted more than %d segments for a %d byte bundle", segMtu, bound, L)
		oc.restart = true
	case sendErr != nil:
		oc.err = sendErr
	default:
		oc.accepted = true
	}
	return oc
}

// ---- MTCP server over loopback ----

type mtcpEnv struct {
	serv   *mtcp.MTCPServer
	addr   string
	mu     sync.Mutex
	cond   *sync.Cond
	seen   map[string]bool
	nRecv  int
	probeN uint64
}

var mtcpOnce sync.Once
var mtcpE *mtcpEnv
var mtcpErr error

func mtcpStart() {
	for try := 0; try < 20; try++ {
		l, err := net.Listen("tcp", "127.0.0.1:0")
		if err != nil {
			mtcpErr = err
			continue
		}
		addr := l.Addr().String()
		l.Close()
		serv := mtcp.NewMTCPServer(addr, bpv7.MustNewEndpointID("dtn://c04-mtcp/"), true)
		if err, _ := serv.Start(); err != nil {
			mtcpErr = err
			continue
		}
		e := &mtcpEnv{serv: serv, addr: addr, seen: map[string]bool{}}
		e.cond = sync.NewCond(&e.mu)
		go func() {
			for st := range serv.Channel() {
				if st.MessageType != cla.ReceivedBundle {
					continue
				}
				if rb, ok := st.Message.(cla.ConvergenceReceivedBundle); ok && rb.Bundle != nil {
					e.mu.Lock()
					e.nRecv++
					e.seen[rb.Bundle.ID().String()] = true
					e.cond.Broadcast()
					e.mu.Unlock()
				}
			}
		}()
		mtcpE, mtcpErr = e, nil
		return
	}
}

func runMtcp(cs *childState, in []byte) outcome {
	mtcpOnce.Do(mtcpStart)
	if mtcpE == nil {
		return outcome{err: fmt.Errorf("harness: cannot start MTCP server: %v", mtcpErr), info: "harness-error"}
	}
	e := mtcpE
	e.mu.Lock()
	before := e.nRecv
	e.mu.Unlock()
	conn, err := net.Dial("tcp", e.addr)
	if err != nil {
		return outcome{err: err, info: "harness-error"}
	}
	go func() {
		_, _ = conn.Write(in)
		if tc, ok := conn.(*net.TCPConn); ok {
			_ = tc.CloseWrite()
		}
	}()
	// the handler returns (and closes the connection) for every input: wait for exactly that
	_, _ = io.Copy(io.Discard, conn)
	_ = conn.Close()

	// the server must keep serving: a fresh connection with a valid bundle is delivered
	cs.phase.Store(1)
	cs.line(fmt.Sprintf("P %d", cs.cur.Load()))
	e.probeN++
	probe, err := bpv7.Builder().CRC(bpv7.CRC32).Source("dtn://c04-probe/").Destination("dtn://c04-mtcp/in").
		CreationTimestampNow().Lifetime("1h").PayloadBlock([]byte(fmt.Sprintf("probe %d", e.probeN))).Build()
	if err != nil {
		return outcome{err: err, info: "harness-error"}
	}
	probe.PrimaryBlock.CreationTimestamp = bpv7.NewCreationTimestamp(bpv7.DtnTimeNow(), e.probeN)
	probe.SetCRCType(bpv7.CRC32)
	var pb bytes.Buffer
	_ = probe.MarshalCbor(&pb)
	frame := append(cborHead(2, uint64(pb.Len())), pb.Bytes()...)
	pid := probe.ID().String()
	c2, err := net.Dial("tcp", e.addr)
	if err != nil {
		return outcome{st: "dead", msg: "MTCP server no longer accepts connections: " + stripNumbers(err.Error())}
	}
	_, _ = c2.Write(frame)
	if tc, ok := c2.(*net.TCPConn); ok {
		_ = tc.CloseWrite()
	}
	_, _ = io.Copy(io.Discard, c2)
	_ = c2.Close()
	e.mu.Lock()
	for !e.seen[pid] {
		e.cond.Wait() // bounded by the child's watchdog (journal phase "P" => verdict "dead")
	}
	delete(e.seen, pid)
	got := e.nRecv - before - 1
	for k := range e.seen {
		delete(e.seen, k)
	}
	e.mu.Unlock()
	if got > 0 {
		return outcome{accepted: true, n: int64(got)}
	}
	return outcome{err: errors.New("no bundle delivered from the hostile connection")}
}

// ---- BBC connector fed by a scripted modem ----

type scriptModem struct {
	frags [][]byte
	pos   int
	sent  int
	eof   chan struct{}
	once  sync.Once
	stop  chan struct{}
}

func (m *scriptModem) Mtu() int { return 64 }
func (m *scriptModem) Send(f bbc.Fragment) error {
	m.sent++
	return nil
}
func (m *scriptModem) Receive() (bbc.Fragment, error) {
	if m.pos >= len(m.frags) {
		m.once.Do(func() { close(m.eof) })
		return bbc.Fragment{}, io.EOF
	}
	d := m.frags[m.pos]
	m.pos++
	return bbc.ParseFragment(d)
}
func (m *scriptModem) Close() error   { return nil }
func (m *scriptModem) String() string { return "scripted" }

// splitTrain decodes the harness's framing of a fragment train: repeated (length byte, fragment bytes).
func splitTrain(in []byte) (frags [][]byte) {
	for len(in) > 0 {
		l := int(in[0])
		in = in[1:]
		if l > len(in) {
			l = len(in)
		}
		frags = append(frags, in[:l:l])
		in = in[l:]
	}
	return
}

// xzDictConst is what decoding one xz stream of the real sender costs regardless of the bundle: the sender's
// xz writer always declares its default dictionary of 8 MiB, which the reader allocates, plus decoder state.
const xzDictConst = 9 << 20

var xzMagic = []byte{0xfd, '7', 'z', 'X', 'Z', 0x00}

func runBbcConnector(_ *childState, in []byte) outcome {
	frags := splitTrain(in)
	// xzStreams: start fragments whose payload begins like an xz stream. Only such a transmission can get as far as
	// the xz reader's dictionary (an upper bound on the decoders started, derived from the input alone).
	xzStreams, fails := 0, 0
	for _, f := range frags {
		if len(f) >= 2 {
			if f[1]&0x01 != 0 {
				fails++
			} else if f[1]&0x04 != 0 {
				pl := f[2:]
				if len(pl) > len(xzMagic) {
					pl = pl[:len(xzMagic)]
				}
				if len(pl) > 0 && bytes.HasPrefix(xzMagic, pl) {
					xzStreams++
				}
			}
		}
	}
	m := &scriptModem{frags: frags, eof: make(chan struct{}), stop: make(chan struct{})}
	c := bbc.NewConnector(m, false)
	stop := make(chan struct{})
	nb := 0
	var wg sync.WaitGroup
	wg.Add(1)
	go func() {
		defer wg.Done()
		for {
			select {
			case <-stop:
				return
			case st := <-c.Channel():
				if st.MessageType == cla.ReceivedBundle {
					nb++
				}
			}
		}
	}()
	_, _ = c.Start()
	bubble.Wait()
	oc := outcome{n: int64(nb), extra: uint64(xzStreams) * xzDictConst}
	select {
	case <-m.eof:
		_ = c.Close()
	default:
		// the reading goroutine is durably blocked before the end of the train
		if fails > 64 {
			// more than 64 failure fragments and nobody sending: the connector's failure queue (capacity 64, only
			// drained by Connector.Send) is full.  Back-pressure until the node's next own transmission, not a
			// dead-lock of the decoder: informational.
			oc.info = "rx-blocked-on-failure-queue"
		} else {
			oc.st, oc.msg = "blocked", fmt.Sprintf("connector stopped reading after %d of %d fragments", m.pos, len(frags))
			oc.restart = true
		}
	}
	close(stop)
	wg.Wait()
	if oc.st == "" {
		if nb > 0 {
			oc.accepted = true
			oc.n = int64(nb)
		} else {
			oc.err = errors.New("no bundle received from the train")
		}
	}
	return oc
}

// ---- REST agent handlers, invoked without net/http's per-connection recover ----

const uuidPlaceholder = "@@UUID@@"

func runRest(path string, in []byte) outcome {
	router := mux.NewRouter()
	ra := agent.NewRestAgent(router)
	stop := make(chan struct{})
	nSent := 0
	var wg sync.WaitGroup
	wg.Add(1)
	go func() {
		defer wg.Done()
		for {
			select {
			case <-stop:
				return
			case _, ok := <-ra.MessageSender():
				if !ok {
					return
				}
				nSent++
			}
		}
	}()
	defer func() {
		ra.MessageReceiver() <- agent.ShutdownMessage{}
		bubble.Wait()
		close(stop)
		wg.Wait()
	}()

	body := in
	if path != "/register" {
		rec := httptest.NewRecorder()
		router.ServeHTTP(rec, httptest.NewRequest("POST", "/register", strings.NewReader(`{"endpoint_id":"dtn://c04-rest/app"}`)))
		var rr agent.RestRegisterResponse
		if err := json.Unmarshal(rec.Body.Bytes(), &rr); err != nil || rr.UUID == "" {
			return outcome{err: fmt.Errorf("harness: registration failed: %v %s", err, rr.Error), info: "harness-error"}
		}
		body = bytes.ReplaceAll(in, []byte(uuidPlaceholder), []byte(rr.UUID))
	}
	rec := httptest.NewRecorder()
	router.ServeHTTP(rec, httptest.NewRequest("POST", path, bytes.NewReader(body)))
	bubble.Wait()
	var resp struct {
		Error string `json:"error"`
	}
	if err := json.Unmarshal(rec.Body.Bytes(), &resp); err != nil {
		return outcome{err: fmt.Errorf("response is not JSON (status %d)", rec.Code)}
	}
	if resp.Error != "" {
		return outcome{err: errors.New(resp.Error)}
	}
	return outcome{accepted: true, n: int64(nSent)}
}

// ---- helpers ----

func cborHead(major byte, n uint64) []byte {
	switch {
	case n < 24:
		return []byte{major<<5 | byte(n)}
	case n < 1<<8:
		return []byte{major<<5 | 24, byte(n)}
	case n < 1<<16:
		return []byte{major<<5 | 25, byte(n >> 8), byte(n)}
	case n < 1<<32:
		return []byte{major<<5 | 26, byte(n >> 24), byte(n >> 16), byte(n >> 8), byte(n)}
	}
	return []byte{major<<5 | 27, byte(n >> 56), byte(n >> 48), byte(n >> 40), byte(n >> 32), byte(n >> 24), byte(n >> 16), byte(n >> 8), byte(n)}
}

var _ = time.Second
