package c05

import (
	"bytes"
	"fmt"
	"sync"
	"time"

	"github.com/dtn7/dtn7-go/pkg/bpv7"

	"verifh/internal/bubble"
	"verifh/internal/model"
	"verifh/internal/nodesim"
	"verifh/internal/report"
)

// burst: events that arrive while the node is still busy with the previous ones. Several bundles are received and
// submitted back to back from different goroutines, a relay appears in the middle, optionally at the very instant of
// the 10 s retry job - nothing waits for quiescence in between. Oracle: at the quiescent point after the burst every
// accepted bundle that no convergence layer has taken yet is in the store marked for retry (R1); after the next retry
// tick every such bundle has been offered to every connected peer that does not have it (epidemic, R3), and to its
// destination node if that is connected (R2). "Offered by the next tick" is the bounded form of "as soon as" that does
// not depend on which of two simultaneous events the node happened to process first.
func burst(r *report.Run, algo string, idx int, rng *report.Rand) {
	s, err := nodesim.New(nodesim.Config{Routing: nodesim.RoutingConf(algo)})
	if err != nil {
		r.Violation("c05.open-failed", err.Error(), nil)
		return
	}
	defer s.Close()
	sc := &scenario{r: r, algo: algo, s: s, up: map[string]bool{}, epidemic: algo == "epidemic" || algo == "sensor-mule"}
	sc.hist = []string{"burst"}
	sc.r1Only = true
	sc.peerUpWith("src")
	failing := rng.Bool()
	if rng.Bool() {
		sc.failing = failing
		sc.peerUpWith("r1")
	}
	atTick := rng.Intn(3) == 0
	if atTick {
		time.Sleep(10*time.Second - time.Nanosecond)
		s.Wait()
	}
	s.Step("burst", fmt.Sprintf("at_tick=%v", atTick))
	stepFrom := sc.lastStep()
	nRx, nSub := 1+rng.Intn(5), 1+rng.Intn(5)
	var wg sync.WaitGroup
	// receptions from src
	for i := 0; i < nRx; i++ {
		pid := sc.newPID()
		m := model.Bundle{Version: 7, CRC: 2, Dst: model.Dtn("d1", "in"), Src: model.Dtn("remote", "app"), Rpt: model.Dtn("remote", "app"),
			Time: bubble.NowMs() - 1000, Seq: uint64(sc.nextPID), Lifetime: 86_400_000,
			Blocks: []model.Block{{Type: model.TPrevNode, Num: 2, Node: model.Dtn("src", "")}, {Type: model.THopCount, Num: 3, Limit: 20, Count: 1},
				{Type: model.TPayload, Num: 1, CRC: 2, Data: nodesim.Payload(pid, 8)}}}
		wire, _ := m.Encode(nil)
		b, perr := bpv7.ParseBundle(bytes.NewReader(wire))
		if perr != nil {
			continue
		}
		sc.bundles = append(sc.bundles, &mBundle{pid: pid, dest: "d1", holders: map[string]bool{"src": true}, accepted: stepFrom})
		bb := b
		wg.Add(1)
		go func() { defer wg.Done(); s.Peer("src").Inject(&bb) }()
	}
	// local submissions (same frozen millisecond: twins), some without a clock
	for i := 0; i < nSub; i++ {
		pid := sc.newPID()
		zero := rng.Intn(4) == 0
		b := sc.buildLocal(pid, "d1", zero)
		sc.bundles = append(sc.bundles, &mBundle{pid: pid, dest: "d1", holders: map[string]bool{}, zero: zero, local: true, createdMs: bubble.NowMs(), accepted: stepFrom})
		wg.Add(1)
		go func() { defer wg.Done(); s.Core.SendBundle(&b) }()
	}
	// a relay (or the destination) appears in the middle of it
	newPeer := []string{"r2", "d1", ""}[rng.Intn(3)]
	if newPeer != "" {
		sc.up[newPeer] = true
		wg.Add(1)
		go func() {
			defer wg.Done()
			if atTick {
				time.Sleep(time.Nanosecond)
			}
			s.PeerUpNoWait(newPeer)
		}()
	}
	wg.Wait()
	if atTick {
		time.Sleep(time.Nanosecond)
	}
	s.Wait()
	sc.check(stepFrom, false) // R1 only (nothing counts as re-dispatch yet); also updates the model with the sends so far
	if sc.viol {
		return
	}
	// next retry tick: everything retained must have been offered by now
	everOffered := map[string]map[string]bool{}
	s.Tick(10 * time.Second)
	for _, x := range s.Sends() {
		if everOffered[x.PID] == nil {
			everOffered[x.PID] = map[string]bool{}
		}
		everOffered[x.PID][x.Peer] = true
	}
	sc.check(sc.lastStep(), false)
	if sc.viol {
		return
	}
	for _, b := range sc.bundles {
		if b.directOK {
			continue
		}
		if sc.up["d1"] {
			r.Count("burst.R2_checked", 1)
			if !everOffered[b.pid]["d1"] {
				sc.violation("c05.burst.R2.not-sent-to-destination", fmt.Sprintf("bundle %s was accepted in a burst while its destination node appeared; one retry tick later it still has not been transmitted to it", b.pid))
				return
			}
			continue
		}
		if !sc.epidemic {
			continue
		}
		for q, u := range sc.up {
			if !u || q == "src" && b.holders["src"] && !b.local {
				continue
			}
			if b.holders[q] && !everOffered[b.pid][q] {
				continue
			}
			r.Count("burst.R3_checked", 1)
			if !everOffered[b.pid][q] {
				sc.violation("c05.burst.R3.not-offered", fmt.Sprintf("epidemic: bundle %s was accepted in a burst, peer %s is connected and does not have it; one retry tick later it still has not been offered to it", b.pid, q))
				return
			}
		}
	}
	r.Count("burst.scenarios", 1)
	r.Count("burst.bundles", len(sc.bundles))
	r.Nontrivial("burst", algo, idx)
}
