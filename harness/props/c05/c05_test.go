package c05

import (
	"fmt"
	"os"
	"runtime"
	"sort"
	"strings"
	"sync"
	"sync/atomic"
	"testing"
	"time"

	"github.com/dtn7/dtn7-go/pkg/bpv7"
	"github.com/dtn7/dtn7-go/pkg/verifhook"

	"verifh/internal/bubble"
	"verifh/internal/model"
	"verifh/internal/nodesim"
	"verifh/internal/report"
)

// event codes of a history
const (
	evSubmit = iota
	evSubmitZero
	evRx
	evUpRelay
	evUpDest
	evDown
	evToggleFail
	evTick
	evClean
	evRestart
	evSubmitTwin // two submissions in the same (frozen) millisecond
	evUpRelay2
	evFailOne // only the first connected peer fails / works again
	nEvents
)

var evNames = []string{"submit", "submit_zero_time", "rx", "up_relay", "up_dest", "down", "toggle_fail", "retry_tick", "clean_tick", "restart", "submit_twin", "up_relay2", "toggle_fail_first_peer"}

type mBundle struct {
	createdMs uint64
	local    bool
	pid      string
	dest     string          // destination node name
	holders  map[string]bool // peers believed to have it: previous node, successful sends
	success  int
	directOK bool // delivered to its destination node: released from the store
	zero     bool
	accepted int // step
}

type scenario struct {
	r       *report.Run
	algo    string
	s       *nodesim.Sim
	bundles []*mBundle
	up      map[string]bool
	failing bool
	failOne map[string]bool
	nextPID int
	hist    []string
	viol    bool
	epidemic bool
	r1Only   bool // judge retention only (bursts: who is offered what is judged after the following retry tick)
}

func (sc *scenario) witness() interface{} {
	return map[string]interface{}{"algorithm": sc.algo, "history": sc.hist, "trace": sc.s.TraceStrings(), "sends": sc.s.Sends()}
}

func (sc *scenario) violation(sig, msg string) {
	if sc.viol {
		return
	}
	sc.viol = true
	sc.r.Violation(sig, msg, sc.witness())
}

func (sc *scenario) newPID() string {
	sc.nextPID++
	return fmt.Sprintf("b%d", sc.nextPID)
}

func (sc *scenario) buildLocal(pid, dest string, zero bool) bpv7.Bundle {
	bl := bpv7.Builder().CRC(bpv7.CRC32).Source("dtn://node/app").Destination("dtn://" + dest + "/in").Lifetime("24h")
	if zero {
		bl = bl.CreationTimestampEpoch().BundleAgeBlock(uint64(1000))
	} else {
		bl = bl.CreationTimestampNow()
	}
	b, err := bl.PayloadBlock(nodesim.Payload(pid, 8)).Build()
	if err != nil {
		panic(err)
	}
	return b
}

func (sc *scenario) submit(dest string, zero bool) {
	pid := sc.newPID()
	b := sc.buildLocal(pid, dest, zero)
	mb := &mBundle{pid: pid, dest: dest, holders: map[string]bool{}, zero: zero, local: true, createdMs: bubble.NowMs()}
	sc.bundles = append(sc.bundles, mb)
	sc.s.Submit(b)
	mb.accepted = sc.lastStep()
}

func (sc *scenario) lastStep() int {
	tr := sc.s.Trace()
	return tr[len(tr)-1].Step
}

func (sc *scenario) firstUp() string {
	var names []string
	for n, u := range sc.up {
		if u {
			names = append(names, n)
		}
	}
	sort.Strings(names)
	if len(names) == 0 {
		return ""
	}
	return names[0]
}

func (sc *scenario) peerUp(name string) {
	if sc.up[name] {
		return
	}
	p := sc.s.PeerUp(name)
	_ = p
	sc.up[name] = true
	sc.applyFailing()
	// outcome must be in force before the node dispatches: PeerUp already waited, so re-run dispatch through a no-op? No:
	// the peer's outcome is set at creation by applyFailingTo (see peerUpWith).
}

// peerUpWith registers the peer with the outcome already in force.
func (sc *scenario) peerUpWith(name string) {
	if sc.up[name] {
		return
	}
	sc.up[name] = true
	sc.s.PeerUpWith(name, func(p *nodesim.Peer) {
		if sc.failing || sc.failOne[name] {
			p.Fail()
		}
	})
}

func (sc *scenario) applyFailing() {
	for n, u := range sc.up {
		if !u {
			continue
		}
		if p := sc.s.Peer(n); p != nil {
			if sc.failing || sc.failOne[n] {
				p.Fail()
			} else {
				p.OK()
			}
		}
	}
}

// apply executes one event and then checks the rules at the quiescent point.
func (sc *scenario) apply(ev int) {
	sc.hist = append(sc.hist, evNames[ev])
	stepBefore := sc.lastStepOr0() + 1
	redispatch := false // did the node re-dispatch all pending bundles in this step?
	switch ev {
	case evSubmit:
		sc.submit("d1", false)
	case evSubmitZero:
		sc.submit("d1", true)
	case evSubmitTwin:
		// both are created in the same frozen millisecond by the same application
		sc.submit("d1", false)
		sc.submit("d2", false)
	case evRx:
		from := sc.firstUp()
		if from == "" {
			return
		}
		pid := sc.newPID()
		dest := "d1"
		if from == "d1" {
			dest = "d2"
		}
		m := model.Bundle{Version: 7, CRC: 2, Dst: model.Dtn(dest, "in"), Src: model.Dtn("remote", "app"), Rpt: model.Dtn("remote", "app"),
			Time: bubble.NowMs() - 1000, Seq: uint64(sc.nextPID), Lifetime: 86_400_000,
			Blocks: []model.Block{{Type: model.TPrevNode, Num: 2, Node: model.Dtn(from, "")}, {Type: model.THopCount, Num: 3, Limit: 20, Count: 1},
				{Type: model.TPayload, Num: 1, CRC: 2, Data: nodesim.Payload(pid, 8)}}}
		wire, _ := m.Encode(nil)
		mb := &mBundle{pid: pid, dest: dest, holders: map[string]bool{from: true}}
		sc.bundles = append(sc.bundles, mb)
		if err := sc.s.Deliver(from, wire); err != nil {
			sc.r.Count("harness.rx_rejected", 1)
			sc.bundles = sc.bundles[:len(sc.bundles)-1]
			return
		}
		mb.accepted = sc.lastStep()
	case evUpRelay:
		if sc.up["r1"] {
			return
		}
		sc.peerUpWith("r1")
		redispatch = true
	case evUpRelay2:
		if sc.up["r2"] {
			return
		}
		sc.peerUpWith("r2")
		redispatch = true
	case evUpDest:
		if sc.up["d1"] {
			return
		}
		sc.peerUpWith("d1")
		redispatch = true
	case evDown:
		n := sc.firstUp()
		if n == "" {
			return
		}
		sc.s.PeerDown(n)
		sc.up[n] = false
	case evToggleFail:
		sc.failing = !sc.failing
		sc.applyFailing()
		sc.s.Step("toggle_fail", fmt.Sprint(sc.failing))
	case evFailOne:
		if n := sc.firstUp(); n != "" {
			if sc.failOne == nil {
				sc.failOne = map[string]bool{}
			}
			sc.failOne[n] = !sc.failOne[n]
			sc.applyFailing()
			sc.s.Step("toggle_fail_first_peer", n)
		}
	case evTick:
		sc.s.Tick(10 * time.Second)
		redispatch = true
	case evClean:
		sc.s.Tick(10 * time.Minute)
		redispatch = true
	case evRestart:
		if err := sc.s.Restart(); err != nil {
			sc.violation("c05.restart-failed", "opening the node on its own store directory failed: "+err.Error())
			return
		}
		sc.up = map[string]bool{}
	}
	sc.check(stepBefore, redispatch)
}

func (sc *scenario) lastStepOr0() int {
	tr := sc.s.Trace()
	if len(tr) == 0 {
		return 0
	}
	return tr[len(tr)-1].Step
}

func (sc *scenario) check(stepFrom int, redispatch bool) {
	if sc.viol {
		return
	}
	for _, p := range sc.s.Problems() {
		sc.violation("c05.environment:"+p, p)
		return
	}
	sends := sc.s.SendsSince(stepFrom)
	// update the reference model with the outcomes of this step
	byPID := map[string]*mBundle{}
	for _, b := range sc.bundles {
		byPID[b.pid] = b
	}
	offered := map[string]map[string]bool{} // pid -> peer -> offered in this step
	for _, r := range sends {
		if r.ParseErr != "" {
			sc.violation("c05.emitted-unparseable", "node handed bytes to a convergence layer that its own parser rejects: "+r.ParseErr)
			return
		}
		b := byPID[r.PID]
		if b == nil {
			continue
		}
		if offered[r.PID] == nil {
			offered[r.PID] = map[string]bool{}
		}
		offered[r.PID][r.Peer] = true
		if r.OK {
			b.success++
			b.holders[r.Peer] = true
			if r.Peer == b.dest {
				b.directOK = true
			}
		}
	}
	pend, err := sc.s.Pending()
	if err != nil {
		sc.violation("c05.query-pending-failed", err.Error())
		return
	}
	pendPID := map[string]bool{}
	for _, it := range pend {
		for _, p := range it.PIDs {
			pendPID[p] = true
		}
	}
	upNow := []string{}
	for n, u := range sc.up {
		if u {
			upNow = append(upNow, n)
		}
	}
	sort.Strings(upNow)

	for _, b := range sc.bundles {
		if b.accepted == 0 || b.directOK {
			continue
		}
		kind := "local"
		if len(b.holders) > 0 && b.success == 0 {
			kind = "received"
		}
		if b.zero {
			kind = "zero-time"
		}
		// R1 retention: no convergence layer reported success yet => in the store, marked for retry
		if b.success == 0 {
			sc.r.Count("R1.retention_checked", 1)
			if !pendPID[b.pid] {
				twin := ""
				for _, o := range sc.bundles {
					if o != b && o.local && b.local && o.createdMs == b.createdMs && o.zero == b.zero {
						twin = ":same-creation-time-as-another-bundle"
					}
				}
				sc.violation("c05.R1.lost:"+kind+twin+":after-"+sc.hist[len(sc.hist)-1],
					fmt.Sprintf("bundle %s (%s) was accepted, is not expired, was never transmitted successfully, but is not in the store marked for retry", b.pid, kind))
				return
			}
		}
		newlyAccepted := b.accepted >= stepFrom
		if sc.r1Only {
			continue
		}
		// R2 direct delivery: destination node connected => transmitted to it in the step in which that became true
		if sc.up[b.dest] && (redispatch || newlyAccepted) {
			sc.r.Count("R2.direct_checked", 1)
			if !offered[b.pid][b.dest] {
				sc.violation("c05.R2.not-sent-to-destination:"+kind+":"+sc.hist[len(sc.hist)-1],
					fmt.Sprintf("bundle %s is retained and its destination node %s is connected, but it was not transmitted to it in this step", b.pid, b.dest))
				return
			}
		}
		// R3 epidemic: every connected peer that does not have it yet is offered the bundle
		if sc.epidemic && !sc.up[b.dest] && (redispatch || newlyAccepted) {
			for _, q := range upNow {
				if b.holders[q] {
					continue
				}
				sc.r.Count("R3.epidemic_offer_checked", 1)
				if !offered[b.pid][q] {
					sc.violation("c05.R3.not-offered:"+kind+":"+sc.hist[len(sc.hist)-1],
						fmt.Sprintf("epidemic: bundle %s is retained, peer %s is connected and does not have it, but it was not offered in this step", b.pid, q))
					return
				}
			}
		}
	}
}

func runHistory(r *report.Run, algo string, evs []int) (err error) {
	return bubble.Run(nil, func(t *testing.T) {
		s, e := nodesim.New(nodesim.Config{Routing: nodesim.RoutingConf(algo)})
		if e != nil {
			r.Violation("c05.open-failed", e.Error(), nil)
			return
		}
		defer s.Close()
		sc := &scenario{r: r, algo: algo, s: s, up: map[string]bool{}, epidemic: algo == "epidemic" || algo == "sensor-mule"}
		for _, ev := range evs {
			sc.apply(ev)
			if sc.viol {
				break
			}
		}
		if !sc.viol {
			waited := false
			for _, b := range sc.bundles {
				if b.success == 0 && b.accepted > 0 {
					waited = true
				}
			}
			if waited {
				r.Nontrivial(algo, fmt.Sprint(evs))
				r.Count("histories.with_waiting_bundle."+algo, 1)
			}
		}
	})
}

var algos = []string{"epidemic", "spray", "binary_spray", "prophet", "dtlsr", "sensor-mule"}

func TestCheck(t *testing.T) {
	bubble.Quiet()
	r := report.Start(t, "C05")
	defer r.Finish()
	bubble.WatchDeadlocks(3, func(frame, dump string) { r.DeadlockVerdict("c05", frame, dump) })
	bubble.SetT(t)

	if h := os.Getenv("VERIF_HIST"); h != "" { // debugging aid: VERIF_HIST=epidemic:submit,up_dest,...
		parts := strings.SplitN(h, ":", 2)
		var evs []int
		for _, n := range strings.Split(parts[1], ",") {
			for k, en := range evNames {
				if en == n {
					evs = append(evs, k)
				}
			}
		}
		err := bubble.Run(nil, func(t *testing.T) {
			s, _ := nodesim.New(nodesim.Config{Routing: nodesim.RoutingConf(parts[0])})
			defer s.Close()
			sc := &scenario{r: r, algo: parts[0], s: s, up: map[string]bool{}, epidemic: parts[0] == "epidemic" || parts[0] == "sensor-mule"}
			for _, ev := range evs {
				sc.apply(ev)
			}
			for _, l := range s.TraceStrings() {
				t.Log(l)
			}
			for _, x := range s.Sends() {
				t.Logf("send step=%d peer=%s pid=%s id=%s ok=%v", x.Step, x.Peer, x.PID, x.ID, x.OK)
			}
			p, _ := s.Pending()
			t.Logf("pending: %v viol=%v", p, sc.viol)
		})
		t.Log("err:", err)
		return
	}

	run := func(algo string, evs []int) {
		if err := runHistory(r, algo, evs); err != nil {
			names := make([]string, len(evs))
			for i, e := range evs {
				names[i] = evNames[e]
			}
			r.Violation("c05.node-deadlock-or-panic:"+errClass(err), err.Error(), map[string]interface{}{"algorithm": algo, "history": names})
		}
	}

	// bounded-exhaustive histories
	alpha := []int{evSubmit, evSubmitZero, evRx, evUpRelay, evUpDest, evDown, evToggleFail, evTick, evClean, evRestart}
	enumerate := func(group, algo string, depth int, prefix []int) {
		n := 1
		for i := 0; i < depth; i++ {
			n *= len(alpha)
		}
		r.Group(group, n, func(i int, rng *report.Rand) {
			evs := append([]int{}, prefix...)
			x := i
			for k := 0; k < depth; k++ {
				evs = append(evs, alpha[x%len(alpha)])
				x /= len(alpha)
			}
			// histories without any bundle cannot say anything
			has := false
			for _, e := range evs {
				if e == evSubmit || e == evSubmitZero || e == evRx || e == evSubmitTwin {
					has = true
				}
			}
			if !has {
				return
			}
			run(algo, evs)
		})
	}
	dEpi := r.Pick(3, 4)
	dOther := r.Pick(3, 3)
	if !r.Thorough() {
		// quick: depth 4 for epidemic only behind a submit (the interesting quarter of the space)
		enumerate("exh-epidemic-submit+3", "epidemic", 3, []int{evSubmit})
		enumerate("exh-epidemic-rx", "epidemic", 2, []int{evUpRelay, evRx})
		enumerate("exh-epidemic-twin", "epidemic", 2, []int{evSubmitTwin})
	} else {
		enumerate("exh-epidemic", "epidemic", dEpi, nil)
		enumerate("exh-epidemic-twin", "epidemic", 3, []int{evSubmitTwin})
	}
	for _, a := range algos[1:] {
		if r.Thorough() {
			enumerate("exh-"+a, a, dOther, nil)
		} else {
			enumerate("exh-"+a+"-submit+2", a, 2, []int{evSubmit})
			enumerate("exh-"+a+"-zero+2", a, 2, []int{evSubmitZero})
		}
	}
	r.Exhaustive("event histories up to the stated depth per algorithm")

	// random longer histories
	for _, a := range algos {
		a := a
		r.Group("random-"+a, r.Pick(60, 1500), func(i int, rng *report.Rand) {
			n := 5 + rng.Intn(21)
			evs := make([]int, n)
			for k := range evs {
				evs[k] = rng.Intn(nEvents)
				if evs[k] == evClean && rng.Chance(2, 3) {
					evs[k] = evTick
				}
			}
			run(a, evs)
			if i == 0 {
				names := make([]string, len(evs))
				for k, e := range evs {
					names[k] = evNames[e]
				}
				r.Sample(map[string]interface{}{"algorithm": a, "history": names})
			}
		})
	}

	// backlog: many bundles wait at once; when the destination / a relay appears every one of them is transmitted
	for _, a := range []string{"epidemic", "spray"} {
		a := a
		r.Group("backlog-"+a, r.Pick(6, 60), func(i int, rng *report.Rand) {
			err := bubble.Run(nil, func(t *testing.T) { backlog(r, a, 20+rng.Intn(100), i) })
			if err != nil {
				r.Violation("c05.node-deadlock-or-panic:"+errClass(err), err.Error(), map[string]interface{}{"algorithm": a, "workload": "backlog"})
			}
		})
	}

	// bursts: receptions, submissions and a peer appearance back to back, partly at the instant of the retry job
	for _, a := range []string{"epidemic", "spray", "prophet", "sensor-mule"} {
		a := a
		r.Group("burst-"+a, r.Pick(40, 300), func(i int, rng *report.Rand) {
			err := bubble.Run(nil, func(t *testing.T) { burst(r, a, i, rng) })
			if err != nil {
				r.Violation("c05.node-deadlock-or-panic:"+errClass(err), err.Error(), map[string]interface{}{"algorithm": a, "workload": "burst"})
			}
		})
	}

	// R6: two transmissions of one bundle fail at the same moment (lost-update interleaving forced at the hook)
	for _, a := range []string{"epidemic", "prophet", "spray", "sensor-mule"} {
		a := a
		r.Group("concurrent-failure-"+a, r.Pick(12, 120), func(i int, rng *report.Rand) {
			err := bubble.Run(nil, func(t *testing.T) { concurrentFailure(r, a, 2+i%7, rng) })
			if err != nil {
				r.Violation("c05.node-deadlock-or-panic:"+errClass(err), err.Error(), map[string]interface{}{"algorithm": a, "workload": "concurrent-failure"})
			}
		})
	}
}

func errClass(err error) string {
	s := err.Error()
	if i := strings.Index(s, "\n"); i > 0 {
		s = s[:i]
	}
	if len(s) > 80 {
		s = s[:80]
	}
	return s
}

// concurrentFailure: k peers are connected, their Sends are parked on a gate and released together with failures;
// the hook between read and write-back of the per-bundle bookkeeping holds the first arrival until a partner arrives.
func concurrentFailure(r *report.Run, algo string, k int, rng *report.Rand) {
	conf := nodesim.RoutingConf(algo)
	conf.SprayConf.Multiplicity = 12 // more copies than peers: every peer is offered the bundle
	s, err := nodesim.New(nodesim.Config{Routing: conf})
	if err != nil {
		r.Violation("c05.open-failed", err.Error(), nil)
		return
	}
	defer s.Close()
	hook := map[string]string{"epidemic": "routing.epidemic.reportfailure.rmw", "sensor-mule": "routing.epidemic.reportfailure.rmw",
		"prophet": "routing.prophet.reportfailure.rmw", "spray": "routing.spray.reportfailure.rmw"}[algo]
	var arrived int32
	var forced int32
	verifhook.Set(hook, func() {
		n := atomic.AddInt32(&arrived, 1)
		if n == 1 {
			for spin := 0; spin < 200000 && atomic.LoadInt32(&arrived) < 2; spin++ {
				runtime.Gosched()
			}
			if atomic.LoadInt32(&arrived) >= 2 {
				atomic.StoreInt32(&forced, 1)
			}
		}
	})
	defer verifhook.Set(hook, nil)

	gate := make(chan struct{})
	var names []string
	for i := 0; i < k; i++ {
		n := fmt.Sprintf("r%d", i+1)
		names = append(names, n)
		s.PeerUpWith(n, func(p *nodesim.Peer) { p.Fail(); p.Gate = gate })
	}
	if algo == "prophet" {
		// let the metadata bundles through first, and make the peers attractive for destination d1
		close(gate)
		s.Wait()
		for _, n := range names {
			s.Peer(n).Gate = nil
		}
		for _, n := range names {
			m := model.Bundle{Version: 7, CRC: 2, Dst: model.Dtn("node", ""), Src: model.Dtn(n, ""), Rpt: model.Dtn(n, ""), Flags: model.FNoFragment,
				Time: bubble.NowMs(), Seq: 1, Lifetime: 60000,
				Blocks: []model.Block{{Type: model.TProphet, Num: 2, Preds: []model.PeerPred{{Peer: model.Dtn("d1", "in"), Bits: 0x3fefffffffffffff}}},
					{Type: model.TPayload, Num: 1, Data: []byte{1}}}}
			wire, _ := m.Encode(nil)
			if err := s.Deliver(n, wire); err != nil {
				r.Count("harness.prophet_metadata_rejected", 1)
				return
			}
		}
		gate = make(chan struct{})
		for _, n := range names {
			s.Peer(n).Gate = gate
		}
	}
	b, _ := bpv7.Builder().CRC(bpv7.CRC32).Source("dtn://node/app").Destination("dtn://d1/in").CreationTimestampNow().Lifetime("24h").
		PayloadBlock(nodesim.Payload("cf", 4)).Build()
	step := s.Step("submit_gated", "cf")
	var wg sync.WaitGroup
	wg.Add(1)
	go func() { defer wg.Done(); s.Core.SendBundle(&b) }()
	s.Wait() // all sends are parked on the gate
	// R1 at this very instant: the bundle is accepted, no convergence layer has reported anything yet - it must be in
	// the persistent store, marked for retry (a node that dies now must find it again when it comes back)
	if pend, perr := s.Pending(); perr == nil {
		held := false
		for _, it := range pend {
			for _, p := range it.PIDs {
				if p == "cf" {
					held = true
				}
			}
		}
		r.Count("R1.checked_while_transmissions_under_way", 1)
		if !held {
			r.Violation("c05.R1.not-marked-for-retry-while-transmitting:"+algo,
				fmt.Sprintf("%s: %d transmissions of an accepted bundle are under way, none has reported a result yet, but the store does not list the bundle as pending", algo, k),
				map[string]interface{}{"algorithm": algo, "peers": names, "trace": s.TraceStrings()})
			close(gate)
			wg.Wait()
			s.Wait()
			return
		}
	}
	close(gate)
	wg.Wait()
	s.Wait()
	first := 0
	for _, rec := range s.SendsSince(step) {
		if rec.PID == "cf" {
			first++
		}
	}
	for _, n := range names {
		s.Peer(n).Gate = nil
	}
	stepTick := s.Step("retry_tick", "")
	s.Tick(10 * time.Second)
	again := map[string]bool{}
	for _, rec := range s.SendsSince(stepTick) {
		if rec.PID == "cf" {
			again[rec.Peer] = true
		}
	}
	r.Count("R6.simultaneous_failures", first)
	if atomic.LoadInt32(&forced) == 1 {
		r.Count("R6.interleaving_forced_at_hook."+algo, 1)
	} else {
		r.Count("R6.hook_serialised_by_lock."+algo, 1)
	}
	if first < 2 {
		r.Count("R6.fewer_than_two_parallel_sends."+algo, 1)
		return
	}
	r.Nontrivial("R6", algo, k, first)
	for _, n := range names {
		if !again[n] {
			r.Violation("c05.R6.peer-not-offered-again:"+algo,
				fmt.Sprintf("%s: %d transmissions of one bundle failed at the same moment; peer %s was not offered the bundle again at the next retry tick", algo, first, n),
				map[string]interface{}{"algorithm": algo, "peers": names, "trace": s.TraceStrings(), "sends": s.Sends()})
			return
		}
	}
}

// backlog: n bundles are submitted while nobody is connected; then a relay and later the destination node appear.
// Every waiting bundle is in the store marked for retry (R1), is offered to the relay when it appears (epidemic, R3) and
// transmitted to the destination when that appears (R2) - however many bundles wait.
func backlog(r *report.Run, algo string, n, idx int) {
	conf := nodesim.RoutingConf(algo)
	conf.SprayConf.Multiplicity = 4
	s, err := nodesim.New(nodesim.Config{Routing: conf})
	if err != nil {
		r.Violation("c05.open-failed", err.Error(), nil)
		return
	}
	defer s.Close()
	for i := 0; i < n; i++ {
		b, _ := bpv7.Builder().CRC(bpv7.CRC32).Source("dtn://node/app").Destination("dtn://d1/in").CreationTimestampNow().Lifetime("24h").
			PayloadBlock(nodesim.Payload(fmt.Sprintf("q%d", i), 4)).Build()
		s.Submit(b)
	}
	wit := func() interface{} {
		return map[string]interface{}{"algorithm": algo, "waiting_bundles": n, "trace_tail": s.TraceStrings()[max(0, len(s.TraceStrings())-6):]}
	}
	pend, perr := s.Pending()
	if perr != nil {
		r.Violation("c05.query-pending-failed", perr.Error(), wit())
		return
	}
	held := map[string]bool{}
	for _, it := range pend {
		for _, p := range it.PIDs {
			held[p] = true
		}
	}
	for i := 0; i < n; i++ {
		if !held[fmt.Sprintf("q%d", i)] {
			r.Violation("c05.R1.lost:backlog", fmt.Sprintf("%d bundles were submitted while nobody was connected; bundle %d is not listed as pending", n, i), wit())
			return
		}
	}
	r.Count("backlog.R1_checked", n)
	offered := func(peer string, from int) map[string]bool {
		m := map[string]bool{}
		for _, x := range s.SendsSince(from) {
			if x.Peer == peer {
				m[x.PID] = true
			}
		}
		return m
	}
	if algo == "epidemic" {
		step := s.PeerUp("r1")
		_ = step
		got := offered("r1", 0)
		for i := 0; i < n; i++ {
			r.Count("backlog.R3_checked", 1)
			if !got[fmt.Sprintf("q%d", i)] {
				r.Violation("c05.R3.not-offered:backlog", fmt.Sprintf("epidemic: %d bundles wait; relay r1 appeared but bundle %d was not offered to it", n, i), wit())
				return
			}
		}
	}
	s.PeerUp("d1")
	got := offered("d1", 0)
	for i := 0; i < n; i++ {
		r.Count("backlog.R2_checked", 1)
		if !got[fmt.Sprintf("q%d", i)] {
			r.Violation("c05.R2.not-sent-to-destination:backlog", fmt.Sprintf("%s: %d bundles wait for node d1; d1 appeared but bundle %d was not transmitted to it", algo, n, i), wit())
			return
		}
	}
	r.Count("backlog.scenarios", 1)
	r.Nontrivial("backlog", algo, n)
}
