package c06

import (
	"bytes"
	"fmt"
	"testing"
	"time"

	"github.com/dtn7/dtn7-go/pkg/bpv7"

	"verifh/internal/bubble"
	"verifh/internal/model"
	"verifh/internal/nodesim"
	"verifh/internal/report"
)

const nodeName = "node"

// spec describes one accepted bundle and what the harness knows about it.
type spec struct {
	m       model.Bundle
	wire    []byte
	pid     string
	rxMs    uint64 // virtual reception time
	local   bool
	refused string // "" or the cause for which it must never be transmitted
}

func encodeSpec(m model.Bundle) []byte {
	x, _ := m.Encode(nil)
	return x
}

// diff applies the faithful-copy oracle to one transmitted copy.
func diff(r *report.Run, sp *spec, rec nodesim.SendRec, algo string, attempt int, wit func() interface{}) bool {
	viol := func(sig, msg string) bool {
		r.Violation(sig, msg, wit())
		return false
	}
	if rec.ParseErr != "" {
		return viol("c06.sent-unparseable", "transmitted bytes are rejected by the parser: "+rec.ParseErr)
	}
	out := rec.Bundle
	if bad := out.Invalid(rec.AtMs); len(bad) > 0 {
		return viol("c06.sent-malformed:"+bad[0], fmt.Sprintf("transmitted bundle breaks %v", bad))
	}
	in := sp.m
	// primary block
	if sp.local {
		a, b := in, out
		a.Seq, b.Seq = 0, 0
		a.Blocks, b.Blocks = nil, nil
		if a.Canon() != b.Canon() {
			return viol("c06.primary-changed:local", "primary block of a locally originated bundle changed beyond the sequence number: "+a.Canon()+" -> "+b.Canon())
		}
	} else {
		bi, err1 := model.WalkBundle(sp.wire)
		bo, err2 := model.WalkBundle(rec.Bytes)
		if err1 != nil || err2 != nil || !bytes.Equal(sp.wire[bi[0].Start:bi[0].End], rec.Bytes[bo[0].Start:bo[0].End]) {
			return viol("c06.primary-changed", "primary block bytes differ from the accepted ones")
		}
	}
	if !bytes.Equal(in.Payload(), out.Payload()) {
		return viol("c06.payload-changed", "payload differs from the accepted one")
	}
	residence := rec.AtMs - sp.rxMs
	outByNum := map[uint64]model.Block{}
	for _, b := range out.Blocks {
		outByNum[b.Num] = b
	}
	seen := map[uint64]bool{}
	for _, ib := range in.Blocks {
		ob, ok := outByNum[ib.Num]
		seen[ib.Num] = true
		unknown := !model.Known(ib.Type)
		if unknown && ib.Flags&model.BRemove != 0 {
			if ok && ob.Type == ib.Type {
				return viol("c06.unsupported-block-not-removed", fmt.Sprintf("unsupported block type %d flagged for removal was transmitted", ib.Type))
			}
			continue
		}
		if !ok || ob.Type != ib.Type {
			return viol(fmt.Sprintf("c06.block-missing:type-%d", classType(ib.Type)), fmt.Sprintf("block number %d (type %d) is missing in the transmitted copy", ib.Num, ib.Type))
		}
		if ob.Flags != ib.Flags || ob.CRC != ib.CRC {
			return viol(fmt.Sprintf("c06.block-header-changed:type-%d", classType(ib.Type)), fmt.Sprintf("flags/CRC type of block %d changed", ib.Num))
		}
		switch ib.Type {
		case model.THopCount:
			r.Count("checked.hop_count", 1)
			if ob.Limit != ib.Limit || int(ob.Count) != int(ib.Count)+1 {
				cls := "first-attempt"
				if attempt > 0 {
					cls = "retry"
				}
				if ib.Count == 255 {
					cls = "count-255"
				}
				return viol("c06.hop-count:"+cls, fmt.Sprintf("hop count received %d/%d, transmitted %d/%d (attempt %d)", ib.Count, ib.Limit, ob.Count, ob.Limit, attempt))
			}
		case model.TPrevNode:
			r.Count("checked.previous_node", 1)
			if ob.Node != model.Dtn(nodeName, "") {
				return viol("c06.previous-node", "previous-node block does not name this node: "+ob.Node.String())
			}
		case model.TAge:
			r.Count("checked.age", 1)
			if ob.U != ib.U+residence {
				cls := "waited"
				if attempt > 0 {
					cls = "retry"
				}
				if residence == 0 {
					cls = "no-residence"
				}
				return viol("c06.age:"+cls, fmt.Sprintf("bundle age received %d ms, resided %d ms, transmitted age %d ms (expected %d)", ib.U, residence, ob.U, ib.U+residence))
			}
		default:
			ib2, ob2 := ib, ob
			if ib2.Canon() != ob2.Canon() {
				if ib.Type == model.TSpray && algo == "binary_spray" {
					continue // owned by the active algorithm
				}
				return viol(fmt.Sprintf("c06.block-changed:type-%d", classType(ib.Type)), fmt.Sprintf("block %d changed: %s -> %s", ib.Num, ib.Canon(), ob.Canon()))
			}
		}
	}
	hasPrev := false
	for _, ob := range out.Blocks {
		if ob.Type == model.TPrevNode {
			hasPrev = true
			if ob.Node != model.Dtn(nodeName, "") {
				return viol("c06.previous-node", "previous-node block does not name this node: "+ob.Node.String())
			}
		}
		if seen[ob.Num] {
			continue
		}
		switch {
		case ob.Type == model.TPrevNode:
		case ob.Type == model.TSpray && algo == "binary_spray":
		default:
			return viol(fmt.Sprintf("c06.block-added:type-%d", classType(ob.Type)), fmt.Sprintf("transmitted copy carries an extra block: %s", ob.Canon()))
		}
	}
	if !hasPrev {
		return viol("c06.previous-node-missing", "transmitted copy has no previous-node block")
	}
	r.Count("copies.faithful", 1)
	return true
}

func classType(t uint64) uint64 {
	if model.Known(t) {
		return t
	}
	return 999 // any unknown type
}

func knows(s *nodesim.Sim, m model.Bundle) bool {
	id := bpv7.BundleID{SourceNode: m.Src.ToBpv7(), Timestamp: bpv7.NewCreationTimestamp(bpv7.DtnTime(m.Time), m.Seq)}
	return s.Store().KnowsBundle(id)
}

var algosQuick = []string{"epidemic", "dtlsr"}
var algosAll = []string{"epidemic", "spray", "binary_spray", "prophet", "dtlsr", "sensor-mule"}

func conf(algo string) nodesim.Config {
	c := nodesim.Config{Routing: nodesim.RoutingConf(algo)}
	c.Routing.SprayConf.Multiplicity = 1000
	return c
}

// route prepares the node so that bundles for dtn://far/ are handed to relay r1 (where the algorithm needs state for that).
func route(s *nodesim.Sim, algo string) {
	switch algo {
	case "dtlsr":
		// r1 announces a link to far; after the recompute tick the table routes far via r1
		m := model.Bundle{Version: 7, CRC: 2, Flags: model.FNoFragment, Dst: model.Dtn("routing", "dtlsr/broadcast/"), Src: model.Dtn("r1", ""), Rpt: model.Dtn("r1", ""),
			Time: bubble.NowMs(), Seq: 1, Lifetime: 60000,
			Blocks: []model.Block{{Type: model.TDTLSR, Num: 2, Node: model.Dtn("r1", ""), U: bubble.NowMs(), Peers: []model.PeerTime{{Peer: model.Dtn("far", ""), Time: 0}}},
				{Type: model.TPayload, Num: 1, Data: []byte{1}}}}
		_ = s.Deliver("r1", encodeSpec(m))
		s.Tick(6 * time.Second)
	case "prophet":
		m := model.Bundle{Version: 7, CRC: 2, Flags: model.FNoFragment, Dst: model.Dtn(nodeName, ""), Src: model.Dtn("r1", ""), Rpt: model.Dtn("r1", ""),
			Time: bubble.NowMs(), Seq: 1, Lifetime: 60000,
			Blocks: []model.Block{{Type: model.TProphet, Num: 2, Preds: []model.PeerPred{{Peer: model.Dtn("far", ""), Bits: 0x3fefffffffffffff}}},
				{Type: model.TPayload, Num: 1, Data: []byte{1}}}}
		_ = s.Deliver("r1", encodeSpec(m))
	}
}

func rxBundle(pid string, seq uint64, now uint64, blocks []model.Block, timeMs, lifetime uint64) model.Bundle {
	// DTLSR and PRoPHET look the full destination EID up in tables keyed by node IDs: use the node ID form
	m := model.Bundle{Version: 7, CRC: 2, Dst: model.Dtn("far", ""), Src: model.Dtn("origin", "app"), Rpt: model.Dtn("origin", "app"),
		Time: timeMs, Seq: seq, Lifetime: lifetime}
	m.Blocks = append(m.Blocks, blocks...)
	m.Blocks = append(m.Blocks, model.Block{Type: model.TPayload, Num: 1, CRC: 1, Data: nodesim.Payload(pid, 5)})
	return m
}

// hopTriangle: long-lived node, relay connected; every (count, limit) pair of a slice of the 0..255 square.
func hopTriangle(r *report.Run, algo string, limits []int) {
	err := bubble.Run(nil, func(t *testing.T) {
		s, err := nodesim.New(conf(algo))
		if err != nil {
			r.Violation("c06.open-failed", err.Error(), nil)
			return
		}
		defer s.Close()
		s.PeerUp("src")
		s.PeerUp("r1")
		route(s, algo)
		seq := uint64(0)
		for _, limit := range limits {
			for count := 0; count <= limit; count++ {
				seq++
				pid := fmt.Sprintf("h%d-%d", limit, count)
				now := bubble.NowMs()
				m := rxBundle(pid, seq, now, []model.Block{{Type: model.THopCount, Num: 3, CRC: uint64(seq % 3), Limit: uint8(limit), Count: uint8(count)},
					{Type: model.TPrevNode, Num: 2, Node: model.Dtn("src", "")}}, now-1000, 86_400_000)
				if algo == "spray" {
					// plain spray-and-wait relays a foreign bundle to its destination only: the connected peer is the destination
					m.Dst = model.Dtn("r1", "")
				}
				sp := &spec{m: m, wire: encodeSpec(m), pid: pid, rxMs: now}
				step0 := len(s.Trace())
				if err := s.Deliver("src", sp.wire); err != nil {
					r.Count("harness.rx_rejected", 1)
					continue
				}
				r.Evals(1)
				var copies []nodesim.SendRec
				for _, rec := range s.SendsSince(step0 + 1) {
					if rec.PID == pid {
						copies = append(copies, rec)
					}
				}
				wit := func() interface{} {
					return map[string]interface{}{"algorithm": algo, "count": count, "limit": limit, "accepted": fmt.Sprintf("%x", sp.wire), "copies": copies}
				}
				if count+1 > limit {
					r.Count("hop.would_exceed", 1)
					if len(copies) > 0 {
						r.Violation("c06.hop-limit-exceeded-sent", fmt.Sprintf("bundle with hop count %d/%d was transmitted", count, limit), wit())
						return
					}
					if knows(s, m) {
						r.Violation("c06.hop-limit-exceeded-kept", fmt.Sprintf("bundle with hop count %d/%d stayed in the store", count, limit), wit())
						return
					}
					continue
				}
				if len(copies) == 0 {
					r.Violation("c06.hop-ok-not-sent:"+algo, fmt.Sprintf("bundle with hop count %d/%d was not forwarded to the connected relay", count, limit), wit())
					return
				}
				for _, rec := range copies {
					if !diff(r, sp, rec, algo, 0, wit) {
						return
					}
				}
				r.Nontrivial("hop", algo, count, limit)
			}
		}
	})
	if err != nil {
		r.Violation("c06.node-deadlock-or-panic", err.Error(), map[string]interface{}{"algorithm": algo, "workload": "hop-triangle"})
	}
}

type waitCase struct {
	hop, age, prev bool
	zero           bool
	residence      uint64 // ms the bundle waits before the first attempt
	lifeDelta      int    // lifetime ends lifeDelta ms relative to the n-th attempt (0 = far away)
	lifeAttempt    int    // which attempt the lifetime refers to
	local          bool
	unknown        int // 0 none, 1 plain, 2 remove flag, 3 delete flag
	dup            bool // the same bundle is received a second time (from another peer) half-way through the wait
}

// waiting: the bundle arrives while nobody is connected, waits `residence`, then the relay appears with failing sends
// (attempt 0) and three retry ticks follow (attempts 1..3).
func waiting(r *report.Run, algo string, c waitCase, idx int) {
	err := bubble.Run(nil, func(t *testing.T) {
		s, err := nodesim.New(conf(algo))
		if err != nil {
			r.Violation("c06.open-failed", err.Error(), nil)
			return
		}
		defer s.Close()
		s.PeerUp("src")
		pid := fmt.Sprintf("w%d", idx)
		now := bubble.NowMs()
		attemptAt := func(n int) uint64 { // virtual time of attempt n
			t := now + c.residence
			if n > 0 {
				// retry ticks fire on the node's own 10 s grid, which started at node creation (= now)
				first := (c.residence/10000 + 1) * 10000
				t = now + first + uint64(n-1)*10000
			}
			return t
		}
		var blocks []model.Block
		ageIn := uint64(700)
		if c.prev {
			blocks = append(blocks, model.Block{Type: model.TPrevNode, Num: 2, Node: model.Dtn("src", "")})
		}
		if c.hop {
			blocks = append(blocks, model.Block{Type: model.THopCount, Num: 5, Flags: model.BReplicate, Limit: 30, Count: 4})
		}
		if c.age || c.zero {
			blocks = append(blocks, model.Block{Type: model.TAge, Num: 7, CRC: 1, U: ageIn})
		}
		switch c.unknown {
		case 1:
			blocks = append(blocks, model.Block{Type: 222, Num: 9, Flags: model.BReplicate, Data: []byte("keep")})
		case 2:
			blocks = append(blocks, model.Block{Type: 223, Num: 9, Flags: model.BRemove, Data: []byte("remove")})
		case 3:
			blocks = append(blocks, model.Block{Type: 224, Num: 9, Flags: model.BDelete, Data: []byte("delete")})
		}
		timeMs, lifetime := now-2000, uint64(86_400_000)
		if c.zero {
			timeMs = 0
		}
		if c.lifeDelta != 0 {
			end := int64(attemptAt(c.lifeAttempt)) + int64(c.lifeDelta)
			if c.zero {
				// age-based: age at attempt = ageIn + (attempt - now)
				lifetime = uint64(int64(ageIn) + end - int64(now))
			} else {
				lifetime = uint64(end - int64(timeMs))
			}
		}
		m := rxBundle(pid, uint64(idx), now, blocks, timeMs, lifetime)
		sp := &spec{m: m, pid: pid, rxMs: now, local: c.local}
		if c.local {
			m.Src, m.Rpt = model.Dtn(nodeName, "app"), model.Dtn(nodeName, "app")
			// locally submitted bundles do not carry a previous-node block
			var nb []model.Block
			for _, b := range m.Blocks {
				if b.Type != model.TPrevNode {
					nb = append(nb, b)
				}
			}
			m.Blocks = nb
			sp.m = m
		}
		sp.wire = encodeSpec(sp.m)
		if c.unknown == 3 && !c.local {
			sp.refused = "unsupported block demands deletion"
		}
		if c.local {
			b, err := bpv7.ParseBundle(bytes.NewReader(sp.wire))
			if err != nil {
				r.Count("harness.local_unparseable", 1)
				return
			}
			s.Submit(b)
		} else if err := s.Deliver("src", sp.wire); err != nil {
			r.Count("harness.rx_rejected", 1)
			return
		}
		s.PeerDown("src")
		r.Evals(1)
		wit := func() interface{} {
			return map[string]interface{}{"algorithm": algo, "case": fmt.Sprintf("%+v", c), "accepted": fmt.Sprintf("%x", sp.wire), "trace": s.TraceStrings(), "sends": s.Sends()}
		}
		if c.dup && !c.local {
			// a duplicate reception must not change what the node knows about the first one
			half := c.residence / 2
			time.Sleep(time.Duration(half) * time.Millisecond)
			s.Wait()
			s.PeerUpWith("src2", func(p *nodesim.Peer) { p.Fail() })
			_ = s.Deliver("src2", sp.wire)
			s.PeerDown("src2")
			time.Sleep(time.Duration(c.residence-half) * time.Millisecond)
			s.Wait()
			r.Count("duplicate_receptions", 1)
		} else if c.residence > 0 {
			time.Sleep(time.Duration(c.residence) * time.Millisecond)
			s.Wait()
		}
		expectSent := func(n int) bool {
			if sp.refused != "" {
				return false
			}
			if c.lifeDelta != 0 && n >= c.lifeAttempt {
				if c.lifeDelta < 0 {
					return false
				}
				if n > c.lifeAttempt {
					return false // a later attempt lies >= 10 s after the end
				}
			}
			return true
		}
		for attempt := 0; attempt <= 3; attempt++ {
			step0 := len(s.Trace())
			if attempt == 0 {
				s.PeerUpWith("r1", func(p *nodesim.Peer) { p.Fail() })
				if algo == "dtlsr" || algo == "prophet" {
					route(s, algo)
				}
			} else {
				// sleep to the next point of the node's 10 s grid
				// stop 1 ms short of the grid point, open the step, then let the retry job fire
				target := attemptAt(attempt)
				if cur := bubble.NowMs(); target-1 > cur {
					time.Sleep(time.Duration(target-1-cur) * time.Millisecond)
				}
				s.Wait()
				s.Step("retry_tick", fmt.Sprint(attempt))
				time.Sleep(time.Millisecond)
				s.Wait()
			}
			var copies []nodesim.SendRec
			for _, rec := range s.SendsSince(step0 + 1) {
				if rec.PID == pid {
					copies = append(copies, rec)
				}
			}
			want := expectSent(attempt)
			if !want {
				if len(copies) > 0 {
					cls := "expired"
					if sp.refused != "" {
						cls = "refused"
					}
					if c.zero && cls == "expired" {
						cls = "expired-by-age"
					}
					r.Violation("c06.sent-although-"+cls, fmt.Sprintf("bundle was transmitted in attempt %d although it is %s", attempt, cls), wit())
					return
				}
				if sp.refused != "" && knows(s, sp.m) {
					r.Violation("c06.kept-although-refused", fmt.Sprintf("bundle is still in the store after attempt %d although it is refused for cause", attempt), wit())
					return
				}
				r.Count("not_sent.as_expected", 1)
				if attempt == 3 && sp.refused == "" {
					// an expired bundle is dropped by the dispatcher or, at the latest, by the next store-cleaning run
					s.Tick(10 * time.Minute)
					for _, rec := range s.Sends() {
						if rec.PID == pid && rec.AtMs > attemptAt(c.lifeAttempt) {
							r.Violation("c06.sent-although-expired", "bundle was transmitted after its lifetime had ended", wit())
							return
						}
					}
					if knows(s, sp.m) {
						cls := "by-time"
						if c.zero {
							cls = "by-age"
						}
						r.Violation("c06.kept-although-expired:"+cls, "expired bundle is still in the store after a store-cleaning run", wit())
						return
					}
					r.Count("expired.dropped_from_store", 1)
				}
				continue
			}
			if (algo == "dtlsr" || algo == "prophet" || algo == "spray" || algo == "binary_spray") && len(copies) == 0 {
				// these algorithms may legitimately decline (no route yet / no copies); not this property's business
				r.Count("no_copy."+algo, 1)
				continue
			}
			if len(copies) == 0 {
				r.Violation("c06.not-sent:"+algo, fmt.Sprintf("valid bundle was not offered to the connected relay in attempt %d", attempt), wit())
				return
			}
			for _, rec := range copies {
				if !diff(r, sp, rec, algo, attempt, wit) {
					return
				}
			}
			r.Count(fmt.Sprintf("attempt%d.copies_checked", attempt), len(copies))
		}
		r.Nontrivial("wait", algo, fmt.Sprintf("%+v", c))
	})
	if err != nil {
		r.Violation("c06.node-deadlock-or-panic", err.Error(), map[string]interface{}{"algorithm": algo, "case": fmt.Sprintf("%+v", c)})
	}
}

func TestCheck(t *testing.T) {
	bubble.Quiet()
	bubble.SetT(t)
	r := report.Start(t, "C06")
	defer r.Finish()
	bubble.WatchDeadlocks(3, func(frame, dump string) { r.DeadlockVerdict("c06", frame, dump) })

	algos := algosQuick
	if r.Thorough() {
		algos = algosAll
	}

	// full triangle 0 <= count <= limit <= 255, 8 limits per case
	for _, a := range algos {
		a := a
		r.Group("hop-"+a, 128, func(i int, rng *report.Rand) {
			// two limits per node (i and 255-i): every node handles 257 bundles
			limits := []int{i, 255 - i}

			hopTriangle(r, a, limits)
		})
	}
	r.Exhaustive("hop count x limit over 0 <= count <= limit <= 255")

	// waiting bundles
	var cases []waitCase
	for mask := 0; mask < 8; mask++ {
		for _, zero := range []bool{false, true} {
			for _, res := range []uint64{0, 1, 999, 1000, 5000} {
				cases = append(cases, waitCase{hop: mask&1 != 0, age: mask&2 != 0, prev: mask&4 != 0, zero: zero, residence: res})
			}
		}
	}
	for _, zero := range []bool{false, true} {
		for _, delta := range []int{-1, 1} {
			for att := 0; att <= 2; att++ {
				for _, res := range []uint64{0, 1500} {
					cases = append(cases, waitCase{hop: true, age: true, prev: true, zero: zero, residence: res, lifeDelta: delta, lifeAttempt: att})
				}
			}
		}
	}
	for unk := 1; unk <= 3; unk++ {
		cases = append(cases, waitCase{hop: true, prev: true, unknown: unk, residence: 300})
		cases = append(cases, waitCase{age: true, zero: true, unknown: unk})
	}
	for _, zero := range []bool{false, true} {
		for _, res := range []uint64{1000, 5000} {
			cases = append(cases, waitCase{hop: true, age: true, prev: true, zero: zero, residence: res, dup: true})
		}
		cases = append(cases, waitCase{age: true, zero: zero, residence: 4000, dup: true, lifeDelta: -1, lifeAttempt: 0})
	}
	for _, res := range []uint64{0, 2500} {
		cases = append(cases, waitCase{local: true, hop: true, age: true, residence: res})
		cases = append(cases, waitCase{local: true, zero: true, residence: res})
	}
	// received bundles with drawn block mixes (unordered block numbers, several unknown blocks, arbitrary CRC types)
	for _, a := range algos {
		a := a
		r.Group("mixed-"+a, r.Pick(120, 500), func(i int, rng *report.Rand) {
			mixed(r, a, i, rng)
		})
	}
	for _, a := range algos {
		a := a
		r.Group("wait-"+a, len(cases), func(i int, rng *report.Rand) {
			waiting(r, a, cases[i], i)
			if i == 3 {
				r.Sample(map[string]interface{}{"algorithm": a, "waiting_case": fmt.Sprintf("%+v", cases[i])})
			}
		})
	}
}
