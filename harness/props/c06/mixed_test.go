package c06

import (
	"fmt"
	"testing"
	"time"

	"verifh/internal/bubble"
	"verifh/internal/model"
	"verifh/internal/nodesim"
	"verifh/internal/report"
)

// genMix draws the extension blocks of a received bundle: any subset of {previous node, hop count, bundle age}, up to
// three unknown blocks with arbitrary processing flags (often "remove", several of them adjacent), distinct block
// numbers that are NOT ascending in wire order and cross the one-byte CBOR boundary, arbitrary CRC types - what another
// implementation may legitimately send. The second result is the cause for which the bundle must be refused ("" = none).
func genMix(rng *report.Rand, zero bool) (blocks []model.Block, refused string) {
	// block numbers: half of the bundles use the dense range 2..n+1 (in arbitrary order - the lowest free number then
	// depends on all blocks, not on the last one), the others sparse numbers incl. two-byte CBOR heads
	dense := rng.Bool()
	nums := rng.Perm(38)
	if dense {
		nums = rng.Perm(2 + rng.Intn(5))
	}
	next := 0
	num := func() uint64 {
		if next >= len(nums) {
			next++
			return uint64(100 + next)
		}
		n := uint64(nums[next] + 2)
		if !dense && rng.Chance(1, 6) {
			n += 200 // two-byte CBOR head
		}
		next++
		return n
	}
	crc := func() uint64 { return uint64(rng.Intn(3)) }
	if rng.Bool() {
		blocks = append(blocks, model.Block{Type: model.TPrevNode, Num: num(), CRC: crc(), Node: model.Dtn("src", "")})
	}
	if rng.Bool() {
		limit := 2 + rng.Intn(250)
		fl := uint64(0)
		if rng.Bool() {
			fl = model.BReplicate
		}
		blocks = append(blocks, model.Block{Type: model.THopCount, Num: num(), CRC: crc(), Flags: fl, Limit: uint8(limit), Count: uint8(rng.Intn(limit))})
	}
	if zero || rng.Bool() {
		blocks = append(blocks, model.Block{Type: model.TAge, Num: num(), CRC: crc(), U: uint64(rng.Intn(5000))})
	}
	nUnknown := rng.Intn(4)
	unknownAt := len(blocks)
	for k := 0; k < nUnknown; k++ {
		var fl uint64
		switch rng.Intn(12) {
		case 0, 1, 2, 3, 4, 5:
			fl = model.BRemove
		case 6:
			fl = model.BRemove | model.BReplicate
		case 7:
			fl = model.BReplicate
		case 8:
			fl = model.BReport
		case 9:
			fl = model.BDelete
			refused = "unsupported block demands deletion"
		}
		blocks = append(blocks, model.Block{Type: uint64(200 + 7*k + rng.Intn(7)), Num: num(), CRC: crc(), Flags: fl, Data: rng.Bytes(rng.Intn(30))})
	}
	// wire order: keep runs of unknown blocks adjacent half of the time, shuffle everything otherwise
	if rng.Bool() {
		p := rng.Perm(len(blocks))
		sh := make([]model.Block, len(blocks))
		for i, j := range p {
			sh[i] = blocks[j]
		}
		blocks = sh
	} else if unknownAt > 0 && rng.Bool() {
		// unknown run first
		blocks = append(append([]model.Block{}, blocks[unknownAt:]...), blocks[:unknownAt]...)
	}
	return
}

// mixed: one node receives several bundles with drawn block mixes while no relay is connected; they wait; the relay
// appears with failing transmissions (attempt 0, made from the reception state or from the store), the next retry tick
// succeeds (attempt 1, always made from the store). Every transmitted copy goes through the faithful-copy oracle.
func mixed(r *report.Run, algo string, idx int, rng *report.Rand) {
	err := bubble.Run(nil, func(t *testing.T) {
		s, err := nodesim.New(conf(algo))
		if err != nil {
			r.Violation("c06.open-failed", err.Error(), nil)
			return
		}
		defer s.Close()
		t0 := bubble.NowMs()
		s.PeerUp("src")
		direct := idx%3 == 0 // relay already connected at reception: first attempt without a stay in the store
		if direct {
			s.PeerUpWith("r1", func(p *nodesim.Peer) { p.Fail() })
			if algo == "dtlsr" || algo == "prophet" {
				route(s, algo)
			}
		}
		var specs []*spec
		for k := 0; k < 6; k++ {
			zero := rng.Chance(1, 4)
			blocks, refused := genMix(rng, zero)
			pid := fmt.Sprintf("m%d-%d", idx, k)
			now := bubble.NowMs()
			timeMs := now - 2000
			if zero {
				timeMs = 0
			}
			m := rxBundle(pid, uint64(1000*idx+k+1), now, blocks, timeMs, 86_400_000)
			m.CRC = uint64(1 + rng.Intn(2))
			sp := &spec{m: m, wire: encodeSpec(m), pid: pid, rxMs: now, refused: refused}
			if err := s.Deliver("src", sp.wire); err != nil {
				r.Count("harness.rx_rejected", 1)
				r.Note("mixed: generated bundle rejected: " + err.Error())
				continue
			}
			specs = append(specs, sp)
			r.Evals(1)
		}
		s.PeerDown("src")
		wit := func(sp *spec) func() interface{} {
			return func() interface{} {
				return map[string]interface{}{"algorithm": algo, "accepted": fmt.Sprintf("%x", sp.wire), "bundle": sp.m.Canon(), "trace": s.TraceStrings(), "sends": s.Sends()}
			}
		}
		residence := uint64(rng.Intn(6000))
		time.Sleep(time.Duration(residence) * time.Millisecond)
		s.Wait()
		judge := func(step0, attempt int) bool {
			byPID := map[string][]nodesim.SendRec{}
			for _, rec := range s.SendsSince(step0 + 1) {
				byPID[rec.PID] = append(byPID[rec.PID], rec)
			}
			for _, rec := range s.SendsSince(step0 + 1) {
				if rec.PID == "" && rec.ParseErr != "" {
					r.Violation("c06.sent-unparseable", "transmitted bytes are rejected by the parser: "+rec.ParseErr, wit(specs[0])())
					return false
				}
			}
			for _, sp := range specs {
				copies := byPID[sp.pid]
				if sp.refused != "" {
					if len(copies) > 0 {
						r.Violation("c06.sent-although-refused", "bundle with an unsupported block demanding deletion was transmitted", wit(sp)())
						return false
					}
					if knows(s, sp.m) {
						r.Violation("c06.kept-although-refused", "bundle is still in the store although it is refused for cause", wit(sp)())
						return false
					}
					r.Count("mixed.refused_as_expected", 1)
					continue
				}
				for _, rec := range copies {
					if !diff(r, sp, rec, algo, attempt, wit(sp)) {
						return false
					}
					r.Count(fmt.Sprintf("mixed.attempt%d.copies_checked", attempt), 1)
					if len(sp.m.Blocks) > 2 {
						asc := true
						for i := 1; i < len(sp.m.Blocks)-1; i++ {
							if sp.m.Blocks[i].Num < sp.m.Blocks[i-1].Num {
								asc = false
							}
						}
						if !asc {
							r.Count("mixed.copies_of_bundles_with_unordered_block_numbers", 1)
						}
					}
					nrm := 0
					for _, b := range sp.m.Blocks {
						if !model.Known(b.Type) && b.Flags&model.BRemove != 0 {
							nrm++
						}
					}
					if nrm >= 2 {
						r.Count("mixed.copies_of_bundles_with_several_blocks_to_remove", 1)
					}
				}
				if len(copies) == 0 && algo == "epidemic" {
					r.Violation("c06.not-sent:"+algo, fmt.Sprintf("valid bundle was not offered to the connected relay in attempt %d", attempt), wit(sp)())
					return false
				}
			}
			return true
		}
		// attempt 0
		step0 := len(s.Trace())
		if !direct {
			s.PeerUpWith("r1", func(p *nodesim.Peer) { p.Fail() })
			if algo == "dtlsr" || algo == "prophet" {
				route(s, algo)
			}
			if !judge(step0, 0) {
				return
			}
		} else if !judge(0, 0) {
			return
		}
		// attempt 1: next point of the node's 10 s retry grid, now succeeding
		if p := s.Peer("r1"); p != nil {
			p.OK()
		}
		cur := bubble.NowMs()
		target := t0 + ((cur-t0)/10000+1)*10000
		if target-1 > cur {
			time.Sleep(time.Duration(target-1-cur) * time.Millisecond)
		}
		s.Wait()
		step1 := len(s.Trace())
		s.Step("retry_tick", "1")
		time.Sleep(time.Millisecond)
		s.Wait()
		if !judge(step1, 1) {
			return
		}
		r.Nontrivial("mixed", algo, idx)
	})
	if err != nil {
		r.Violation("c06.node-deadlock-or-panic", err.Error(), map[string]interface{}{"algorithm": algo, "workload": "mixed", "index": idx})
	}
}
