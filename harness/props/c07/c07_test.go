package c07

import (
	"bytes"
	"encoding/base64"
	"encoding/json"
	"fmt"
	"net/http"
	"net/http/httptest"
	"sort"
	"strings"
	"sync"
	"sync/atomic"
	"testing"
	"runtime"
	"time"

	"github.com/gorilla/mux"

	"github.com/dtn7/dtn7-go/pkg/agent"
	"github.com/dtn7/dtn7-go/pkg/bpv7"
	"github.com/dtn7/dtn7-go/pkg/verifhook"

	"verifh/internal/bubble"
	"verifh/internal/model"
	"verifh/internal/nodesim"
	"verifh/internal/report"
)

// ---- REST client helper: handlers are invoked in-process (no sockets), so this works inside a bubble ----

type rest struct {
	router *mux.Router
	ra     *agent.RestAgent
}

func newRest() *rest {
	r := mux.NewRouter()
	return &rest{router: r, ra: agent.NewRestAgent(r)}
}

func (x *rest) post(path string, body interface{}) map[string]interface{} {
	b, _ := json.Marshal(body)
	req := httptest.NewRequest(http.MethodPost, path, bytes.NewReader(b))
	rec := httptest.NewRecorder()
	x.router.ServeHTTP(rec, req)
	var out map[string]interface{}
	_ = json.Unmarshal(rec.Body.Bytes(), &out)
	return out
}

func (x *rest) register(eid string) string {
	out := x.post("/register", map[string]string{"endpoint_id": eid})
	u, _ := out["uuid"].(string)
	return u
}

func (x *rest) unregister(uuid string) { x.post("/unregister", map[string]string{"uuid": uuid}) }

// fetch returns the payload ids of the fetched bundles.
func (x *rest) fetch(uuid string) []string {
	out := x.post("/fetch", map[string]string{"uuid": uuid})
	var pids []string
	bs, _ := out["bundles"].([]interface{})
	for _, b := range bs {
		bm, _ := b.(map[string]interface{})
		cbs, _ := bm["canonicalBlocks"].([]interface{})
		for _, cb := range cbs {
			cm, _ := cb.(map[string]interface{})
			if code, _ := cm["blockTypeCode"].(float64); code == 1 {
				if s, ok := cm["data"].(string); ok {
					raw, _ := base64.StdEncoding.DecodeString(s)
					pids = append(pids, nodesim.PIDOf(raw))
				}
			}
		}
	}
	return pids
}

// ---- recipients ----

type recipient struct {
	kind string // mock, ping, rest
	eid  string
	name string
	uuid string         // rest
	ag   *nodesim.Agent // mock
	got  []string       // rest: fetched pids
}

type world struct {
	r     *report.Run
	s     *nodesim.Sim
	rest  *rest
	recs  []*recipient
	n     int
	desc  []string
	viol  bool
}

func (w *world) violation(sig, msg string) {
	if w.viol {
		return
	}
	w.viol = true
	var sends []string
	for _, x := range w.s.Sends() {
		sends = append(sends, fmt.Sprintf("step=%d peer=%s pid=%s id=%s ok=%v", x.Step, x.Peer, x.PID, x.ID, x.OK))
	}
	var dels []string
	for _, d := range w.s.Deliveries() {
		dels = append(dels, fmt.Sprintf("step=%d agent=%s pid=%s", d.Step, d.Agent, d.PID))
	}
	w.r.Violation(sig, msg, map[string]interface{}{"setup": w.desc, "trace": w.s.TraceStrings(), "sends": sends, "agent_deliveries": dels})
}

func (w *world) add(kind, eid string) *recipient {
	w.n++
	rc := &recipient{kind: kind, eid: eid, name: fmt.Sprintf("%s%d", kind, w.n)}
	switch kind {
	case "mock":
		rc.ag = w.s.AddAgent(rc.name, eid)
	case "ping":
		w.s.Core.RegisterApplicationAgent(agent.NewPing(bpv7.MustNewEndpointID(eid)))
		w.s.Wait()
	case "rest":
		rc.uuid = w.rest.register(eid)
		if rc.uuid == "" {
			w.violation("c07.rest-register-failed", "REST registration returned no uuid for "+eid)
		}
	}
	w.desc = append(w.desc, fmt.Sprintf("register %s for %s", rc.name, eid))
	w.recs = append(w.recs, rc)
	return rc
}

func mkBundle(pid, dest string, seq uint64, flags uint64, rpt model.EID) []byte {
	m := model.Bundle{Version: 7, CRC: 2, Flags: flags, Dst: eidOf(dest), Src: model.Dtn("origin", "app"), Rpt: rpt,
		Time: bubble.NowMs() - 100, Seq: seq, Lifetime: 3_600_000,
		Blocks: []model.Block{{Type: model.TPrevNode, Num: 2, Node: model.Dtn("p", "")}, {Type: model.THopCount, Num: 3, Limit: 9, Count: 2},
			{Type: model.TPayload, Num: 1, CRC: 1, Data: nodesim.Payload(pid, 7)}}}
	w, _ := m.Encode(nil)
	return w
}

func eidOf(uri string) model.EID { return model.EIDFromBpv7(bpv7.MustNewEndpointID(uri)) }

// deliverAndCheck hands one bundle for dest to the node and checks who observed it.
func (w *world) deliverAndCheck(dest string, wantReport bool) {
	if w.viol {
		return
	}
	w.n++
	pid := fmt.Sprintf("L%d", w.n)
	flags := uint64(0)
	rpt := model.Dtn("origin", "app")
	if wantReport {
		flags = model.FReqDeliv
		rpt = model.Dtn("rpt", "x")
	}
	wire := mkBundle(pid, dest, uint64(w.n), flags, rpt)
	accepted, _ := bpv7.ParseBundle(bytes.NewReader(wire))
	acceptedCanon := model.FromBpv7(accepted).Canon()
	w.desc = append(w.desc, fmt.Sprintf("deliver %s to %s", pid, dest))
	stepBefore := len(w.s.Trace()) + 1
	if err := w.s.Deliver("p", wire); err != nil {
		w.r.Count("harness.rx_rejected", 1)
		return
	}
	w.s.Tick(time.Second)
	w.r.Evals(1)

	var members []*recipient
	for _, rc := range w.recs {
		if rc.eid == dest {
			members = append(members, rc)
		}
	}
	nodeLocal := strings.HasPrefix(dest, "dtn://node/")
	// mock agents: exactly once for members, never for others, identical content
	count := map[string]int{}
	for _, d := range w.s.Deliveries() {
		if d.PID == pid {
			count[d.Agent]++
			if d.Bundle.Canon() != acceptedCanon {
				w.violation("c07.content-changed", fmt.Sprintf("agent %s received %s with changed content", d.Agent, pid))
				return
			}
		}
	}
	pongs := 0
	for _, x := range w.s.SendsSince(stepBefore) {
		if x.Bundle.Src == eidOf(dest) && string(x.Bundle.Payload()) == "pong" {
			pongs++ // epidemic copies: count distinct IDs below
		}
	}
	pongIDs := map[string]bool{}
	for _, x := range w.s.SendsSince(stepBefore) {
		if string(x.Bundle.Payload()) == "pong" {
			pongIDs[x.ID] = true
		}
	}
	for _, rc := range w.recs {
		member := rc.eid == dest
		switch rc.kind {
		case "mock":
			w.r.Count("observations.mock_agents", 1)
			if member && count[rc.name] != 1 {
				w.violation(fmt.Sprintf("c07.mock-agent-count:%d", min(count[rc.name], 2)), fmt.Sprintf("agent %s is registered for %s but observed bundle %s %d times", rc.name, dest, pid, count[rc.name]))
				return
			}
			if !member && count[rc.name] != 0 {
				w.violation("c07.delivered-to-wrong-agent", fmt.Sprintf("agent %s (registered for %s) observed bundle %s for %s", rc.name, rc.eid, pid, dest))
				return
			}
		case "rest":
			w.r.Count("observations.rest_clients", 1)
			got := w.rest.fetch(rc.uuid)
			n := 0
			for _, g := range got {
				if g == pid {
					n++
				}
			}
			if member && n != 1 {
				cls := "first-registered"
				for _, o := range w.recs {
					if o.kind == "rest" && o != rc {
						cls = "several-rest-clients"
					}
				}
				w.violation(fmt.Sprintf("c07.rest-client-count:%d:%s", min(n, 2), cls), fmt.Sprintf("REST client %s is registered for %s but fetched bundle %s %d times", rc.name, dest, pid, n))
				return
			}
			if !member && n != 0 {
				w.violation("c07.delivered-to-wrong-rest-client", fmt.Sprintf("REST client %s (registered for %s) fetched bundle %s for %s", rc.name, rc.eid, pid, dest))
				return
			}
			if len(got) != n {
				w.violation("c07.rest-fetch-stale", fmt.Sprintf("REST client %s fetched %v when only %s could be new", rc.name, got, pid))
				return
			}
		case "ping":
			if member {
				w.r.Count("observations.ping_agents", 1)
			}
		}
	}
	// ping agents registered for dest answer once each
	nPing := 0
	for _, rc := range members {
		if rc.kind == "ping" {
			nPing++
		}
	}
	if nPing > 0 && len(pongIDs) != nPing {
		w.violation("c07.ping-agent-count", fmt.Sprintf("%d ping agents are registered for %s, %d distinct pongs were produced for one bundle", nPing, dest, len(pongIDs)))
		return
	}
	// not transmitted to peers when somebody is registered (or the endpoint belongs to this node)
	for _, x := range w.s.SendsSince(stepBefore) {
		if x.PID == pid && (len(members) > 0 || nodeLocal) {
			w.violation("c07.local-bundle-transmitted", fmt.Sprintf("bundle %s for the locally registered endpoint %s was transmitted to peer %s", pid, dest, x.Peer))
			return
		}
	}
	// a delivery report only after a hand-over
	if wantReport {
		reported := false
		for _, x := range w.s.SendsSince(stepBefore) {
			if x.Bundle.Flags&model.FAdminRecord != 0 {
				if ar, err := bpv7.NewAdministrativeRecordFromCbor(x.Bundle.Payload()); err == nil {
					if sr, ok := ar.(*bpv7.StatusReport); ok && len(sr.StatusInformation) > 2 && sr.StatusInformation[2].Asserted {
						reported = true
					}
				}
			}
		}
		if reported && len(members) == 0 {
			w.violation("c07.delivery-reported-without-handover", fmt.Sprintf("bundle %s for %s was reported as delivered although no agent or client is registered for that endpoint", pid, dest))
			return
		}
		if reported {
			w.r.Count("observations.delivery_reports_after_handover", 1)
		}
	}
	// retention constraint is only dropped after a hand-over
	if nodeLocal && len(members) == 0 {
		id := accepted.ID()
		if !w.s.Store().KnowsBundle(id) {
			w.violation("c07.dropped-without-handover", fmt.Sprintf("bundle %s for %s was removed from the store although nobody received it", pid, dest))
			return
		}
		w.r.Count("observations.kept_without_recipient", 1)
	}
	if len(members) > 0 {
		w.r.Count("observations.deliveries_with_recipients", 1)
	}
}

func newWorld(r *report.Run) (*world, error) {
	s, err := nodesim.New(nodesim.Config{Routing: nodesim.RoutingConf("epidemic")})
	if err != nil {
		return nil, err
	}
	w := &world{r: r, s: s, rest: newRest()}
	s.Core.RegisterApplicationAgent(w.rest.ra)
	s.Wait()
	s.PeerUp("p")
	return w, nil
}

var endpoints = []string{"dtn://node/a", "dtn://node/b", "dtn://group/~news"}

// configCase: a multiset of recipients in one registration order; one bundle per endpoint (+ an endpoint nobody has).
func configCase(r *report.Run, regs [][2]string) error {
	return bubble.Run(nil, func(t *testing.T) {
		w, err := newWorld(r)
		if err != nil {
			r.Violation("c07.open-failed", err.Error(), nil)
			return
		}
		defer w.s.Close()
		for _, rg := range regs {
			w.add(rg[0], rg[1])
		}
		// two endpoints nobody has registered: some application endpoint of this node, and the bare node ID itself
		for i, e := range append(append([]string{}, endpoints...), "dtn://node/nobody", "dtn://node/") {
			w.deliverAndCheck(e, i%2 == 0)
			// the same endpoint again: once per accepted copy
			if i == 0 {
				w.deliverAndCheck(e, false)
			}
		}
		if !w.viol {
			r.Nontrivial("config", fmt.Sprint(regs))
			r.Count("configurations", 1)
		}
	})
}

// sequenceCase: random register / unregister / deliver / fetch with REST conservation.
func sequenceCase(r *report.Run, rng *report.Rand, steps int) error {
	return bubble.Run(nil, func(t *testing.T) {
		w, err := newWorld(r)
		if err != nil {
			return
		}
		defer w.s.Close()
		type client struct {
			uuid, eid string
			expect    []string // delivered to its mailbox, not fetched yet
		}
		var clients []*client
		w.add("mock", endpoints[0])
		for i := 0; i < steps && !w.viol; i++ {
			switch k := rng.Intn(10); {
			case k < 2 && len(clients) < 5:
				e := endpoints[rng.Intn(len(endpoints))]
				c := &client{uuid: w.rest.register(e), eid: e}
				clients = append(clients, c)
				w.desc = append(w.desc, "rest register "+e)
			case k < 3 && len(clients) > 0:
				j := rng.Intn(len(clients))
				w.rest.unregister(clients[j].uuid)
				w.desc = append(w.desc, "rest unregister "+clients[j].eid)
				clients = append(clients[:j], clients[j+1:]...)
			case k < 7:
				e := endpoints[rng.Intn(len(endpoints))]
				w.n++
				pid := fmt.Sprintf("Q%d", w.n)
				any := e == endpoints[0]
				for _, c := range clients {
					if c.eid == e {
						any = true
					}
				}
				if !any {
					continue // nobody registered: the bundle would be forwarded, not this workload's business
				}
				if err := w.s.Deliver("p", mkBundle(pid, e, uint64(w.n), 0, model.Dtn("origin", "app"))); err != nil {
					continue
				}
				w.desc = append(w.desc, fmt.Sprintf("deliver %s to %s", pid, e))
				for _, c := range clients {
					if c.eid == e {
						c.expect = append(c.expect, pid)
					}
				}
				w.r.Count("sequence.deliveries", 1)
			default:
				if len(clients) == 0 {
					continue
				}
				c := clients[rng.Intn(len(clients))]
				got := w.rest.fetch(c.uuid)
				w.desc = append(w.desc, fmt.Sprintf("fetch %s -> %v", c.eid, got))
				a, b := append([]string{}, got...), append([]string{}, c.expect...)
				sort.Strings(a)
				sort.Strings(b)
				w.r.Count("sequence.fetches", 1)
				if fmt.Sprint(a) != fmt.Sprint(b) {
					cls := "missing"
					if len(a) > len(b) {
						cls = "surplus"
					}
					w.violation("c07.rest-conservation:"+cls, fmt.Sprintf("REST client for %s fetched %v, its mailbox should hold %v", c.eid, got, c.expect))
					return
				}
				c.expect = nil
			}
		}
		if !w.viol {
			r.Nontrivial("sequence", fmt.Sprint(w.desc))
		}
	})
}

// interleaved: a delivery is forced between the read and the clearing of a mailbox inside /fetch, and a fetch is
// forced between the read and the write-back of a mailbox inside the delivery.
func interleaved(r *report.Run, which int) error {
	return bubble.Run(nil, func(t *testing.T) {
		w, err := newWorld(r)
		if err != nil {
			return
		}
		defer w.s.Close()
		defer verifhook.Reset()
		e := endpoints[0]
		uuid := w.rest.register(e)
		w.desc = append(w.desc, "rest register "+e)
		_ = w.s.Deliver("p", mkBundle("I1", e, 1, 0, model.Dtn("origin", "app")))
		var fetched []string
		if which == 0 {
			w.desc = append(w.desc, "deliver I1", "fetch; while it holds the old mailbox content, I2 is delivered", "fetch again")
			fired := false
			verifhook.Set("agent.rest.fetch.rmw", func() {
				if fired {
					return
				}
				fired = true
				b, _ := bpv7.ParseBundle(bytes.NewReader(mkBundle("I2", e, 2, 0, model.Dtn("origin", "app"))))
				before := verifhook.Hits("agent.rest.recv.rmw")
				w.s.Peer("p").Inject(&b)
				// let the delivery run inside the window; if the code excludes it (lock), the bounded wait just ends
				for i := 0; i < 200000 && verifhook.Hits("agent.rest.recv.rmw") == before; i++ {
					runtime.Gosched()
				}
				if verifhook.Hits("agent.rest.recv.rmw") > before {
					for i := 0; i < 20000; i++ { // the store of the mailbox follows the hook immediately
						runtime.Gosched()
					}
					r.Count("interleavings.delivery_ran_inside_fetch", 1)
				} else {
					r.Count("interleavings.delivery_excluded_by_lock", 1)
				}
			})
			fetched = append(fetched, w.rest.fetch(uuid)...)
			r.Count("interleavings.delivery_inside_fetch", int(verifhook.Hits("agent.rest.fetch.rmw")))
			verifhook.Set("agent.rest.fetch.rmw", nil)
			w.s.Wait()
			fetched = append(fetched, w.rest.fetch(uuid)...)
		} else {
			w.desc = append(w.desc, "deliver I1", "deliver I2; while the delivery holds the old mailbox content, the client fetches", "fetch again")
			req, done := make(chan struct{}), make(chan struct{})
			fired := false
			verifhook.Set("agent.rest.recv.rmw", func() {
				if fired {
					return
				}
				fired = true
				req <- struct{}{}
				<-done
			})
			b, _ := bpv7.ParseBundle(bytes.NewReader(mkBundle("I2", e, 2, 0, model.Dtn("origin", "app"))))
			w.s.Peer("p").Inject(&b)
			<-req
			fd := make(chan []string, 1)
			go func() { fd <- w.rest.fetch(uuid) }()
			inside := false
			for i := 0; i < 200000 && !inside; i++ {
				select {
				case got := <-fd:
					fetched = append(fetched, got...)
					inside = true
				default:
					runtime.Gosched()
				}
			}
			close(done)
			if inside {
				r.Count("interleavings.fetch_ran_inside_delivery", 1)
			} else {
				fetched = append(fetched, <-fd...)
				r.Count("interleavings.fetch_excluded_by_lock", 1)
			}
			r.Count("interleavings.fetch_inside_delivery", 1)
			w.s.Wait()
			verifhook.Set("agent.rest.recv.rmw", nil)
			fetched = append(fetched, w.rest.fetch(uuid)...)
		}
		sort.Strings(fetched)
		if fmt.Sprint(fetched) != "[I1 I2]" {
			cls := "lost"
			if len(fetched) > 2 {
				cls = "duplicated"
			}
			w.violation(fmt.Sprintf("c07.rest-interleaving:%s:%s", []string{"delivery-inside-fetch", "fetch-inside-delivery"}[which], cls),
				fmt.Sprintf("bundles I1 and I2 were put into the client's mailbox; its fetches together returned %v", fetched))
			return
		}
		r.Nontrivial("interleaved", which)
	})
}

// burst: k bundles for an endpoint served by replying agents (ping) arrive back to back; every one must be handed
// over and answered. (The reply path re-enters the agent manager while the next bundle is being handed over.)
func burst(r *report.Run, k int, idx int) error {
	return bubble.Run(nil, func(t *testing.T) {
		w, err := newWorld(r)
		if err != nil {
			return
		}
		defer w.s.Close()
		w.add("ping", "dtn://node/ping")
		mk := w.add("mock", "dtn://node/a")
		_ = mk
		// transmitting a reply takes the node noticeably longer than accepting the next bundle (slow links)
		slow := func(q *nodesim.Peer) {
			q.Outcome = func(*bpv7.Bundle, *nodesim.SendRec) error {
				x := uint64(1)
				for i := 0; i < 30_000_000; i++ {
					x = x*6364136223846793005 + 1442695040888963407
				}
				spinSink.Store(x)
				return nil
			}
		}
		slow(w.s.Peer("p"))
		p := w.s.Peer("p")
		w.s.Step("burst", fmt.Sprint(k))
		for i := 0; i < k; i++ {
			dest := "dtn://node/ping"
			if i%5 == 4 {
				dest = "dtn://node/a"
			}
			m := model.Bundle{Version: 7, CRC: 2, Dst: eidOf(dest), Src: model.Dtn("origin", "app"), Rpt: model.Dtn("pinger", fmt.Sprintf("x%d", i)),
				Time: bubble.NowMs() - 100, Seq: uint64(5000 + i), Lifetime: 3_600_000,
				Blocks: []model.Block{{Type: model.TPayload, Num: 1, Data: nodesim.Payload(fmt.Sprintf("B%d-%d", idx, i), 3)}}}
			wire, _ := m.Encode(nil)
			b, _ := bpv7.ParseBundle(bytes.NewReader(wire))
			p.Inject(&b)
		}
		w.s.Tick(time.Second)
		pongs := map[string]bool{}
		for _, x := range w.s.Sends() {
			if string(x.Bundle.Payload()) == "pong" {
				pongs[x.Bundle.Dst.String()] = true
			}
		}
		wantPongs, wantMock := 0, 0
		for i := 0; i < k; i++ {
			if i%5 == 4 {
				wantMock++
			} else {
				wantPongs++
			}
		}
		gotMock := 0
		for _, d := range w.s.Deliveries() {
			if strings.HasPrefix(d.PID, fmt.Sprintf("B%d-", idx)) {
				gotMock++
			}
		}
		r.Count("burst.bundles", k)
		if len(pongs) != wantPongs || gotMock != wantMock {
			w.violation("c07.burst-not-delivered", fmt.Sprintf("%d bundles arrived back to back: %d of %d were answered by the ping agent, %d of %d reached the mock agent", k, len(pongs), wantPongs, gotMock, wantMock))
			return
		}
		r.Nontrivial("burst", k, idx)
	})
}

var spinSink atomic.Uint64

// stress: concurrent deliveries and fetches on few mailboxes; conservation at the end.
func stress(r *report.Run, rng *report.Rand, nBundles int) error {
	return bubble.Run(nil, func(t *testing.T) {
		w, err := newWorld(r)
		if err != nil {
			return
		}
		defer w.s.Close()
		e := endpoints[0]
		uuids := []string{w.rest.register(e), w.rest.register(e)}
		var mu sync.Mutex
		got := map[string]map[string]int{uuids[0]: {}, uuids[1]: {}}
		stop := make(chan struct{})
		var wg sync.WaitGroup
		for f := 0; f < 4; f++ {
			wg.Add(1)
			go func(f int) {
				defer wg.Done()
				u := uuids[f%2]
				for {
					select {
					case <-stop:
						return
					default:
					}
					pids := w.rest.fetch(u)
					mu.Lock()
					for _, p := range pids {
						got[u][p]++
					}
					mu.Unlock()
					time.Sleep(time.Millisecond)
				}
			}(f)
		}
		p := w.s.Peer("p")
		for i := 0; i < nBundles; i++ {
			b, _ := bpv7.ParseBundle(bytes.NewReader(mkBundle(fmt.Sprintf("S%d", i), e, uint64(i+1), 0, model.Dtn("origin", "app"))))
			p.Inject(&b)
			if i%8 == 7 {
				time.Sleep(time.Millisecond)
			}
		}
		time.Sleep(100 * time.Millisecond)
		close(stop)
		wg.Wait()
		w.s.Wait()
		for _, u := range uuids {
			for _, pid := range w.rest.fetch(u) {
				got[u][pid]++
			}
		}
		r.Count("stress.bundles", nBundles)
		for _, u := range uuids {
			for i := 0; i < nBundles; i++ {
				pid := fmt.Sprintf("S%d", i)
				if n := got[u][pid]; n != 1 {
					cls := "lost"
					if n > 1 {
						cls = "duplicated"
					}
					r.Violation("c07.rest-stress:"+cls, fmt.Sprintf("under concurrent delivery and fetch a client obtained bundle %s %d times", pid, n),
						map[string]interface{}{"bundles": nBundles})
					return
				}
			}
		}
		r.Nontrivial("stress", nBundles, rng.Uint64())
	})
}

func TestCheck(t *testing.T) {
	bubble.Quiet()
	bubble.SetT(t)
	r := report.Start(t, "C07")
	defer r.Finish()
	bubble.WatchDeadlocks(3, func(frame, dump string) { r.DeadlockVerdict("c07", frame, dump) })

	fail := func(err error, what interface{}) {
		if err != nil {
			r.Violation("c07.node-deadlock-or-panic", err.Error(), what)
		}
	}

	// every multiset of up to k recipients over kinds x endpoints, in every registration order
	kinds := []string{"mock", "ping", "rest"}
	var opts [][2]string
	for _, k := range kinds {
		for _, e := range endpoints[:2] {
			opts = append(opts, [2]string{k, e})
		}
	}
	opts = append(opts, [2]string{"rest", endpoints[2]}, [2]string{"mock", endpoints[2]})
	var configs [][][2]string
	maxK := r.Pick(3, 4)
	var rec func(cur [][2]string)
	rec = func(cur [][2]string) {
		configs = append(configs, append([][2]string{}, cur...))
		if len(cur) == maxK {
			return
		}
		for _, o := range opts {
			rec(append(cur, o))
		}
	}
	rec(nil)
	r.Group("configurations", len(configs), func(i int, rng *report.Rand) {
		fail(configCase(r, configs[i]), configs[i])
		if i == 100 {
			r.Sample(map[string]interface{}{"registration_order": configs[i]})
		}
	})
	r.Exhaustive(fmt.Sprintf("all registration sequences of up to %d recipients over {mock, ping, REST} x endpoints", maxK))

	r.Group("sequences", r.Pick(400, 8000), func(i int, rng *report.Rand) {
		fail(sequenceCase(r, rng, 40+rng.Intn(60)), "sequence")
	})
	r.Group("interleaved", 2*r.Pick(3, 20), func(i int, rng *report.Rand) {
		fail(interleaved(r, i%2), i%2)
	})
	r.Group("burst", r.Pick(48, 800), func(i int, rng *report.Rand) {
		fail(burst(r, 3+i%10, i), "burst")
	})
	muxGroups(r)

	r.Group("stress", r.Pick(16, 64), func(i int, rng *report.Rand) {
		fail(stress(r, rng, r.Pick(250, 2000)), "stress")
	})

	// real WebSocket clients: 0..3 clients per endpoint
	var wsConfigs [][]int
	for a := 0; a <= 3; a++ {
		for b := 0; b <= 3; b++ {
			wsConfigs = append(wsConfigs, []int{a, b, (a + b) % 2})
		}
	}
	r.Group("websocket", len(wsConfigs)*r.Pick(1, 10), func(i int, rng *report.Rand) {
		if msg := wsCase(r, wsConfigs[i%len(wsConfigs)], r.Pick(30, 300), i); msg != "" {
			r.Count("ws.inconclusive", 1)
			t.Errorf("inconclusive: %s", msg)
		}
	})
}
