package c07

// Hand-over while another recipient leaves: the multiplexer in front of all application agents hands a bundle to its
// children one after the other; one of them is slow to take it, and while the hand-over waits another child leaves
// (agent shutdown, WebSocket client disconnect). Every remaining child registered for the endpoint must get the bundle
// exactly once, the others not at all, nothing may panic. Real time only shapes the schedule (pauses of a few
// milliseconds); the verdict is a count.

import (
	"fmt"
	"sync"
	"time"

	"github.com/dtn7/dtn7-go/pkg/agent"
	"github.com/dtn7/dtn7-go/pkg/bpv7"

	"verifh/internal/nodesim"
	"verifh/internal/report"
)

type muxChild struct {
	name string
	eids []bpv7.EndpointID
	rx   chan agent.Message
	tx   chan agent.Message
	gate chan struct{} // closed = may read

	mu    sync.Mutex
	got   []string
	done  chan struct{}
	leave sync.Once
}

// Leave closes the child's sender channel (once): the multiplexer unregisters it and closes its receiver channel.
func (c *muxChild) Leave() { c.leave.Do(func() { close(c.tx) }) }

func (c *muxChild) Endpoints() []bpv7.EndpointID        { return c.eids }
func (c *muxChild) MessageReceiver() chan agent.Message { return c.rx }
func (c *muxChild) MessageSender() chan agent.Message   { return c.tx }

func (c *muxChild) loop() {
	defer close(c.done)
	<-c.gate
	for msg := range c.rx {
		if _, ok := msg.(agent.ShutdownMessage); ok {
			c.Leave()
		}
		if bm, ok := msg.(agent.BundleMessage); ok {
			pb, _ := bm.Bundle.PayloadBlock()
			pid := ""
			if pb != nil {
				pid = nodesim.PIDOf(pb.Value.(*bpv7.PayloadBlock).Data())
			}
			c.mu.Lock()
			c.got = append(c.got, pid)
			c.mu.Unlock()
		}
	}
}

func (c *muxChild) count(pid string) int {
	c.mu.Lock()
	defer c.mu.Unlock()
	n := 0
	for _, g := range c.got {
		if g == pid {
			n++
		}
	}
	return n
}

// muxLeaveCase: n children; child `slow` takes the bundle late, child `leaver` leaves while the hand-over waits.
func muxLeaveCase(r *report.Run, idx int, n, slow, leaver int, member []bool) {
	e := bpv7.MustNewEndpointID("dtn://node/muxed")
	other := bpv7.MustNewEndpointID("dtn://node/other")
	mux := agent.NewMuxAgent()
	go func() {
		for range mux.MessageSender() {
		}
	}()
	var cs []*muxChild
	for i := 0; i < n; i++ {
		c := &muxChild{name: fmt.Sprintf("child%d", i), rx: make(chan agent.Message), tx: make(chan agent.Message), gate: make(chan struct{}), done: make(chan struct{})}
		if member[i] {
			c.eids = []bpv7.EndpointID{e}
		} else {
			c.eids = []bpv7.EndpointID{other}
		}
		if i != slow {
			close(c.gate)
		}
		go c.loop()
		mux.Register(c)
		cs = append(cs, c)
	}
	pid := fmt.Sprintf("mux%d", idx)
	b, err := bpv7.Builder().CRC(bpv7.CRC32).Source("dtn://origin/app").Destination(e.String()).CreationTimestampNow().Lifetime("1h").
		PayloadBlock(nodesim.Payload(pid, 3)).Build()
	if err != nil {
		panic(err)
	}
	handed := make(chan struct{})
	go func() {
		mux.MessageReceiver() <- agent.BundleMessage{Bundle: b}
		// a second message marks the end of the first hand-over (the multiplexer takes one message at a time)
		mux.MessageReceiver() <- agent.BundleMessage{Bundle: b}
		close(handed)
	}()
	_ = handed
	time.Sleep(3 * time.Millisecond) // the hand-over has reached the slow child
	cs[leaver].Leave()               // the leaver goes
	time.Sleep(3 * time.Millisecond)
	close(cs[slow].gate) // the slow child takes the bundle
	select {
	case <-handed:
	case <-time.After(20 * time.Second):
		r.Count("mux.harness_watchdog", 1)
		r.Note("mux-leave: the multiplexer did not take the marker message within 60 s")
		return
	}
	// let the second hand-over finish, then stop everybody
	time.Sleep(3 * time.Millisecond)
	mux.MessageReceiver() <- agent.ShutdownMessage{}
	for i, c := range cs {
		if i == leaver {
			continue
		}
		select {
		case <-c.done:
		case <-time.After(20 * time.Second):
			r.Count("mux.harness_watchdog", 1)
			return
		}
	}
	wit := map[string]interface{}{"children": n, "slow_child": slow, "leaving_child": leaver, "registered_for_the_endpoint": member}
	for i, c := range cs {
		got := c.count(pid)
		wit[c.name] = got
		if i == leaver {
			continue // it was leaving: whether it still got a copy is its own business
		}
		// two messages with this payload id were sent (the bundle and the marker copy)
		want := 0
		if member[i] {
			want = 2
		}
		if got != want {
			cls := "missing"
			if got > want {
				cls = "duplicated"
			}
			if !member[i] {
				cls = "wrong-recipient"
			}
			r.Violation("c07.mux-leave:"+cls, fmt.Sprintf("while child %d was slow to take a bundle child %d left; %s (registered for the endpoint: %v) observed %d copies of 2 messages, expected %d", slow, leaver, c.name, member[i], got, want), wit)
			return
		}
	}
	r.Count("mux.leave_scenarios", 1)
	r.Nontrivial("mux-leave", n, slow, leaver, fmt.Sprint(member))
}

func muxGroups(r *report.Run) {
	type mc struct {
		n, slow, leaver int
		member          []bool
	}
	var cases []mc
	for n := 3; n <= 5; n++ {
		for slow := 0; slow < n; slow++ {
			for leaver := 0; leaver < n; leaver++ {
				if leaver == slow {
					continue
				}
				for mask := 0; mask < 1<<uint(n); mask++ {
					member := make([]bool, n)
					cnt := 0
					for i := range member {
						member[i] = mask>>uint(i)&1 == 1
						if member[i] {
							cnt++
						}
					}
					if !member[slow] || cnt < 2 {
						continue // the slow child must be a recipient, and there must be another one
					}
					cases = append(cases, mc{n, slow, leaver, member})
				}
			}
		}
	}
	// "stress-" prefix: these cases also run in the race-instrumented pass
	for _, g := range []string{"mux-leave", "stress-mux-leave"} {
		g := g
		r.Group(g, len(cases), func(i int, rng *report.Rand) {
			if g == "stress-mux-leave" && i%4 != 0 {
				r.Evals(-1)
				return
			}
			c := cases[i]
			muxLeaveCase(r, i, c.n, c.slow, c.leaver, c.member)
		})
	}
}
