package c07

import (
	"fmt"
	"net/http/httptest"
	"strings"
	"sync"
	"time"

	"github.com/dtn7/dtn7-go/pkg/agent"
	"github.com/dtn7/dtn7-go/pkg/bpv7"

	"verifh/internal/nodesim"
	"verifh/internal/report"
)

// wsCase: real WebSocket clients (loopback sockets, real time). k[i] clients register for endpoint i; every bundle for
// an endpoint must reach each of its clients exactly once, in order, and no other client.
func wsCase(r *report.Run, ks []int, nBundles int, idx int) (inconclusive string) {
	ws := agent.NewWebSocketAgent()
	parent := agent.NewMuxAgent() // the agent manager's multiplexer
	parent.Register(ws)
	srv := httptest.NewServer(ws)
	defer srv.Close()
	url := "ws" + strings.TrimPrefix(srv.URL, "http") + "/ws"

	eps := []string{"dtn://node/ws-a", "dtn://node/ws-b", "dtn://node/ws-c"}
	type client struct {
		ep   int
		conn *agent.WebSocketAgentConnector
		got  []string
		err  error
	}
	var clients []*client
	for ep, k := range ks {
		for j := 0; j < k; j++ {
			c, err := agent.NewWebSocketAgentConnector(url, eps[ep])
			if err != nil {
				return "websocket client could not connect: " + err.Error()
			}
			clients = append(clients, &client{ep: ep, conn: c})
		}
	}
	defer func() {
		for _, c := range clients {
			c.conn.Close()
		}
		parent.MessageReceiver() <- agent.ShutdownMessage{}
	}()
	// wait until the agent announces every registered endpoint (registration is acknowledged before, this only guards
	// against the server-side bookkeeping lagging behind the acknowledgement)
	deadline := time.Now().Add(30 * time.Second)
	for {
		n := len(ws.Endpoints())
		if n == len(clients) {
			break
		}
		if time.Now().After(deadline) {
			return fmt.Sprintf("websocket agent announces %d endpoints, %d clients registered", n, len(clients))
		}
		time.Sleep(5 * time.Millisecond)
	}

	mk := func(pid string, ep int, seq uint64) bpv7.Bundle {
		b, err := bpv7.Builder().CRC(bpv7.CRC32).Source("dtn://origin/app").Destination(eps[ep]).CreationTimestampNow().Lifetime("1h").
			PayloadBlock(nodesim.Payload(pid, 5)).Build()
		if err != nil {
			panic(err)
		}
		b.PrimaryBlock.CreationTimestamp[1] = seq
		return b
	}
	var wg sync.WaitGroup
	for _, c := range clients {
		wg.Add(1)
		go func(c *client) {
			defer wg.Done()
			for {
				b, err := c.conn.ReadBundle()
				if err != nil {
					c.err = err
					return
				}
				pl, _ := b.PayloadBlock()
				pid := nodesim.PIDOf(pl.Value.(*bpv7.PayloadBlock).Data())
				if strings.HasPrefix(pid, "END") {
					return
				}
				c.got = append(c.got, pid)
			}
		}(c)
	}
	want := map[int][]string{}
	seq := uint64(0)
	for i := 0; i < nBundles; i++ {
		ep := i % len(eps)
		pid := fmt.Sprintf("W%d-%d", idx, i)
		seq++
		if ks[ep] > 0 {
			want[ep] = append(want[ep], pid)
			parent.MessageReceiver() <- agent.BundleMessage{Bundle: mk(pid, ep, seq)}
		}
	}
	for ep := range eps {
		if ks[ep] > 0 {
			seq++
			parent.MessageReceiver() <- agent.BundleMessage{Bundle: mk(fmt.Sprintf("END%d", ep), ep, seq)}
		}
	}
	done := make(chan struct{})
	go func() { wg.Wait(); close(done) }()
	select {
	case <-done:
	case <-time.After(120 * time.Second):
		return "websocket clients did not receive their sentinel within 120 s"
	}
	for _, c := range clients {
		r.Count("ws.frames_checked", len(c.got))
		if c.err != nil {
			r.Violation("c07.ws-client-error", "websocket client failed while reading: "+c.err.Error(), map[string]interface{}{"clients_per_endpoint": ks})
			return
		}
		if fmt.Sprint(c.got) != fmt.Sprint(want[c.ep]) {
			cls := "missing-or-reordered"
			if len(c.got) > len(want[c.ep]) {
				cls = "surplus"
			}
			r.Violation("c07.ws-client-sequence:"+cls, fmt.Sprintf("websocket client for %s received %v, expected exactly %v", eps[c.ep], c.got, want[c.ep]),
				map[string]interface{}{"clients_per_endpoint": ks})
			return
		}
	}
	r.Nontrivial("ws", fmt.Sprint(ks), nBundles)
	return ""
}
