package c08

// C08 - the bundle store behaves like a durable map and survives restarts and crashes.
//
// seq    sequential differential test against the reference map of ref_test.go, inside a synctest bubble
// crash  child process killed at every (crash point, hit) of a script; second child reopens the directory
// conc   k goroutines push the fragments of one bundle simultaneously (plain, forced at the hook points, doubled)
// lin    (thorough) porcupine linearizability of concurrent push / update / delete / query histories

import (
	"fmt"
	"os"
	"strings"
	"testing"
	"time"

	"verifh/internal/bubble"
	"verifh/internal/report"
)

func scratch(prefix string) string {
	d, err := os.MkdirTemp("", prefix)
	if err != nil {
		panic(err)
	}
	return d
}

func opsText(ops []op) []string {
	out := make([]string, len(ops))
	for i, o := range ops {
		out[i] = fmt.Sprintf("%d %s", i, o)
	}
	return out
}

// runSeq executes one generated sequence inside the current bubble.
func runSeq(r *report.Run, i int, rng *report.Rand) {
	start := time.Now()
	nb := 3 + rng.Intn(4)
	po := poolOpts{NowMs: bubble.NowMs(), ShortLived: true, MaxPayload: 300, SeqBase: uint64(1000 * (i + 1))}
	var pool []*spec
	for b := 0; b < nb; b++ {
		pool = append(pool, genSpec(rng, po, b, rng.Bool(), 0))
	}
	nOps := 40
	ops := genOps(rng, pool, genCfg{N: nOps, Start: start})
	rm := newRef(pool)
	dir := scratch("c08-seq-")
	defer os.RemoveAll(dir)
	sc := &storeCtx{Dir: dir, Pool: pool}
	witness := func(at int, extra interface{}) interface{} {
		return map[string]interface{}{"ops": opsText(ops[:at+1]), "failed_at": at, "detail": extra}
	}
	if err := sc.open(); err != nil {
		r.Violation("c08.seq.open:"+errClass(err.Error()), "NewStore on an empty directory failed: "+err.Error(), nil)
		return
	}
	defer sc.close()
	bad := false
	for n, o := range ops {
		if o.SleepMs > 0 {
			time.Sleep(time.Duration(o.SleepMs) * time.Millisecond)
		}
		now := time.Now()
		err := sc.exec(o)
		if !time.Now().Equal(now) {
			// the fake clock only moves while every goroutine of the bubble is blocked; should the store ever wait
			// on a timer inside an operation the expiry decision of that operation is not comparable
			r.Count("seq.clock_moved_during_op", 1)
			r.Note(fmt.Sprintf("seq/%d: fake clock moved during %s; rest of the sequence skipped", i, o))
			return
		}
		rm.apply(o, now)
		r.Count("seq.op."+o.class(), 1)
		if err != nil {
			r.Violation("c08.seq.op-error:"+o.class()+":"+errClass(err.Error()), fmt.Sprintf("%s failed: %v", o, err), witness(n, nil))
			bad = true
			break
		}
		snap := observe(sc.St, pool)
		fs := matchAll(rm, snap, now)
		r.Evals(len(pool) + 1)
		r.Count("seq.lookups", len(pool)*2)
		r.Count("seq.pending_queries", 1)
		for _, s := range pool {
			if o := snap.Recs[s.Key]; o != nil {
				r.Count("seq.parts_loaded", len(o.Parts))
				if o.Present && rm.Recs[s.Key] != nil && !rm.Recs[s.Key].Whole && o.Complete {
					r.Count("seq.fragment_sets_complete", 1)
				}
			}
		}
		if o.Kind == "sweep" {
			r.Count("seq.sweeps", 1)
		}
		if len(fs) > 0 {
			for _, f := range fs {
				r.Violation("c08.seq."+f.Rule+":after-"+o.class(), fmt.Sprintf("after op %d %s: %s", n, o, f.Msg), witness(n, snap))
			}
			bad = true
			break
		}
	}
	if !bad {
		var ks []string
		for _, o := range ops {
			ks = append(ks, o.String())
		}
		r.Nontrivial("seq", strings.Join(ks, ";"), len(pool))
		if i < 2 {
			r.Sample(map[string]interface{}{"kind": "sequential differential run", "bundles": len(pool), "ops": opsText(ops)})
		}
	}
}

func TestCheck(t *testing.T) {
	bubble.Quiet()
	bubble.RegisterBlocks()
	registerGob()
	r := report.Start(t, "C08")
	defer r.Finish()

	t0 := time.Now()
	lap := func(name string) {
		r.Count("wall_ms."+name, int(time.Since(t0)/time.Millisecond)) // informational only
		t0 = time.Now()
	}
	// (1) sequential differential test, one bubble per sequence (expiry is decided on the fake clock)
	r.Group("seq", r.Pick(320, 2000), func(i int, rng *report.Rand) {
		if err := bubble.Run(t, func(t *testing.T) { runSeq(r, i, rng) }); err != nil {
			r.Violation("c08.seq.harness-panic:"+errClass(err.Error()), err.Error(), nil)
		}
	})

	lap("seq")
	// (2) crash points
	crashGroups(t, r)
	lap("crash")

	// (3) concurrent fragment pushes
	r.Group("conc", r.Pick(84, 504), func(i int, rng *report.Rand) { runConc(r, i, rng) })

	lap("conc")
	// (4) linearizability of concurrent histories (thorough)
	if r.Thorough() || strings.HasPrefix(r.Only, "lin/") {
		r.Group("lin", 400, func(i int, rng *report.Rand) { runLin(t, r, i, rng) })
		lap("lin")
	}
}
