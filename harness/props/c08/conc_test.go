package c08

// Concurrent pushes of the fragments of one bundle, and (thorough) linearizability of concurrent
// push / update / delete / query histories per bundle ID.

import (
	"fmt"
	"os"
	"runtime"
	"sort"
	"strings"
	"sync"
	"sync/atomic"
	"testing"
	"time"

	"github.com/anishathalye/porcupine"

	"github.com/dtn7/dtn7-go/pkg/storage"
	"github.com/dtn7/dtn7-go/pkg/verifhook"

	"verifh/internal/bubble"
	"verifh/internal/report"
)

// rendezvous makes the first goroutine that reaches the hook wait (bounded) until a second one is at the same
// point too.  If the store serialises pushes the second never arrives while the first
// waits, the wait runs out and nothing was forced - harmless on a correct store, decisive on a racy one.
type rendezvous struct {
	state int32 // 0 nobody yet, 1 first arrival waits, 2 met, 3 the wait ran out
}

func (rv *rendezvous) at() {
	if atomic.CompareAndSwapInt32(&rv.state, 0, 1) {
		// bounded wait (>= 100 ms); the bound only limits how long a forcing attempt lasts, no verdict depends on it
		for spin := 0; spin < 400; spin++ {
			if atomic.LoadInt32(&rv.state) == 2 {
				return
			}
			runtime.Gosched()
			time.Sleep(250 * time.Microsecond)
		}
		atomic.CompareAndSwapInt32(&rv.state, 1, 3)
		return
	}
	atomic.CompareAndSwapInt32(&rv.state, 1, 2) // counts only while the first arrival is still inside the hook
}

func (rv *rendezvous) met() bool { return atomic.LoadInt32(&rv.state) == 2 }

// runDelUpd: one goroutine deletes a stored bundle while others read-modify-update its metadata (as the node's
// retry job and clean-store job do).  Whatever the order, the delete wins in the end: the record is gone
// completely, no operation fails for another reason than "no such record".
func runDelUpd(r *report.Run, i int, rng *report.Rand) {
	k := 2 + i%7
	po := poolOpts{NowMs: bubble.NowMs(), MaxPayload: 400, SeqBase: uint64(950000 + i)}
	s := genSpec(rng, po, 0, rng.Bool(), 0)
	other := genSpec(rng, po, 1, true, 0)
	pool := []*spec{s, other}
	dir := scratch("c08-conc-")
	defer os.RemoveAll(dir)
	sc := &storeCtx{Dir: dir, Pool: pool}
	if err := sc.open(); err != nil {
		r.Violation("c08.conc.open:"+errClass(err.Error()), err.Error(), nil)
		return
	}
	defer sc.close()
	rm := newRef(pool)
	var setup []op
	if s.AsWhole {
		setup = append(setup, op{Kind: "push", B: 0, F: -1})
	} else {
		for f := range s.Frags {
			setup = append(setup, op{Kind: "push", B: 0, F: f})
		}
	}
	setup = append(setup, op{Kind: "push", B: 1, F: -1}, op{Kind: "update", B: 0, Pending: 1}, op{Kind: "update", B: 1, Pending: 1})
	for _, o := range setup {
		if err := sc.exec(o); err != nil {
			r.Violation("c08.conc.setup-error:"+o.class()+":"+errClass(err.Error()), err.Error(), nil)
			return
		}
		rm.apply(o, time.Now())
	}
	errs := make([]error, k)
	var ready, done sync.WaitGroup
	startc := make(chan struct{})
	for g := 0; g < k; g++ {
		ready.Add(1)
		done.Add(1)
		go func(g int) {
			defer done.Done()
			ready.Done()
			<-startc
			if g == 0 {
				errs[g] = guard(func() error { return sc.St.Delete(s.QueryID) })
				return
			}
			errs[g] = guard(func() error {
				for n := 0; n < 3; n++ {
					bi, err := sc.St.QueryId(s.QueryID)
					if err != nil {
						return nil
					}
					bi.Pending = !bi.Pending
					if err := sc.St.Update(bi); err != nil {
						return err
					}
				}
				return nil
			})
		}(g)
	}
	ready.Wait()
	close(startc)
	done.Wait()
	rm.apply(op{Kind: "delete", B: 0}, time.Now())
	r.Count("conc.delete_vs_update_rounds", 1)
	bad := false
	for g, err := range errs {
		if err == nil || (g > 0 && strings.Contains(err.Error(), "No data found for this key")) {
			continue
		}
		what := map[bool]string{true: "delete", false: "update"}[g == 0]
		r.Violation("c08.conc."+what+"-error:delete-vs-update:"+errClass(err.Error()),
			fmt.Sprintf("%s failed while one goroutine deleted and %d updated the same record: %v", what, k-1, err), nil)
		bad = true
	}
	snap := observe(sc.St, pool)
	for _, f := range matchAll(rm, snap, time.Now()) {
		r.Violation("c08.conc."+f.Rule+":delete-vs-update", fmt.Sprintf("after a delete concurrent with %d updaters: %s", k-1, f.Msg), snap)
		bad = true
	}
	r.Evals(1)
	if !bad {
		r.Nontrivial("conc-delupd", i, k, r.Seed)
	}
}

func runConc(r *report.Run, i int, rng *report.Rand) {
	k := 2 + i%7           // goroutines = fragments
	variant := (i / 7) % 4 // 0 plain, 1 forced at the hook points, 2 every fragment from two goroutines, 3 delete vs update
	if variant == 3 {
		runDelUpd(r, i, rng)
		return
	}
	po := poolOpts{NowMs: bubble.NowMs(), MaxPayload: 400, SeqBase: uint64(900000 + i)}
	var s *spec
	for {
		s = genSpec(rng, po, 0, false, k)
		if len(s.Frags) == k {
			break
		}
	}
	pool := []*spec{s}
	dir := scratch("c08-conc-")
	defer os.RemoveAll(dir)
	sc := &storeCtx{Dir: dir, Pool: pool}
	if err := sc.open(); err != nil {
		r.Violation("c08.conc.open:"+errClass(err.Error()), err.Error(), nil)
		return
	}
	defer sc.close()
	vname := []string{"plain", "forced", "doubled"}[variant]
	wit := func(extra interface{}) interface{} {
		return map[string]interface{}{"goroutines": k, "variant": vname, "detail": extra}
	}

	rm := newRef(pool)
	var todo []int
	first := -1
	forcedPoint := ""
	rv := &rendezvous{}
	if variant == 1 {
		if (i/28)%2 == 0 {
			forcedPoint = "storage.push.after_part" // all start on an empty store: two inserts of the same record
		} else {
			forcedPoint = "storage.push.frag.after_part" // record exists: two read-modify-updates of its part list
			first = rng.Intn(k)
			if err := sc.exec(op{Kind: "push", B: 0, F: first}); err != nil {
				r.Violation("c08.conc.push-error:sequential:"+errClass(err.Error()), err.Error(), wit(nil))
				return
			}
			rm.apply(op{Kind: "push", B: 0, F: first}, time.Now())
		}
		verifhook.Set(forcedPoint, rv.at)
		defer verifhook.Set(forcedPoint, nil)
	}
	for f := 0; f < k; f++ {
		if f == first {
			continue
		}
		todo = append(todo, f)
		if variant == 2 {
			todo = append(todo, f)
		}
	}
	if len(todo) < 2 {
		todo = append(todo, todo[0])
	}
	errs := make([]error, len(todo))
	var ready, done sync.WaitGroup
	startc := make(chan struct{})
	for g, f := range todo {
		ready.Add(1)
		done.Add(1)
		// every goroutine holds its own parsed copy, as two receptions of a fragment would (serialising a bundle
		// writes its CRC fields, so one object must not be pushed from two goroutines)
		own, err := parse(s.Frags[f].Wire)
		if err != nil {
			panic(err)
		}
		go func(g int) {
			defer done.Done()
			ready.Done()
			<-startc
			errs[g] = guard(func() error { return sc.St.Push(own) })
		}(g)
	}
	ready.Wait()
	close(startc)
	done.Wait()
	if forcedPoint != "" {
		verifhook.Set(forcedPoint, nil)
	}
	for _, f := range todo {
		rm.apply(op{Kind: "push", B: 0, F: f}, time.Now())
	}
	r.Count("conc.rounds", 1)
	r.Count("conc.pushes", len(todo))
	if variant == 1 {
		if rv.met() {
			r.Count("conc.forced_interleavings_reached."+forcedPoint, 1)
		} else {
			r.Count("conc.forced_interleavings_excluded_by_store."+forcedPoint, 1)
		}
	}
	bad := false
	for g, err := range errs {
		if err != nil {
			r.Violation("c08.conc.push-error:"+vname+":"+errClass(err.Error()),
				fmt.Sprintf("Push of fragment %d failed while %d goroutines pushed fragments of one bundle: %v", todo[g], len(todo), err), wit(nil))
			bad = true
		}
	}
	snap := observe(sc.St, pool)
	for _, f := range matchAll(rm, snap, time.Now()) {
		r.Violation("c08.conc."+f.Rule+":"+vname, fmt.Sprintf("after %d concurrent pushes (%s): %s", len(todo), vname, f.Msg), wit(snap))
		bad = true
	}
	r.Evals(1)
	if !bad {
		r.Nontrivial("conc", i, k, vname, r.Seed)
		if o := snap.Recs[s.Key]; o != nil && o.Complete {
			r.Count("conc.records_complete", 1)
		}
	}
	if i == 0 {
		r.Sample(map[string]interface{}{"kind": "concurrent fragment pushes", "goroutines": len(todo), "parts_afterwards": len(snap.Recs[s.Key].Parts)})
	}
}

// ---------------------------------------------------------------------------------------------------
// linearizability

type linIn struct {
	Key     int
	Kind    string // push query update delete
	Frag    int
	Parts   uint64 // update: the record that is written (as read by the same client before)
	Pending bool
	Tag     int
}

type linOut struct {
	Err     bool
	Present bool
	Parts   uint64
	Pending bool
	Tag     int
}

type linState struct {
	Present bool
	Parts   uint64
	Pending bool
	Tag     int
}

var linModel = porcupine.Model{
	Partition: func(h []porcupine.Operation) [][]porcupine.Operation {
		m := map[int][]porcupine.Operation{}
		var keys []int
		for _, o := range h {
			k := o.Input.(linIn).Key
			if _, ok := m[k]; !ok {
				keys = append(keys, k)
			}
			m[k] = append(m[k], o)
		}
		sort.Ints(keys)
		var out [][]porcupine.Operation
		for _, k := range keys {
			out = append(out, m[k])
		}
		return out
	},
	Init: func() interface{} { return linState{} },
	Step: func(state, input, output interface{}) (bool, interface{}) {
		st, in, out := state.(linState), input.(linIn), output.(linOut)
		switch in.Kind {
		case "push":
			if out.Err {
				return false, st
			}
			if !st.Present {
				return true, linState{Present: true, Parts: 1 << uint(in.Frag)}
			}
			st.Parts |= 1 << uint(in.Frag)
			return true, st
		case "query":
			if out.Err {
				return !st.Present, st
			}
			return st.Present && out.Parts == st.Parts && out.Pending == st.Pending && out.Tag == st.Tag, st
		case "update": // writes the whole record; fails exactly when there is none
			if !st.Present {
				return out.Err, st
			}
			if out.Err {
				return false, st
			}
			return true, linState{Present: true, Parts: in.Parts, Pending: in.Pending, Tag: in.Tag}
		case "delete":
			return !out.Err, linState{}
		}
		return false, st
	},
	DescribeOperation: func(input, output interface{}) string {
		return fmt.Sprintf("%+v -> %+v", input, output)
	},
}

func partsMask(s *spec, bi storage.BundleItem) uint64 {
	var m uint64
	for _, p := range bi.Parts {
		for j, f := range s.Frags {
			if f.Off == p.FragmentOffset && f.Total == p.TotalDataLength {
				m |= 1 << uint(j)
			}
		}
	}
	return m
}

func runLin(t *testing.T, r *report.Run, i int, rng *report.Rand) {
	const nKeys, nClients, perClient = 3, 4, 15
	po := poolOpts{NowMs: bubble.NowMs(), MaxPayload: 200, SeqBase: uint64(700000 + 10*i)}
	var pool []*spec
	for b := 0; b < nKeys; b++ {
		pool = append(pool, genSpec(rng, po, b, false, 4))
	}
	dir := scratch("c08-lin-")
	defer os.RemoveAll(dir)
	sc := &storeCtx{Dir: dir, Pool: pool}
	if err := sc.open(); err != nil {
		r.Violation("c08.lin.open:"+errClass(err.Error()), err.Error(), nil)
		return
	}
	defer sc.close()
	var clock int64
	var mu sync.Mutex
	var hist []porcupine.Operation
	var wg sync.WaitGroup
	startc := make(chan struct{})
	for c := 0; c < nClients; c++ {
		wg.Add(1)
		crng := rng.Fork()
		go func(c int, rng *report.Rand) {
			defer wg.Done()
			<-startc
			tag := c * 1000
			for n := 0; n < perClient; n++ {
				key := rng.Intn(nKeys)
				s := pool[key]
				in := linIn{Key: key}
				var out linOut
				var call, ret int64
				do := func(f func()) {
					call = atomic.AddInt64(&clock, 1)
					f()
					ret = atomic.AddInt64(&clock, 1)
				}
				switch k := rng.Intn(10); {
				case k < 4:
					in.Kind, in.Frag = "push", rng.Intn(len(s.Frags))
					own, perr := parse(s.Frags[in.Frag].Wire) // own copy per push (see runConc)
					if perr != nil {
						panic(perr)
					}
					do(func() { out.Err = guard(func() error { return sc.St.Push(own) }) != nil })
				case k < 6:
					in.Kind = "delete"
					do(func() { out.Err = guard(func() error { return sc.St.Delete(s.QueryID) }) != nil })
				default: // query, and in half of the cases an update of what was read
					in.Kind = "query"
					var bi storage.BundleItem
					do(func() {
						err := guard(func() (e error) { bi, e = sc.St.QueryId(s.QueryID); return })
						out.Err = err != nil
						if err == nil {
							out.Present, out.Parts, out.Pending = true, partsMask(s, bi), bi.Pending
							if v, ok := bi.Properties["tag"].(int); ok {
								out.Tag = v
							}
						}
					})
					if !out.Err && k >= 8 {
						mu.Lock()
						hist = append(hist, porcupine.Operation{ClientId: c, Input: in, Call: call, Output: out, Return: ret})
						mu.Unlock()
						tag++
						in = linIn{Key: key, Kind: "update", Parts: out.Parts, Pending: rng.Bool(), Tag: tag}
						bi.Pending = in.Pending
						bi.Properties = map[string]interface{}{"tag": tag}
						out = linOut{}
						do(func() { out.Err = guard(func() error { return sc.St.Update(bi) }) != nil })
					}
				}
				mu.Lock()
				hist = append(hist, porcupine.Operation{ClientId: c, Input: in, Call: call, Output: out, Return: ret})
				mu.Unlock()
			}
		}(c, crng)
	}
	close(startc)
	wg.Wait()
	r.Count("lin.histories", 1)
	r.Count("lin.operations", len(hist))
	res := porcupine.CheckOperationsTimeout(linModel, hist, 60*time.Second)
	switch res {
	case porcupine.Ok:
		r.Count("lin.linearizable", 1)
		r.Nontrivial("lin", i, len(hist), r.Seed)
	case porcupine.Unknown:
		r.Count("lin.checker_timeout", 1)
		r.Note(fmt.Sprintf("lin/%d: linearizability checker timed out after 60 s (inconclusive)", i))
		t.Errorf("lin/%d: linearizability checker timed out (inconclusive)", i)
	default:
		sort.Slice(hist, func(a, b int) bool { return hist[a].Call < hist[b].Call })
		var lines []string
		kinds := map[string]bool{}
		for _, o := range hist {
			lines = append(lines, fmt.Sprintf("client %d [%d,%d] %+v -> %+v", o.ClientId, o.Call, o.Return, o.Input, o.Output))
			if o.Output.(linOut).Err && o.Input.(linIn).Kind != "query" {
				kinds[o.Input.(linIn).Kind+"-error"] = true
			}
		}
		var ks []string
		for k := range kinds {
			ks = append(ks, k)
		}
		sort.Strings(ks)
		r.Violation("c08.lin.not-linearizable:push-update-delete-query",
			"a concurrent history of push / update / delete / query on the store has no linearization against the map model (failed calls: "+
				strings.Join(ks, ", ")+")", lines)
	}
}
