package c08

// Crash points: a child process (this test binary, TestChild, mode "run") executes a script against a store
// directory, journals "S i" before and "A i" after every operation (acknowledged = the call returned before the
// kill) and SIGKILLs itself inside the verifhook callback of crash point p at hit n.  A second fresh child
// (mode "verify") reopens the directory like a node would and dumps what it observes; the parent judges the dump
// against the reference map: acknowledged operations are all there, the operation in flight is either completely
// visible or completely absent, nothing else changed, retrying the interrupted operation completes it, and a node
// (routing.NewCore incl. one pending-bundle pass and one clean-store pass) starts on the directory and keeps the
// other records.

import (
	"bufio"
	"encoding/json"
	"fmt"
	"os"
	"os/exec"
	"path/filepath"
	"strconv"
	"strings"
	"syscall"
	"testing"
	"time"

	"github.com/dtn7/dtn7-go/pkg/bpv7"
	"github.com/dtn7/dtn7-go/pkg/routing"
	"github.com/dtn7/dtn7-go/pkg/verifhook"

	"verifh/internal/bubble"
	"verifh/internal/report"
)

var crashPoints = []string{
	"storage.push.after_part",
	"storage.push.frag.after_part",
	"storage.delete.after_part",
	"storage.delete.before_index",
}

type script struct {
	Pool []*spec
	Ops  []op
}

// scriptTime is the fixed creation instant of script bundles (one hour before the bubble's start).
var scriptNowMs = uint64(bubble.Start.Sub(bubble.Epoch2000) / time.Millisecond)

// buildScript: script 0 is fixed in shape (25 operations that reach every crash point in every role);
// scripts >= 1 are drawn from the generator.  Bundle contents always come from the seed.
func buildScript(seed int64, idx int) *script {
	rng := report.NewRand(seed, "c08-script", uint64(idx))
	po := poolOpts{NowMs: scriptNowMs, Plain: true, MaxPayload: 200, SeqBase: uint64(500000 + 100*idx)}
	sc := &script{}
	if idx == 0 {
		// A whole, B 3 fragments, C whole, D 3 fragments (never complete), E whole (expires), F 2 fragments
		shape := []struct {
			whole bool
			frags int
		}{{true, 2}, {false, 3}, {true, 2}, {false, 3}, {true, 2}, {false, 2}}
		for b, sh := range shape {
			sc.Pool = append(sc.Pool, genSpec(rng, po, b, sh.whole, sh.frags))
		}
		const A, B, C, D, E, F = 0, 1, 2, 3, 4, 5
		push := func(b, f int) op { return op{Kind: "push", B: b, F: f} }
		sc.Ops = []op{
			push(A, -1),
			push(B, 1),
			push(B, 0),
			{Kind: "update", B: A, Pending: 1, PropKey: "bundlepack/receiver", PropVal: 4, Salt: 1},
			push(C, -1),
			push(B, 2),
			push(D, 0),
			{Kind: "update", B: B, Pending: 1, PropKey: "bundlepack/constraints", PropVal: 6, Salt: 2},
			push(D, 2),
			{Kind: "delete", B: A},
			push(E, -1),
			{Kind: "update", B: E, PropKey: "k", PropVal: 2, Salt: 5, Expiry: longAgo},
			push(F, 0),
			{Kind: "reopen"},
			push(F, 1),
			{Kind: "delete", B: B},
			push(A, -1),
			{Kind: "sweep"},
			{Kind: "update", B: C, PropKey: "k", PropVal: 1, Salt: 3},
			push(B, 1),
			{Kind: "delete", B: F},
			push(D, 0),
			{Kind: "update", B: D, Pending: 1, PropKey: "bundlepack/timestamp", PropVal: 5, Salt: 4},
			{Kind: "delete", B: C},
			{Kind: "sweep"},
		}
		return sc
	}
	nb := 4 + rng.Intn(3)
	for b := 0; b < nb; b++ {
		sc.Pool = append(sc.Pool, genSpec(rng, po, b, rng.Chance(1, 3), 0))
	}
	sc.Ops = genOps(rng, sc.Pool, genCfg{N: 25, Start: time.Time{}, NoTime: true})
	return sc
}

// ---------------------------------------------------------------------------------------------------
// child side

type verifyOut struct {
	Snap1     *snapshot `json:"snap1"`     // plain store reopen
	Snap2     *snapshot `json:"snap2"`     // after retrying the interrupted operation
	Snap3     *snapshot `json:"snap3"`     // node started, one pending-bundle pass
	Snap4     *snapshot `json:"snap4"`     // after the node's clean-store pass
	OpenErr   string    `json:"open_err"`  // NewStore
	RetryErr  string    `json:"retry_err"` // retried operation
	CloseErr  string    `json:"close_err"`
	NodeErr   string    `json:"node_err"`   // routing.NewCore / panic while the node ran
	BubbleErr string    `json:"bubble_err"` // informational (goroutines left when the bubble ended)
	Stage     string    `json:"stage"`
}

func TestChild(t *testing.T) {
	mode := os.Getenv("C08_CHILD")
	if mode == "" {
		t.Skip("helper for TestCheck")
	}
	bubble.Quiet()
	bubble.RegisterBlocks()
	seed, _ := strconv.ParseInt(os.Getenv("C08_SEED"), 10, 64)
	idx, _ := strconv.Atoi(os.Getenv("C08_SCRIPT"))
	dir := os.Getenv("C08_DIR")
	sc := buildScript(seed, idx)
	switch mode {
	case "run":
		childRun(t, sc, dir)
	case "verify":
		childVerify(t, sc, dir)
	default:
		t.Fatalf("unknown mode %q", mode)
	}
}

func childRun(t *testing.T, sc *script, dir string) {
	registerGob()
	point := os.Getenv("C08_POINT")
	hit, _ := strconv.Atoi(os.Getenv("C08_HIT"))
	jf, err := os.OpenFile(os.Getenv("C08_JOURNAL"), os.O_CREATE|os.O_WRONLY|os.O_APPEND, 0o644)
	if err != nil {
		t.Fatal(err)
	}
	jline := func(format string, a ...interface{}) {
		if _, err := fmt.Fprintf(jf, format+"\n", a...); err != nil {
			t.Fatal(err)
		}
	}
	if point != "" {
		n := 0
		verifhook.Set(point, func() {
			n++
			if n == hit {
				jline("K %s %d", point, hit)
				_ = syscall.Kill(os.Getpid(), syscall.SIGKILL)
				select {} // never returns into the store
			}
		})
	}
	ctx := &storeCtx{Dir: filepath.Join(dir, "store"), Pool: sc.Pool}
	if err := ctx.open(); err != nil {
		jline("E open %s", err)
		t.Fatal(err)
	}
	killOp, _ := strconv.Atoi(os.Getenv("C08_KILL_AT_OP"))
	killDelay, _ := strconv.Atoi(os.Getenv("C08_KILL_DELAY_US"))
	for i, o := range sc.Ops {
		jline("S %d", i)
		if os.Getenv("C08_KILL_AT_OP") != "" && i == killOp {
			// kill from a timer: the process dies at whatever instruction the operation has reached by then
			go func() {
				time.Sleep(time.Duration(killDelay) * time.Microsecond)
				jline("K timer %d", killDelay)
				_ = syscall.Kill(os.Getpid(), syscall.SIGKILL)
			}()
		}
		if err := ctx.exec(o); err != nil {
			jline("A %d err %s", i, strings.ReplaceAll(err.Error(), "\n", " "))
		} else {
			jline("A %d ok", i)
		}
	}
	for _, p := range crashPoints {
		jline("H %s %d", p, verifhook.Hits(p))
	}
	if err := ctx.close(); err != nil {
		jline("E close %s", err)
	}
	jline("DONE")
	jf.Close()
}

func childVerify(t *testing.T, sc *script, dir string) {
	inflight, _ := strconv.Atoi(os.Getenv("C08_INFLIGHT"))
	out := &verifyOut{}
	write := func() {
		b, _ := json.Marshal(out)
		if err := os.WriteFile(os.Getenv("C08_OUT"), b, 0o644); err != nil {
			t.Fatal(err)
		}
	}
	defer write()
	registerGob() // a process that reads the store registers the node's types first
	ctx := &storeCtx{Dir: filepath.Join(dir, "store"), Pool: sc.Pool}

	out.Stage = "open"
	write()
	if err := ctx.open(); err != nil {
		out.OpenErr = err.Error()
		return
	}
	out.Stage = "observe"
	write()
	out.Snap1 = observe(ctx.St, sc.Pool)
	if inflight >= 0 {
		out.Stage = "retry"
		write()
		if err := ctx.exec(sc.Ops[inflight]); err != nil {
			out.RetryErr = err.Error()
		}
		out.Snap2 = observe(ctx.St, sc.Pool)
	}
	if err := ctx.close(); err != nil {
		out.CloseErr = err.Error()
		return
	}

	// the node starts on the directory
	out.Stage = "node"
	write()
	berr := bubble.Run(t, func(t *testing.T) {
		err := guard(func() error {
			c, err := routing.NewCore(ctx.Dir, bpv7.MustNewEndpointID("dtn://c08-node/"), false,
				routing.RoutingConf{Algorithm: "epidemic"}, nil)
			if err != nil {
				return err
			}
			time.Sleep(11 * time.Second) // pending_bundles job
			bubble.Wait()
			out.Snap3 = observe(c.VerifStore(), sc.Pool)
			time.Sleep(10 * time.Minute) // clean_store job
			bubble.Wait()
			out.Snap4 = observe(c.VerifStore(), sc.Pool)
			c.Close()
			_ = c.VerifCloseAgents()
			return nil
		})
		if err != nil {
			out.NodeErr = err.Error()
		}
	})
	if berr != nil {
		out.BubbleErr = berr.Error()
	}
	out.Stage = "done"
}

// ---------------------------------------------------------------------------------------------------
// parent side

type journalInfo struct {
	Acked    int            // operations 0..Acked-1 returned
	Inflight int            // index of the operation that was running when the process died, -1 if none
	Errors   []string       // "A i err ..." lines
	Hits     map[string]int // dry run only
	Killed   bool           // the callback wrote its K line
	Done     bool
	Other    []string
}

func readJournal(path string) journalInfo {
	ji := journalInfo{Inflight: -1, Hits: map[string]int{}}
	f, err := os.Open(path)
	if err != nil {
		ji.Other = append(ji.Other, err.Error())
		return ji
	}
	defer f.Close()
	scn := bufio.NewScanner(f)
	scn.Buffer(make([]byte, 1<<20), 1<<20)
	for scn.Scan() {
		ln := scn.Text()
		fld := strings.Fields(ln)
		if len(fld) == 0 {
			continue
		}
		switch fld[0] {
		case "S":
			ji.Inflight, _ = strconv.Atoi(fld[1])
		case "A":
			n, _ := strconv.Atoi(fld[1])
			ji.Acked = n + 1
			ji.Inflight = -1
			if len(fld) > 2 && fld[2] == "err" {
				ji.Errors = append(ji.Errors, ln)
			}
		case "H":
			ji.Hits[fld[1]], _ = strconv.Atoi(fld[2])
		case "K":
			ji.Killed = true
		case "DONE":
			ji.Done = true
		default:
			ji.Other = append(ji.Other, ln)
		}
	}
	return ji
}

func childCmd(seed int64, idx int, dir, mode string, extra ...string) *exec.Cmd {
	bin := os.Getenv("VERIF_BIN")
	if bin == "" {
		bin = os.Args[0]
	}
	cmd := exec.Command(bin, "-test.run", "^TestChild$", "-test.count", "1", "-test.timeout", "0")
	cmd.Env = append(os.Environ(), "C08_CHILD="+mode, "C08_SEED="+strconv.FormatInt(seed, 10), "C08_SCRIPT="+strconv.Itoa(idx),
		"C08_DIR="+dir, "VERIF_ONLY=", "VERIF_RESUME_AFTER=")
	cmd.Env = append(cmd.Env, extra...)
	cmd.Dir = dir
	return cmd
}

// runChild returns the combined output, whether the process was killed by SIGKILL, and its exit error.
func runChild(cmd *exec.Cmd) (string, bool, error) {
	out, err := cmd.CombinedOutput()
	killed := false
	if ee, ok := err.(*exec.ExitError); ok {
		if ws, ok := ee.Sys().(syscall.WaitStatus); ok && ws.Signaled() && ws.Signal() == syscall.SIGKILL {
			killed = true
		}
	}
	return string(out), killed, err
}

func tailText(s string, n int) string {
	lines := strings.Split(strings.TrimSpace(s), "\n")
	if len(lines) > n {
		lines = lines[len(lines)-n:]
	}
	return strings.Join(lines, "\n")
}

// fatalClass extracts the class of a Go fatal error / panic from a child's output.
func fatalClass(out string) string {
	for _, ln := range strings.Split(out, "\n") {
		ln = strings.TrimSpace(ln)
		if strings.HasPrefix(ln, "panic:") || strings.HasPrefix(ln, "fatal error:") {
			return errClass(ln)
		}
	}
	return "exit"
}

type crashCase struct {
	Point string
	Hit   int
	// timer kills: Point == "timer", the process is killed DelayUs microseconds after operation Op was started
	Op      int
	DelayUs int
}

// groupWanted mirrors the driver's group selection (VERIF_ONLY_GROUPS / VERIF_SKIP_GROUPS, name prefixes) so that
// the dry runs are not executed in a pass that skips the crash groups.
func groupWanted(name string) bool {
	match := func(list string) bool {
		for _, p := range strings.Split(list, ",") {
			if p != "" && strings.HasPrefix(name, p) {
				return true
			}
		}
		return false
	}
	if only := os.Getenv("VERIF_ONLY_GROUPS"); only != "" && !match(only) {
		return false
	}
	if skip := os.Getenv("VERIF_SKIP_GROUPS"); skip != "" && match(skip) {
		return false
	}
	return true
}

func crashGroups(t *testing.T, r *report.Run) {
	nScripts := r.Pick(2, 20)
	ran := false
	for idx := 0; idx < nScripts; idx++ {
		group := fmt.Sprintf("crash%d", idx)
		if r.Only != "" && !strings.HasPrefix(r.Only, group+"/") {
			continue
		}
		if !groupWanted(group) {
			continue
		}
		ran = true
		sc := buildScript(r.Seed, idx)
		// dry run: counts the hits of every crash point and checks the script itself against the reference
		dir := scratch("c08-dry-")
		out, _, err := runChild(childCmd(r.Seed, idx, dir, "run", "C08_JOURNAL="+filepath.Join(dir, "journal")))
		ji := readJournal(filepath.Join(dir, "journal"))
		if err != nil || !ji.Done {
			r.Violation("c08.crash.script-run-failed:"+fatalClass(out), "the script does not run to its end without a kill: "+tailText(out, 15),
				map[string]interface{}{"script": idx, "ops": opsText(sc.Ops), "journal": ji})
			os.RemoveAll(dir)
			continue
		}
		for _, e := range ji.Errors {
			r.Violation("c08.crash.op-error:"+errClass(e), "operation of the script failed: "+e, map[string]interface{}{"script": idx, "ops": opsText(sc.Ops)})
		}
		os.RemoveAll(dir)
		var cases []crashCase
		for _, p := range crashPoints {
			for n := 1; n <= ji.Hits[p]; n++ {
				cases = append(cases, crashCase{Point: p, Hit: n})
			}
		}
		if r.Shard == 0 || r.Only != "" {
			for _, p := range crashPoints {
				r.Count("crash.hits_in_script."+p, ji.Hits[p])
			}
		}
		// kills at arbitrary instants: a timer started with operation k fires after a drawn delay (0 .. 4 ms, the
		// duration range of the store's operations); what was acknowledged and what was in flight is read off the journal
		perOp := r.Pick(1, 4)
		if idx > 0 && !r.Thorough() {
			perOp = 0
		}
		trng := report.NewRand(r.Seed, "c08-timer", uint64(idx))
		for k := range sc.Ops {
			for j := 0; j < perOp; j++ {
				cases = append(cases, crashCase{Point: "timer", Op: k, DelayUs: trng.Intn(4000)})
			}
		}
		r.Group(group, len(cases), func(i int, rng *report.Rand) {
			runCrash(r, idx, sc, cases[i])
		})
	}
	if ran && r.Only == "" {
		r.Exhaustive("every (crash point, hit) of every script")
	}
}

func runCrash(r *report.Run, idx int, sc *script, cc crashCase) {
	dir := scratch("c08-crash-")
	defer os.RemoveAll(dir)
	jpath := filepath.Join(dir, "journal")
	wit := func(extra interface{}) interface{} {
		return map[string]interface{}{"script": idx, "point": cc.Point, "hit": cc.Hit, "timer_started_with_op": cc.Op, "timer_delay_us": cc.DelayUs, "ops": opsText(sc.Ops), "detail": extra}
	}
	var out string
	var killed bool
	if cc.Point == "timer" {
		out, killed, _ = runChild(childCmd(r.Seed, idx, dir, "run", "C08_JOURNAL="+jpath, "C08_KILL_AT_OP="+strconv.Itoa(cc.Op), "C08_KILL_DELAY_US="+strconv.Itoa(cc.DelayUs)))
	} else {
		out, killed, _ = runChild(childCmd(r.Seed, idx, dir, "run", "C08_JOURNAL="+jpath, "C08_POINT="+cc.Point, "C08_HIT="+strconv.Itoa(cc.Hit)))
	}
	ji := readJournal(jpath)
	if cc.Point == "timer" && killed && ji.Inflight < 0 && !ji.Done {
		// the timer fired between two operations: nothing was in flight; the acknowledged prefix must be intact
		r.Count("crash.timer_kills_between_operations", 1)
		ji.Inflight = ji.Acked
		if ji.Inflight >= len(sc.Ops) {
			return
		}
		ji.Killed = true
	}
	if !killed || !ji.Killed || ji.Inflight < 0 {
		if !killed && !ji.Done {
			r.Violation("c08.crash.child-failed:"+fatalClass(out), "the writing child failed before its kill point: "+tailText(out, 15), wit(ji))
		} else {
			r.Count("crash.kill_point_not_reached", 1)
			r.Note(fmt.Sprintf("script %d: %s hit %d was not reached (killed=%v done=%v)", idx, cc.Point, cc.Hit, killed, ji.Done))
		}
		return
	}
	r.Count("crash.kills", 1)
	r.Count("crash.kills."+cc.Point, 1)
	for _, e := range ji.Errors {
		r.Violation("c08.crash.op-error:"+errClass(e), "operation of the script failed: "+e, wit(nil))
	}
	inflight := sc.Ops[ji.Inflight]
	r.Count("crash.inflight."+inflight.class(), 1)

	// reference: all acknowledged operations; then the interrupted one
	before := newRef(sc.Pool)
	now := time.Now() // scripts hold no clock-dependent expiry (instants long ago / far in the future only)
	for _, o := range sc.Ops[:ji.Acked] {
		before.apply(o, now)
	}
	after := before.clone()
	affected := map[string]bool{}
	for _, k := range after.apply(inflight, now) {
		affected[k] = true
	}

	vpath := filepath.Join(dir, "verify.json")
	vout, _, verr := runChild(childCmd(r.Seed, idx, dir, "verify", "C08_OUT="+vpath, "C08_INFLIGHT="+strconv.Itoa(ji.Inflight)))
	var vo verifyOut
	if b, err := os.ReadFile(vpath); err == nil {
		_ = json.Unmarshal(b, &vo)
	}
	ctx := cc.Point
	if vo.OpenErr != "" {
		r.Violation("c08.crash.reopen-failed:"+ctx+":"+errClass(vo.OpenErr), fmt.Sprintf("NewStore fails after a kill at %s (during %s): %s", cc.Point, inflight, vo.OpenErr), wit(nil))
		return
	}
	if verr != nil || vo.Stage != "done" {
		r.Violation("c08.crash.restart-died:"+ctx+":stage-"+vo.Stage+":"+fatalClass(vout),
			fmt.Sprintf("the process reopening the store after a kill at %s (hit %d, during %s) died in stage %q: %s", cc.Point, cc.Hit, inflight, vo.Stage, tailText(vout, 20)), wit(nil))
		return
	}
	if vo.OpenErr != "" {
		r.Violation("c08.crash.reopen-failed:"+ctx+":"+errClass(vo.OpenErr), "NewStore fails after the kill: "+vo.OpenErr, wit(nil))
		return
	}
	// snapshot 1: acknowledged records intact; the interrupted operation all or nothing; nothing else changed
	torn := false
	for _, s := range sc.Pool {
		got := vo.Snap1.Recs[s.Key]
		fb := matchRec(s, before.Recs[s.Key], got, now, false)
		r.Evals(1)
		if len(fb) == 0 {
			if affected[s.Key] {
				r.Count("crash.inflight_absent", 1)
			}
			continue
		}
		if affected[s.Key] {
			fa := matchRec(s, after.Recs[s.Key], got, now, false)
			if len(fa) == 0 {
				r.Count("crash.inflight_visible", 1)
				continue
			}
			torn = true
			r.Violation("c08.crash.torn-"+inflight.class()+":"+ctx+":"+fb[0].Rule+"+"+fa[0].Rule,
				fmt.Sprintf("kill at %s (hit %d) during %s leaves the record neither as before (%s) nor as after the operation (%s)",
					cc.Point, cc.Hit, inflight, fb[0].Msg, fa[0].Msg), wit(got))
			continue
		}
		for _, f := range fb {
			r.Violation("c08.crash.acknowledged-record-changed:"+ctx+":"+f.Rule,
				fmt.Sprintf("kill at %s (hit %d) during %s damaged another record: %s", cc.Point, cc.Hit, inflight, f.Msg), wit(got))
		}
	}
	// pending query: per record the answer of "before" (or of "after" for the interrupted operation's records),
	// and consistent with what the lookup of the same record says
	if vo.Snap1.PendingErr != "" {
		r.Violation("c08.crash.pending-query-error:"+ctx, "QueryPending fails after the kill: "+vo.Snap1.PendingErr, wit(nil))
	} else if !torn {
		got := map[string]bool{}
		for _, k := range vo.Snap1.Pending {
			got[k] = true
			if strings.HasPrefix(k, "?") {
				r.Violation("c08.crash.pending-set:"+ctx+":unknown-record", "QueryPending after the kill returns a record that was never pushed: "+k, wit(vo.Snap1.Pending))
			}
		}
		for _, s := range sc.Pool {
			inB := before.Recs[s.Key] != nil && before.Recs[s.Key].Pending
			inA := after.Recs[s.Key] != nil && after.Recs[s.Key].Pending
			g := got[s.Key]
			if g != inB && !(affected[s.Key] && g == inA) {
				r.Violation("c08.crash.pending-set:"+ctx, fmt.Sprintf("QueryPending after the kill: bundle %s listed=%v, flagged pending before the operation: %v, after it: %v",
					s.Key, g, inB, inA), wit(vo.Snap1.Pending))
			} else if o := vo.Snap1.Recs[s.Key]; o != nil && g != (o.Present && o.Pending) {
				r.Violation("c08.crash.pending-index-inconsistent:"+ctx, fmt.Sprintf("QueryPending after the kill: bundle %s listed=%v but its record says present=%v pending=%v",
					s.Key, g, o.Present, o.Pending), wit(vo.Snap1.Pending))
			}
		}
	}
	// snapshot 2: the retried operation completes
	if vo.RetryErr != "" {
		r.Violation("c08.crash.retry-failed:"+ctx+":"+inflight.class()+":"+errClass(vo.RetryErr),
			fmt.Sprintf("after a kill at %s, retrying %s fails: %s", cc.Point, inflight, vo.RetryErr), wit(nil))
	} else if vo.Snap2 != nil {
		for _, f := range matchAll(after, vo.Snap2, now) {
			r.Violation("c08.crash.retry-incomplete:"+ctx+":"+f.Rule,
				fmt.Sprintf("after a kill at %s and a retry of %s: %s", cc.Point, inflight, f.Msg), wit(vo.Snap2))
		}
		r.Evals(len(sc.Pool))
	}
	if vo.CloseErr != "" {
		r.Violation("c08.crash.close-failed:"+ctx, "Close fails after the kill: "+vo.CloseErr, wit(nil))
	}
	// the node on the directory
	if vo.NodeErr != "" {
		r.Violation("c08.crash.node-start-failed:"+ctx+":"+errClass(vo.NodeErr), "routing.NewCore / the node's store jobs fail after the kill: "+vo.NodeErr, wit(nil))
	} else {
		r.Count("crash.node_starts", 1)
		bnow := bubble.Start.Add(11 * time.Minute)
		for _, s := range sc.Pool {
			want := after.Recs[s.Key]
			if want == nil {
				continue // whether the node still knows deleted bundles is not a store matter
			}
			for n, snap := range []*snapshot{vo.Snap3, vo.Snap4} {
				if snap == nil {
					continue
				}
				stage := []string{"pending-pass", "clean-pass"}[n]
				w := want
				if want.Expires.Before(bnow) {
					if want.Pending {
						// the node's retry job and its clean-store job both work on such a record (and fire at the
						// same instant): what is left of it is decided by the node, not by the store
						r.Count("crash.node_record_pending_and_expired_not_judged", 1)
						continue
					}
					if n == 1 {
						w = nil // the clean-store job removes expired records
						r.Count("crash.node_swept_expired", 1)
					}
				}
				for _, f := range matchRec(s, w, snap.Recs[s.Key], bnow, true) {
					r.Violation("c08.crash.node-"+stage+":"+ctx+":"+f.Rule,
						fmt.Sprintf("after a kill at %s and a node start (%s): %s", cc.Point, stage, f.Msg), wit(snap.Recs[s.Key]))
				}
				r.Evals(1)
			}
		}
	}
	r.Nontrivial("crash", idx, cc.Point, cc.Hit, cc.Op, cc.DelayUs, r.Seed)
	if idx == 0 && cc.Hit == 1 {
		r.Sample(map[string]interface{}{"kind": "kill", "script": idx, "point": cc.Point, "hit": cc.Hit, "acknowledged_ops": ji.Acked,
			"in_flight": inflight.String(), "node_bubble_note": vo.BubbleErr})
	}
}
