package c08

// Reference map, generated bundle pools, operation lists, the store observer and the comparison oracle.
// Nothing in this file looks into the store's implementation: the store is driven and observed through
// storage.Store's exported API (Push, Update, Delete, DeleteExpired, QueryId, QueryPending, KnowsBundle,
// BundlePart.Load, BundleItem.IsComplete / Load).

import (
	"bytes"
	"crypto/sha256"
	"encoding/gob"
	"encoding/hex"
	"fmt"
	"regexp"
	"sort"
	"strings"
	"time"

	"github.com/dtn7/dtn7-go/pkg/bpv7"
	"github.com/dtn7/dtn7-go/pkg/cla"
	"github.com/dtn7/dtn7-go/pkg/routing"
	"github.com/dtn7/dtn7-go/pkg/storage"

	"verifh/internal/bubble"
	"verifh/internal/model"
	"verifh/internal/report"
)

// registerGob registers the same types as routing.NewCore does (a process that reads the store needs them).
func registerGob() {
	gob.Register([]bpv7.EndpointID{})
	gob.Register(bpv7.EndpointID{})
	gob.Register(map[cla.CLAType][]bpv7.EndpointID{})
	gob.Register(bpv7.DtnEndpoint{})
	gob.Register(bpv7.IpnEndpoint{})
	gob.Register(map[routing.Constraint]bool{})
	gob.Register(time.Time{})
}

var digits = regexp.MustCompile(`[0-9]+`)
var hexes = regexp.MustCompile(`[0-9a-f]{16,}`)

// errClass strips the variable parts of an error text.
func errClass(s string) string {
	s = hexes.ReplaceAllString(s, "H")
	s = digits.ReplaceAllString(s, "N")
	s = strings.Join(strings.Fields(s), " ")
	if i := strings.Index(s, "/"); i >= 0 { // paths
		s = regexp.MustCompile(`/\S+`).ReplaceAllString(s, "PATH")
	}
	if len(s) > 80 {
		s = s[:80]
	}
	return s
}

func sha(b []byte) string {
	s := sha256.Sum256(b)
	return hex.EncodeToString(s[:12])
}

// ---------------------------------------------------------------------------------------------------
// pushable items and bundle pools

// item is one pushable unit: a whole bundle or one fragment.
type item struct {
	B     bpv7.Bundle
	Wire  []byte // serialisation of B before it was handed to the store
	Whole bool
	Off   uint64
	Len   uint64
	Total uint64
}

// spec is one bundle of a pool with the ways it can be pushed.
type spec struct {
	Key      string // own name of the bundle: source|time|seq
	M        model.Bundle
	AsWhole  bool // pushed as a whole bundle (fragments then only serve the "fragment of a stored whole bundle" case)
	WholeIt  *item
	Frags    []*item
	Payload  []byte
	Expires  time.Time // creation time + lifetime
	QueryID  bpv7.BundleID
	QueryID2 bpv7.BundleID // ID of a fragment (lookup must resolve to the same record)
}

func serialise(b *bpv7.Bundle) (out []byte, err error) {
	defer func() {
		if p := recover(); p != nil {
			err = fmt.Errorf("panic: %v", p)
		}
	}()
	var buf bytes.Buffer
	err = b.WriteBundle(&buf)
	return buf.Bytes(), err
}

func parse(x []byte) (b bpv7.Bundle, err error) {
	defer func() {
		if p := recover(); p != nil {
			err = fmt.Errorf("panic: %v", p)
		}
	}()
	return bpv7.ParseBundle(bytes.NewReader(x))
}

// mkItem converts a model bundle into what a node would hold after receiving it (serialise, parse) and
// keeps the bytes. ok=false when the repository's codec does not round-trip it (other properties' business).
func mkItem(m model.Bundle) (*item, bool) {
	rb := m.ToBpv7()
	w0, err := serialise(&rb)
	if err != nil {
		return nil, false
	}
	p, err := parse(w0)
	if err != nil {
		return nil, false
	}
	w1, err := serialise(&p)
	if err != nil || !bytes.Equal(w0, w1) {
		return nil, false
	}
	it := &item{B: p, Wire: w1, Whole: !m.IsFragment(), Len: uint64(len(m.Payload()))}
	if m.IsFragment() {
		it.Off, it.Total = m.FragOff, m.Total
	}
	return it, true
}

// split builds well-formed, non-overlapping fragments that partition the payload at the given cut points:
// same primary block plus fragment flag, offset and total length; the first fragment carries all extension
// blocks, the others those flagged "replicate in every fragment".
func split(m model.Bundle, cuts []int) []model.Bundle {
	pay := m.Payload()
	var out []model.Bundle
	for j := 0; j+1 < len(cuts); j++ {
		f := m.Clone()
		f.Flags |= model.FIsFragment
		f.FragOff = uint64(cuts[j])
		f.Total = uint64(len(pay))
		var blks []model.Block
		for _, blk := range f.Blocks {
			if blk.Type == model.TPayload {
				blk.Data = bytes.Clone(pay[cuts[j]:cuts[j+1]])
				blks = append(blks, blk)
			} else if j == 0 || blk.Flags&model.BReplicate != 0 {
				blks = append(blks, blk)
			}
		}
		f.Blocks = blks
		out = append(out, f)
	}
	return out
}

type poolOpts struct {
	NowMs      uint64
	ShortLived bool // some bundles expire minutes after NowMs
	Plain      bool // crash scripts: fixed non-local destination, no hop count / age blocks, long lifetime
	MaxPayload int
	SeqBase    uint64
}

// genSpec draws one bundle; forceFrags > 0 fixes the number of fragments.
func genSpec(rng *report.Rand, o poolOpts, idx int, asWhole bool, forceFrags int) *spec {
	for try := 0; try < 50; try++ {
		m := model.GenBundle(rng, model.GenOpts{NowMs: o.NowMs, MaxPayload: o.MaxPayload, NoMultiMaps: true,
			NoZeroTime: true, NoFragment: true, NoAnonymous: true})
		m.Flags &^= model.FNoFragment | model.FIsFragment
		m.Seq = o.SeqBase + uint64(idx)
		pl := 2 + rng.Intn(o.MaxPayload)
		if !o.Plain && rng.Chance(1, 25) {
			pl = 65530 + rng.Intn(5000)
		}
		m.Blocks[len(m.Blocks)-1].Data = rng.Bytes(pl)
		back := o.NowMs - m.Time
		if o.ShortLived && rng.Chance(1, 2) {
			m.Lifetime = back + 1000 + uint64(rng.Intn(20*60*1000))
		}
		if o.Plain {
			var blks []model.Block
			for _, blk := range m.Blocks {
				if blk.Type != model.THopCount && blk.Type != model.TAge {
					blks = append(blks, blk)
				}
			}
			m.Blocks = blks
			m.Dst = model.Dtn("c08-dst", "in")
			m.Flags &^= model.FAdminRecord | model.FReqAny
			m.Lifetime = back + 10*365*24*3600*1000
		}
		s := &spec{M: m, AsWhole: asWhole, Payload: m.Payload()}
		s.Key = fmt.Sprintf("%s|%d|%d", m.Src, m.Time, m.Seq)
		s.Expires = bubble.Epoch2000.Add(time.Duration(m.Time) * time.Millisecond).Add(time.Duration(m.Lifetime) * time.Millisecond)
		var ok bool
		if s.WholeIt, ok = mkItem(m); !ok {
			continue
		}
		k := forceFrags
		if k <= 0 {
			k = 2 + rng.Intn(5)
		}
		if k > pl {
			k = pl
		}
		cutset := map[int]bool{0: true, pl: true}
		for len(cutset) < k+1 {
			cutset[1+rng.Intn(pl-1)] = true
		}
		var cuts []int
		for c := range cutset {
			cuts = append(cuts, c)
		}
		sort.Ints(cuts)
		good := true
		for _, fm := range split(m, cuts) {
			it, ok := mkItem(fm)
			if !ok {
				good = false
				break
			}
			s.Frags = append(s.Frags, it)
		}
		if !good {
			continue
		}
		s.QueryID = s.WholeIt.B.ID()
		s.QueryID2 = s.Frags[len(s.Frags)-1].B.ID()
		return s
	}
	panic("c08: bundle generator could not produce a round-tripping bundle in 50 tries")
}

// ---------------------------------------------------------------------------------------------------
// operations

type op struct {
	Kind    string `json:"kind"` // push update staleupdate delete sweep sleep reopen
	B       int    `json:"b"`
	F       int    `json:"f"`                 // fragment index, -1 = whole bundle
	Pending int    `json:"pending,omitempty"` // update: 0 keep, 1 set true, 2 set false
	PropKey string `json:"prop_key,omitempty"`
	PropVal int    `json:"prop_val,omitempty"` // 0 keep, -1 delete key, 1.. value kinds
	Salt    int    `json:"salt,omitempty"`
	Expiry  int64  `json:"expiry,omitempty"` // update: absolute unix ms, 0 keep
	SleepMs int64  `json:"sleep_ms,omitempty"`
}

func (o op) String() string {
	switch o.Kind {
	case "push":
		if o.F < 0 {
			return fmt.Sprintf("push(b%d whole)", o.B)
		}
		return fmt.Sprintf("push(b%d frag%d)", o.B, o.F)
	case "update":
		return fmt.Sprintf("update(b%d pending=%d prop=%s/%d expiry=%d)", o.B, o.Pending, o.PropKey, o.PropVal, o.Expiry)
	case "sleep", "sweep":
		return fmt.Sprintf("%s(%dms)", o.Kind, o.SleepMs)
	}
	return fmt.Sprintf("%s(b%d)", o.Kind, o.B)
}

// class names the operation kind for signatures.
func (o op) class() string {
	if o.Kind == "push" {
		if o.F < 0 {
			return "push-bundle"
		}
		return "push-fragment"
	}
	return o.Kind
}

// property values as the node stores them (plus plain ones)
func propValue(kind int, salt int) interface{} {
	switch kind {
	case 1:
		return fmt.Sprintf("text-%d", salt)
	case 2:
		return salt
	case 3:
		return salt%2 == 0
	case 4:
		return bpv7.MustNewEndpointID(fmt.Sprintf("dtn://peer-%d/in", salt))
	case 5:
		return time.Unix(1_700_000_000+int64(salt), int64(salt)*1000).UTC()
	case 6:
		return map[routing.Constraint]bool{routing.ForwardPending: true, routing.Constraint(salt % 5): salt%2 == 0}
	default:
		return []bpv7.EndpointID{bpv7.MustNewEndpointID("ipn:7.1"), bpv7.MustNewEndpointID(fmt.Sprintf("dtn://n%d/", salt))}
	}
}

const propKinds = 7

func canonProp(v interface{}) string {
	switch x := v.(type) {
	case time.Time:
		return fmt.Sprintf("time:%d", x.UnixNano())
	case bpv7.EndpointID:
		return "eid:" + x.String()
	case []bpv7.EndpointID:
		s := "eids:"
		for _, e := range x {
			s += e.String() + ","
		}
		return s
	case map[routing.Constraint]bool:
		var ks []int
		for k := range x {
			ks = append(ks, int(k))
		}
		sort.Ints(ks)
		s := "constraints:"
		for _, k := range ks {
			s += fmt.Sprintf("%d=%v,", k, x[routing.Constraint(k)])
		}
		return s
	}
	return fmt.Sprintf("%T:%v", v, v)
}

// ---------------------------------------------------------------------------------------------------
// reference map

type refRec struct {
	Whole   bool
	Parts   map[[2]uint64]*item // (offset,total) -> fragment; the whole bundle sits under (0,0)
	Pending bool
	Props   map[string]string
	Expires time.Time
	Total   uint64
}

func (rr *refRec) clone() *refRec {
	c := *rr
	c.Parts = map[[2]uint64]*item{}
	for k, v := range rr.Parts {
		c.Parts[k] = v
	}
	c.Props = map[string]string{}
	for k, v := range rr.Props {
		c.Props[k] = v
	}
	return &c
}

// covered: own interval union over the stored fragments.
func (rr *refRec) covered() bool {
	if rr.Whole {
		return true
	}
	type iv struct{ a, b uint64 }
	var ivs []iv
	for _, it := range rr.Parts {
		ivs = append(ivs, iv{it.Off, it.Off + it.Len})
	}
	sort.Slice(ivs, func(i, j int) bool { return ivs[i].a < ivs[j].a })
	reach := uint64(0)
	for _, v := range ivs {
		if v.a > reach {
			return false
		}
		if v.b > reach {
			reach = v.b
		}
	}
	return reach >= rr.Total
}

type refMap struct {
	Pool []*spec
	Recs map[string]*refRec // by spec.Key
}

func newRef(pool []*spec) *refMap { return &refMap{Pool: pool, Recs: map[string]*refRec{}} }

func (rm *refMap) clone() *refMap {
	c := newRef(rm.Pool)
	for k, v := range rm.Recs {
		c.Recs[k] = v.clone()
	}
	return c
}

func (rm *refMap) itemOf(o op) *item {
	s := rm.Pool[o.B]
	if o.F < 0 {
		return s.WholeIt
	}
	return s.Frags[o.F]
}

// apply executes one operation on the reference map; now is the instant at which the store executes it.
// It returns the keys whose record may change.
func (rm *refMap) apply(o op, now time.Time) (affected []string) {
	switch o.Kind {
	case "push":
		s := rm.Pool[o.B]
		it := rm.itemOf(o)
		rec := rm.Recs[s.Key]
		switch {
		case rec == nil:
			rec = &refRec{Whole: it.Whole, Parts: map[[2]uint64]*item{{it.Off, it.Total}: it}, Props: map[string]string{},
				Expires: s.Expires, Total: it.Total}
			rm.Recs[s.Key] = rec
		case rec.Whole:
			// whole bundle already stored: a second copy or a fragment of it adds nothing
		case it.Whole:
			panic("c08: the generator must not push a whole bundle onto a fragment record")
		default:
			if _, dup := rec.Parts[[2]uint64{it.Off, it.Total}]; !dup {
				rec.Parts[[2]uint64{it.Off, it.Total}] = it
			}
		}
		return []string{s.Key}
	case "update":
		s := rm.Pool[o.B]
		rec := rm.Recs[s.Key]
		if rec == nil {
			return nil
		}
		switch o.Pending {
		case 1:
			rec.Pending = true
		case 2:
			rec.Pending = false
		}
		if o.PropVal == -1 {
			delete(rec.Props, o.PropKey)
		} else if o.PropVal > 0 {
			rec.Props[o.PropKey] = canonProp(propValue(o.PropVal, o.Salt))
		}
		if o.Expiry != 0 {
			rec.Expires = time.UnixMilli(o.Expiry).UTC()
		}
		return []string{s.Key}
	case "staleupdate":
		return []string{rm.Pool[o.B].Key} // must not bring the record back
	case "delete":
		delete(rm.Recs, rm.Pool[o.B].Key)
		return []string{rm.Pool[o.B].Key}
	case "sweep":
		for k, rec := range rm.Recs {
			if rec.Expires.Before(now) {
				delete(rm.Recs, k)
				affected = append(affected, k)
			}
		}
		return affected
	}
	return nil
}

// ---------------------------------------------------------------------------------------------------
// generated operation lists (a function of the PRNG and of the reference map only)

type genCfg struct {
	N        int
	Start    time.Time
	NoTime   bool // no sleeps; expiry updates use fixed past / far-future instants (crash scripts run on the real clock)
	NoReopen bool
}

var (
	longAgo   = time.Date(2001, 1, 1, 0, 0, 0, 0, time.UTC).UnixMilli()
	farFuture = time.Date(2060, 1, 1, 0, 0, 0, 0, time.UTC).UnixMilli()
)

func genOps(rng *report.Rand, pool []*spec, cfg genCfg) []op {
	rm := newRef(pool)
	now := cfg.Start
	hadItem := map[int]bool{} // an update read the record of this bundle at some time (a stale copy exists)
	var ops []op
	sleepTo := func(ms int64) int64 {
		for {
			t := now.Add(time.Duration(ms) * time.Millisecond)
			clash := false
			for _, rec := range rm.Recs {
				if rec.Expires.Equal(t) {
					clash = true
				}
			}
			for _, s := range pool {
				if s.Expires.Equal(t) {
					clash = true
				}
			}
			if !clash {
				now = t
				return ms
			}
			ms++
		}
	}
	sleepLen := func() int64 {
		switch rng.Intn(4) {
		case 0:
			return int64(1 + rng.Intn(1000))
		case 1:
			return int64(1000 + rng.Intn(120_000))
		case 2:
			return int64(60_000 + rng.Intn(30*60_000))
		}
		return int64(1 + rng.Intn(5*60_000))
	}
	for len(ops) < cfg.N {
		var o op
		b := rng.Intn(len(pool))
		s := pool[b]
		rec := rm.Recs[s.Key]
		switch k := rng.Intn(100); {
		case k < 40:
			o = op{Kind: "push", B: b, F: -1}
			if s.AsWhole {
				if rec != nil && rec.Whole && rng.Chance(1, 5) {
					o.F = rng.Intn(len(s.Frags)) // fragment of a bundle that is stored as a whole
				}
			} else {
				o.F = rng.Intn(len(s.Frags))
				if rec != nil && rng.Chance(3, 4) { // prefer a fragment that is not yet stored
					for _, j := range rng.Perm(len(s.Frags)) {
						if _, have := rec.Parts[[2]uint64{s.Frags[j].Off, s.Frags[j].Total}]; !have {
							o.F = j
							break
						}
					}
				}
			}
		case k < 62:
			if rec == nil && rng.Chance(3, 4) { // prefer a stored bundle
				for _, j := range rng.Perm(len(pool)) {
					if rm.Recs[pool[j].Key] != nil {
						b, s, rec = j, pool[j], rm.Recs[pool[j].Key]
						break
					}
				}
			}
			o = op{Kind: "update", B: b}
			what := 1 + rng.Intn(7)
			if what&1 != 0 {
				o.Pending = 1 + rng.Intn(2)
			}
			if what&2 != 0 {
				// keys the node itself reads carry the node's types (a node is started on the crash scripts' stores)
				switch rng.Intn(5) {
				case 0:
					o.PropKey, o.PropVal = "bundlepack/receiver", 4
				case 1:
					o.PropKey, o.PropVal = "bundlepack/timestamp", 5
				case 2:
					o.PropKey, o.PropVal = "bundlepack/constraints", 6
				case 3:
					o.PropKey, o.PropVal = "c08/x", 1+rng.Intn(propKinds)
				default:
					o.PropKey, o.PropVal = "k", 1+rng.Intn(3)
				}
				o.Salt = rng.Intn(1000)
				if rng.Chance(1, 6) {
					o.PropVal = -1
				}
			}
			if what&4 != 0 {
				if cfg.NoTime {
					o.Expiry = []int64{longAgo, farFuture}[rng.Intn(2)]
				} else {
					d := int64(1 + rng.Intn(3_600_000))
					if rng.Bool() {
						d = -d
					}
					o.Expiry = now.UnixMilli() + d
				}
			}
			if rec != nil {
				hadItem[b] = true
			}
		case k < 66:
			if rec != nil || !hadItem[b] {
				continue
			}
			o = op{Kind: "staleupdate", B: b}
		case k < 78:
			if rec == nil && rng.Chance(2, 3) {
				continue
			}
			o = op{Kind: "delete", B: b}
		case k < 88:
			o = op{Kind: "sweep"}
			if !cfg.NoTime {
				o.SleepMs = sleepTo(sleepLen())
			}
		case k < 94:
			if cfg.NoTime {
				continue
			}
			o = op{Kind: "sleep", SleepMs: sleepTo(sleepLen())}
		default:
			if cfg.NoReopen || len(ops) == 0 || ops[len(ops)-1].Kind == "reopen" {
				continue
			}
			o = op{Kind: "reopen"}
		}
		rm.apply(o, now)
		ops = append(ops, o)
	}
	return ops
}

// ---------------------------------------------------------------------------------------------------
// executing operations on the real store

type storeCtx struct {
	Dir   string
	St    *storage.Store
	Pool  []*spec
	Stale map[int]storage.BundleItem
}

func guard(f func() error) (err error) {
	defer func() {
		if p := recover(); p != nil {
			err = fmt.Errorf("panic: %v", p)
		}
	}()
	return f()
}

func (sc *storeCtx) open() error {
	return guard(func() error {
		st, err := storage.NewStore(sc.Dir)
		sc.St = st
		return err
	})
}

func (sc *storeCtx) close() error {
	if sc.St == nil {
		return nil
	}
	st := sc.St
	sc.St = nil
	return guard(st.Close)
}

// exec runs one operation against the store. Sleeping is done by the caller (bubble clock).
func (sc *storeCtx) exec(o op) error {
	switch o.Kind {
	case "push":
		s := sc.Pool[o.B]
		it := s.WholeIt
		if o.F >= 0 {
			it = s.Frags[o.F]
		}
		return guard(func() error { return sc.St.Push(it.B) })
	case "update":
		s := sc.Pool[o.B]
		return guard(func() error {
			bi, err := sc.St.QueryId(s.QueryID)
			if err != nil {
				return nil // nothing stored under this ID: nothing to update
			}
			if sc.Stale == nil {
				sc.Stale = map[int]storage.BundleItem{}
			}
			sc.Stale[o.B] = bi
			switch o.Pending {
			case 1:
				bi.Pending = true
			case 2:
				bi.Pending = false
			}
			if o.PropVal != 0 {
				// a copy: the stale item keeps its own map
				np := map[string]interface{}{}
				for k, v := range bi.Properties {
					np[k] = v
				}
				if o.PropVal == -1 {
					delete(np, o.PropKey)
				} else {
					np[o.PropKey] = propValue(o.PropVal, o.Salt)
				}
				bi.Properties = np
			}
			if o.Expiry != 0 {
				bi.Expires = time.UnixMilli(o.Expiry).UTC()
			}
			return sc.St.Update(bi)
		})
	case "staleupdate":
		bi, ok := sc.Stale[o.B]
		if !ok {
			return nil
		}
		_ = guard(func() error { return sc.St.Update(bi) }) // an error ("not found") is the expected answer
		return nil
	case "delete":
		return guard(func() error { return sc.St.Delete(sc.Pool[o.B].QueryID) })
	case "sweep":
		return guard(func() error { sc.St.DeleteExpired(); return nil })
	case "reopen":
		if err := sc.close(); err != nil {
			return fmt.Errorf("close: %v", err)
		}
		return sc.open()
	}
	return nil
}

// ---------------------------------------------------------------------------------------------------
// observing the store

type obsPart struct {
	Off     uint64 `json:"off"`
	Total   uint64 `json:"total"`
	LoadErr string `json:"load_err,omitempty"`
	Sha     string `json:"sha,omitempty"` // of the loaded part, serialised again
	Len     int    `json:"len,omitempty"`
}

type obsRec struct {
	Present    bool              `json:"present"`
	QueryErr   string            `json:"query_err,omitempty"`
	Present2   bool              `json:"present2"` // lookup through a fragment's ID
	Knows      bool              `json:"knows"`
	Id         string            `json:"id,omitempty"`
	Fragmented bool              `json:"fragmented,omitempty"`
	Pending    bool              `json:"pending,omitempty"`
	ExpiresNs  int64             `json:"expires_ns,omitempty"`
	Props      map[string]string `json:"props,omitempty"`
	Parts      []obsPart         `json:"parts,omitempty"`
	Complete   bool              `json:"complete,omitempty"`
	CompErr    string            `json:"complete_err,omitempty"`
	LoadErr    string            `json:"load_err,omitempty"`
	LoadPaySha string            `json:"load_payload_sha,omitempty"`
	LoadID     string            `json:"load_id,omitempty"`
}

type snapshot struct {
	Recs       map[string]*obsRec `json:"recs"`
	Pending    []string           `json:"pending"` // spec keys, or "?<store id>" for records outside the pool
	PendingErr string             `json:"pending_err,omitempty"`
	Err        string             `json:"err,omitempty"`
}

// observe queries everything the property talks about for every bundle of the pool.
func observe(st *storage.Store, pool []*spec) *snapshot {
	snap := &snapshot{Recs: map[string]*obsRec{}}
	idToKey := map[string]string{}
	for _, s := range pool {
		o := &obsRec{}
		snap.Recs[s.Key] = o
		idToKey[s.QueryID.Scrub().String()] = s.Key
		var bi storage.BundleItem
		err := guard(func() (e error) { bi, e = st.QueryId(s.QueryID); return })
		if err != nil {
			o.QueryErr = err.Error()
		} else {
			o.Present = true
		}
		_ = guard(func() error { _, e := st.QueryId(s.QueryID2); o.Present2 = e == nil; return nil })
		_ = guard(func() error { o.Knows = st.KnowsBundle(s.QueryID); return nil })
		if !o.Present {
			continue
		}
		o.Id, o.Fragmented, o.Pending, o.ExpiresNs = bi.Id, bi.Fragmented, bi.Pending, bi.Expires.UnixNano()
		o.Props = map[string]string{}
		for k, v := range bi.Properties {
			o.Props[k] = canonProp(v)
		}
		for _, p := range bi.Parts {
			op := obsPart{Off: p.FragmentOffset, Total: p.TotalDataLength}
			var b bpv7.Bundle
			if err := guard(func() (e error) { b, e = p.Load(); return }); err != nil {
				op.LoadErr = err.Error()
			} else if w, err := serialise(&b); err != nil {
				op.LoadErr = "re-serialising the loaded part: " + err.Error()
			} else {
				op.Sha, op.Len = sha(w), len(w)
			}
			o.Parts = append(o.Parts, op)
		}
		if err := guard(func() error { o.Complete = bi.IsComplete(); return nil }); err != nil {
			o.CompErr = err.Error()
		}
		if bi.Fragmented {
			var b bpv7.Bundle
			if err := guard(func() (e error) { b, e = bi.Load(); return }); err != nil {
				o.LoadErr = err.Error()
			} else if pb, err := b.PayloadBlock(); err != nil {
				o.LoadErr = "no payload block: " + err.Error()
			} else {
				o.LoadPaySha = sha(pb.Value.(*bpv7.PayloadBlock).Data())
				o.LoadID = b.ID().String()
			}
		}
	}
	var bis []storage.BundleItem
	if err := guard(func() (e error) { bis, e = st.QueryPending(); return }); err != nil {
		snap.PendingErr = err.Error()
	}
	for _, bi := range bis {
		if k, ok := idToKey[bi.Id]; ok {
			snap.Pending = append(snap.Pending, k)
		} else {
			snap.Pending = append(snap.Pending, "?"+bi.Id)
		}
	}
	sort.Strings(snap.Pending)
	return snap
}

// ---------------------------------------------------------------------------------------------------
// the oracle

type finding struct {
	Rule string
	Msg  string
}

// matchRec compares one observed record with one reference record (nil = must be absent).
// now decides whether a part may legitimately fail to parse (the parser rejects bundles past their lifetime).
// weak: only existence and part contents are demanded (after a node ran on the store and added its own metadata).
func matchRec(s *spec, want *refRec, got *obsRec, now time.Time, weak bool) []finding {
	var fs []finding
	add := func(rule, format string, a ...interface{}) {
		fs = append(fs, finding{rule, fmt.Sprintf("bundle %s: ", s.Key) + fmt.Sprintf(format, a...)})
	}
	if got == nil {
		add("not-observed", "no observation")
		return fs
	}
	if want == nil {
		if got.Present || got.Present2 {
			add("lookup-unexpected", "lookup returns a record that was never inserted, or was deleted or swept (parts=%d)", len(got.Parts))
		}
		if got.Knows {
			add("knows-unexpected", "KnowsBundle is true for a bundle that is not stored (lookup error: %q)", got.QueryErr)
		}
		return fs
	}
	if !got.Present {
		add("lookup-missing", "lookup fails (%s) for a stored record", got.QueryErr)
		return fs
	}
	if !got.Present2 {
		add("lookup-by-fragment-id", "lookup through a fragment's ID does not find the bundle's record")
	}
	if !got.Knows {
		add("knows-missing", "KnowsBundle is false for a stored record")
	}
	// parts: each distinct fragment once
	seen := map[[2]uint64]int{}
	expired := s.Expires.Before(now) // bundle lifetime (not the record's expiry field) is over: parser refuses it
	for _, p := range got.Parts {
		k := [2]uint64{p.Off, p.Total}
		seen[k]++
		it, ok := want.Parts[k]
		if !ok {
			add("part-unexpected", "record lists a part (offset %d, total %d) that was not pushed", p.Off, p.Total)
			continue
		}
		if p.LoadErr != "" {
			if !expired {
				add("part-unreadable", "part (offset %d, total %d) cannot be loaded: %s", p.Off, p.Total, p.LoadErr)
			}
			continue
		}
		if p.Sha != sha(it.Wire) {
			add("part-bytes", "part (offset %d, total %d) reads back different bytes (%d bytes, pushed %d)", p.Off, p.Total, p.Len, len(it.Wire))
		}
	}
	for k, n := range seen {
		if n > 1 {
			add("part-duplicate", "fragment (offset %d, total %d) is listed %d times", k[0], k[1], n)
		}
	}
	for k := range want.Parts {
		if seen[k] == 0 {
			add("part-missing", "pushed part (offset %d, total %d) is not in the record (%d of %d parts present)", k[0], k[1], len(seen), len(want.Parts))
		}
	}
	if got.Fragmented == want.Whole {
		add("fragmented-flag", "record says fragmented=%v for a %s", got.Fragmented, map[bool]string{true: "whole bundle", false: "fragment set"}[want.Whole])
	}
	if weak {
		return fs
	}
	if got.Pending != want.Pending {
		add("pending-flag", "pending flag is %v, reference says %v", got.Pending, want.Pending)
	}
	if got.ExpiresNs != want.Expires.UnixNano() {
		add("expiry", "expiry is %s, reference says %s", time.Unix(0, got.ExpiresNs).UTC(), want.Expires)
	}
	if len(got.Props) != len(want.Props) {
		add("properties", "properties are %v, reference says %v", got.Props, want.Props)
	} else {
		for k, v := range want.Props {
			if got.Props[k] != v {
				add("properties", "property %q is %q, reference says %q", k, got.Props[k], v)
				break
			}
		}
	}
	// completeness (needs parsable parts)
	if !expired && len(fs) == 0 {
		cov := want.covered()
		if got.CompErr != "" {
			add("complete-panic", "IsComplete: %s", got.CompErr)
		} else if got.Complete != cov {
			add("complete", "IsComplete is %v but the stored fragments %s the payload [0,%d)", got.Complete,
				map[bool]string{true: "cover", false: "do not cover"}[cov], want.Total)
		}
		if !want.Whole && cov {
			if got.LoadErr != "" {
				add("load-complete", "Load of a complete fragment set fails: %s", got.LoadErr)
			} else if got.LoadPaySha != sha(s.Payload) {
				add("load-payload", "Load of a complete fragment set returns a different payload")
			} else if got.LoadID != s.QueryID.String() {
				add("load-id", "Load of a complete fragment set returns bundle %s instead of %s", got.LoadID, s.QueryID)
			}
		}
	}
	return fs
}

// matchAll compares a whole snapshot with the reference map.
func matchAll(rm *refMap, snap *snapshot, now time.Time) []finding {
	var fs []finding
	var wantPending []string
	for _, s := range rm.Pool {
		fs = append(fs, matchRec(s, rm.Recs[s.Key], snap.Recs[s.Key], now, false)...)
		if rec := rm.Recs[s.Key]; rec != nil && rec.Pending {
			wantPending = append(wantPending, s.Key)
		}
	}
	sort.Strings(wantPending)
	if snap.PendingErr != "" {
		fs = append(fs, finding{"pending-query-error", "QueryPending: " + snap.PendingErr})
	} else if strings.Join(wantPending, "\n") != strings.Join(snap.Pending, "\n") {
		fs = append(fs, finding{"pending-set", fmt.Sprintf("QueryPending returns %d record(s) %v, the records flagged pending are %d: %v",
			len(snap.Pending), snap.Pending, len(wantPending), wantPending)})
	}
	return fs
}
