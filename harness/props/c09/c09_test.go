package c09

import (
	"bytes"
	"encoding/hex"
	"fmt"
	"testing"

	"github.com/dtn7/dtn7-go/pkg/bpv7"

	"verifh/internal/bubble"
	"verifh/internal/model"
	"verifh/internal/report"
)

func serialise(b *bpv7.Bundle) (out []byte, err error) {
	defer func() {
		if p := recover(); p != nil {
			err = fmt.Errorf("panic: %v", p)
		}
	}()
	var buf bytes.Buffer
	err = b.WriteBundle(&buf)
	return buf.Bytes(), err
}

func parse(x []byte) (b bpv7.Bundle, err error) {
	defer func() {
		if p := recover(); p != nil {
			err = fmt.Errorf("panic: %v", p)
		}
	}()
	return bpv7.ParseBundle(bytes.NewReader(x))
}

func fragment(b bpv7.Bundle, mtu int) (fs []bpv7.Bundle, err error, pan interface{}) {
	defer func() {
		if p := recover(); p != nil {
			pan = p
		}
	}()
	fs, err = b.Fragment(mtu)
	return
}

func reassemble(fs []bpv7.Bundle) (b bpv7.Bundle, err error, pan interface{}) {
	defer func() {
		if p := recover(); p != nil {
			pan = p
		}
	}()
	b, err = bpv7.ReassembleFragments(fs)
	return
}

type ctx struct {
	r   *report.Run
	now uint64
}

// one applies the whole oracle to (bundle, mtu).
func (c ctx) one(m model.Bundle, mtu int, rng *report.Rand) {
	r := c.r
	wit := func(extra ...interface{}) map[string]interface{} {
		w := map[string]interface{}{"bundle": m, "mtu": mtu}
		for i := 0; i+1 < len(extra); i += 2 {
			w[extra[i].(string)] = extra[i+1]
		}
		return w
	}
	// each call gets its own struct values: Fragment must not be handed shared slices of an earlier call
	orig := m.ToBpv7()
	ox, err := serialise(&orig)
	if err != nil {
		r.Count("harness.unserialisable_input", 1)
		return
	}
	in, err := parse(ox) // the bundle as a node would hold it
	if err != nil {
		r.Count("harness.unparseable_input", 1)
		return
	}
	fits := len(ox) <= mtu
	mnf := m.Flags&model.FNoFragment != 0
	r.Evals(1)

	fs, ferr, pan := fragment(in, mtu)
	if pan != nil {
		r.Violation("c09.panic", fmt.Sprintf("Fragment panicked: %v", pan), wit())
		return
	}
	if mnf {
		if ferr == nil && !fits {
			r.Violation("c09.must-not-fragment-split", "a must-not-fragment bundle that does not fit was not refused", wit())
		}
		if ferr != nil {
			r.Count("refused.must_not_fragment", 1)
			return
		}
	}
	if fits {
		r.Count("fits", 1)
		if ferr != nil {
			r.Violation("c09.fitting-bundle-error", "a bundle that already fits was refused: "+ferr.Error(), wit("size", len(ox)))
			return
		}
		if len(fs) != 1 {
			class := "split"
			if len(fs) == 0 {
				class = "empty-list"
			}
			if len(m.Payload()) == 0 {
				class += ":empty-payload"
			}
			r.Violation("c09.fitting-bundle-not-itself:"+class, fmt.Sprintf("a bundle of %d bytes fits into %d but Fragment returned %d bundles", len(ox), mtu, len(fs)), wit("size", len(ox)))
			return
		}
		fx, err := serialise(&fs[0])
		if err != nil || !bytes.Equal(fx, ox) {
			r.Violation("c09.fitting-bundle-changed", "a fitting bundle was not returned as itself", wit("got", hex.EncodeToString(fx)))
			return
		}
		r.Nontrivial("fits", ox, mtu)
		return
	}
	if ferr != nil {
		r.Count("refused.error", 1)
		return
	}
	if len(fs) == 0 {
		class := "nonempty-payload"
		if len(m.Payload()) == 0 {
			class = "empty-payload"
		}
		r.Violation("c09.empty-list:"+class, "Fragment returned an empty list without error", wit())
		return
	}
	r.Count("fragmented", 1)
	r.Count("fragments", len(fs))

	payload := m.Payload()
	type iv struct{ off, end uint64 }
	var ivs []iv
	for k := range fs {
		f := &fs[k]
		fx, err := serialise(f)
		if err != nil {
			r.Violation("c09.fragment-unserialisable", err.Error(), wit("index", k))
			return
		}
		if len(fx) > mtu {
			r.Violation("c09.fragment-too-big", fmt.Sprintf("fragment %d serialises to %d bytes > limit %d", k, len(fx), mtu), wit("index", k, "fragment", hex.EncodeToString(fx)))
			return
		}
		p, err := parse(fx)
		if err != nil {
			r.Violation("c09.fragment-invalid", "fragment rejected by the parser: "+err.Error(), wit("index", k, "fragment", hex.EncodeToString(fx)))
			return
		}
		fm := model.FromBpv7(p)
		if bad := fm.Invalid(c.now); len(bad) > 0 {
			r.Violation("c09.fragment-malformed:"+bad[0], fmt.Sprintf("fragment breaks %v", bad), wit("index", k))
			return
		}
		if !fm.IsFragment() {
			r.Violation("c09.fragment-flag", "fragment lacks the fragment flag", wit("index", k))
			return
		}
		if fm.Src != m.Src || fm.Dst != m.Dst || fm.Rpt != m.Rpt || fm.Time != m.Time || fm.Seq != m.Seq || fm.Lifetime != m.Lifetime ||
			fm.Flags != m.Flags|model.FIsFragment || fm.Version != m.Version || fm.CRC != m.CRC {
			r.Violation("c09.fragment-primary-differs", "fragment's primary block fields differ from the original's", wit("index", k, "fragment", fm.Canon()))
			return
		}
		if fm.Total != uint64(len(payload)) {
			r.Violation("c09.total-length", fmt.Sprintf("total data length %d != payload length %d", fm.Total, len(payload)), wit("index", k))
			return
		}
		fp := fm.Payload()
		if fm.FragOff+uint64(len(fp)) > uint64(len(payload)) || !bytes.Equal(fp, payload[fm.FragOff:fm.FragOff+uint64(len(fp))]) {
			r.Violation("c09.fragment-payload", "fragment payload is not the original's slice at its offset", wit("index", k))
			return
		}
		ivs = append(ivs, iv{fm.FragOff, fm.FragOff + uint64(len(fp))})
		// extension blocks: all in the fragment holding offset 0, exactly the replicate-flagged ones elsewhere
		var want []model.Block
		for _, b := range m.Blocks {
			if b.Type == model.TPayload {
				continue
			}
			if fm.FragOff == 0 || b.Flags&model.BReplicate != 0 {
				want = append(want, b)
			}
		}
		var got []model.Block
		for _, b := range fm.Blocks {
			if b.Type != model.TPayload {
				got = append(got, b)
			}
		}
		if !sameBlockSet(want, got) {
			r.Violation("c09.extension-blocks", "fragment carries the wrong extension blocks (content compared; numbers ignored)",
				wit("index", k, "offset", fm.FragOff, "fragment", fm.Canon()))
			return
		}
	}
	// partition without gap or overlap, in the returned order
	pos := uint64(0)
	for k, v := range ivs {
		if v.off != pos {
			r.Violation("c09.partition", fmt.Sprintf("fragment %d starts at %d, expected %d (gap or overlap)", k, v.off, pos), wit())
			return
		}
		if v.end == v.off && len(payload) > 0 {
			r.Violation("c09.empty-fragment", "fragment with empty payload", wit("index", k))
			return
		}
		pos = v.end
	}
	if pos != uint64(len(payload)) {
		r.Violation("c09.partition", fmt.Sprintf("fragments end at %d, payload has %d bytes", pos, len(payload)), wit())
		return
	}

	// reassembly in any order is byte-identical to the original
	orders := [][]int{}
	n := len(fs)
	if n <= 4 {
		orders = perms(n)
	} else {
		for k := 0; k < 6; k++ {
			orders = append(orders, rng.Perm(n))
		}
		rev := make([]int, n)
		for i := range rev {
			rev[i] = n - 1 - i
		}
		orders = append(orders, rev)
	}
	for _, ord := range orders {
		in := make([]bpv7.Bundle, n)
		for i, j := range ord {
			// fragments as a receiving node would see them: parsed from their own bytes
			fx, _ := serialise(&fs[j])
			in[i], _ = parse(fx)
		}
		re, err, pan := reassemble(in)
		r.Evals(1)
		if pan != nil {
			r.Violation("c09.reassembly-panic", fmt.Sprintf("%v", pan), wit("order", ord))
			return
		}
		if err != nil {
			r.Violation("c09.reassembly-error", "reassembling all fragments failed: "+err.Error(), wit("order", ord))
			return
		}
		rx, err := serialise(&re)
		if err != nil {
			r.Violation("c09.reassembly-unserialisable", err.Error(), wit("order", ord))
			return
		}
		if !bytes.Equal(rx, ox) {
			class := "other"
			rm := model.FromBpv7(re)
			switch {
			case !bytes.Equal(rm.Payload(), payload):
				class = "payload"
			case len(rm.Blocks) != len(m.Blocks):
				class = "block-count"
			default:
				for i := range rm.Blocks {
					if rm.Blocks[i].Type != m.Blocks[i].Type {
						class = "block-order"
						break
					}
					if rm.Blocks[i].Num != m.Blocks[i].Num {
						class = "block-numbers"
						break
					}
				}
			}
			r.Violation("c09.reassembly-not-identical:"+class, "reassembled bundle does not serialise byte-identically to the original",
				wit("order", ord, "original", hex.EncodeToString(ox), "reassembled", hex.EncodeToString(rx)))
			return
		}
	}
	r.Count("reassembled_identically", len(orders))
	r.Nontrivial("frag", ox, mtu)
}

func sameBlockSet(want, got []model.Block) bool {
	if len(want) != len(got) {
		return false
	}
	key := func(b model.Block) string {
		b.Num = 0
		return b.Canon()
	}
	cnt := map[string]int{}
	for _, b := range want {
		cnt[key(b)]++
	}
	for _, b := range got {
		cnt[key(b)]--
	}
	for _, v := range cnt {
		if v != 0 {
			return false
		}
	}
	return true
}

func perms(n int) [][]int {
	var out [][]int
	var rec func(cur []int, used int)
	rec = func(cur []int, used int) {
		if len(cur) == n {
			out = append(out, append([]int(nil), cur...))
			return
		}
		for i := 0; i < n; i++ {
			if used>>uint(i)&1 == 0 {
				rec(append(cur, i), used|1<<uint(i))
			}
		}
	}
	rec(nil, 0)
	return out
}

// layouts are the block mixes used for the exhaustive small-payload sweep.
func layout(k int, rng *report.Rand, now uint64, payload int) model.Bundle {
	src := model.Dtn("src", "a")
	m := model.Bundle{Version: 7, CRC: uint64(k % 3), Dst: model.Dtn("dst", "in"), Src: src, Rpt: src, Time: now - 1000, Seq: uint64(k), Lifetime: 3_600_000 * 24}
	pay := model.Block{Type: model.TPayload, Num: 1, CRC: uint64((k + 1) % 3), Data: rng.Bytes(payload)}
	switch k % 10 {
	case 0: // payload only
	case 1: // builder-like: sequential numbers, replicate flags
		m.Blocks = []model.Block{{Type: model.THopCount, Num: 2, Flags: model.BReplicate, Limit: 64, Count: 3, CRC: 2},
			{Type: model.TAge, Num: 3, Flags: model.BReplicate, U: 77}}
	case 2: // non-replicated blocks
		m.Blocks = []model.Block{{Type: model.TPrevNode, Num: 2, Node: model.Dtn("prev", "")}, {Type: 200, Num: 3, Data: []byte{1, 2, 3}, CRC: 1}}
	case 3: // mixed, numbers not sequential, wire order not by number
		m.Blocks = []model.Block{{Type: model.TAge, Num: 9, Flags: model.BReplicate, U: 5}, {Type: model.THopCount, Num: 4, Limit: 9, Count: 9},
			{Type: 201, Num: 30, Flags: model.BReplicate | model.BRemove, Data: []byte("xyz"), CRC: 2}}
	case 4: // zero creation time
		m.Time = 0
		m.Blocks = []model.Block{{Type: model.TAge, Num: 2, Flags: model.BReplicate, U: 1000}}
	case 5: // ipn endpoints, report requests
		m.Src, m.Dst, m.Rpt = model.Ipn(23, 42), model.Ipn(1<<32, 1), model.Ipn(255, 256)
		m.Flags = model.FReqDeliv | model.FStatusTime
		m.Blocks = []model.Block{{Type: model.TSpray, Num: 2, U: 8}}
	case 6: // big block numbers
		m.Blocks = []model.Block{{Type: model.TPrevNode, Num: 70000, Flags: model.BReplicate, Node: model.Ipn(7, 7)}, {Type: 222, Num: 1 << 33, Data: []byte{9}}}
	case 7: // signature + single-entry maps
		m.Blocks = []model.Block{{Type: model.TSignature, Num: 2, Flags: model.BReplicate | model.BDelete, CRC: 2, Data: rng.Bytes(32), Data2: rng.Bytes(64)},
			{Type: model.TProphet, Num: 3, Preds: []model.PeerPred{{Peer: model.Dtn("p", ""), Bits: 0x3fe0000000000000}}}}
	case 8: // anonymous source must not be fragmented
		m.Src, m.Rpt = model.DtnNone(), model.DtnNone()
		m.Flags = model.FNoFragment
	case 9: // payload block with flags and a CRC, dtlsr block
		pay.Flags = model.BReplicate
		m.Blocks = []model.Block{{Type: model.TDTLSR, Num: 5, Node: model.Dtn("n", ""), U: 12345, Peers: []model.PeerTime{{Peer: model.Dtn("q", ""), Time: 99}}}}
	}
	m.Blocks = append(m.Blocks, pay)
	return m
}

func TestCheck(t *testing.T) {
	bubble.Quiet()
	bubble.RegisterBlocks()
	r := report.Start(t, "C09")
	defer r.Finish()

	err := bubble.Run(t, func(t *testing.T) {
		now := bubble.NowMs()
		c := ctx{r, now}

		// small payloads x every mtu x block layouts (exhaustive)
		maxPayload := r.Pick(48, 160)
		nLayouts := r.Pick(6, 20)
		r.Group("sweep", (maxPayload+1)*nLayouts, func(i int, rng *report.Rand) {
			pl, lay := i/nLayouts, i%nLayouts
			if nLayouts == 6 {
				lay = []int{0, 1, 2, 3, 4, 9}[lay]
			}
			m := layout(lay, rng, now, pl)
			rb := m.ToBpv7()
			x, _ := serialise(&rb)
			for mtu := 1; mtu <= len(x)+40; mtu++ {
				c.one(m, mtu, rng)
			}
			if pl == 7 && lay < 2 {
				r.Sample(map[string]interface{}{"sweep": m.Canon(), "mtu_range": fmt.Sprintf("1..%d", len(x)+40)})
			}
		})
		r.Exhaustive(fmt.Sprintf("payload 0..%d x every mtu 1..size+40 x %d block layouts", maxPayload, nLayouts))

		// bundles with a large extension block that is NOT replicated (the first fragment has much less room than the
		// others): every mtu, so that the later fragments' payload crosses each length-header width boundary
		r.Group("sweep-bigblock", r.Pick(12, 60), func(i int, rng *report.Rand) {
			src := model.Dtn("src", "a")
			m := model.Bundle{Version: 7, CRC: 2, Dst: model.Dtn("dst", "in"), Src: src, Rpt: src, Time: now - 1000, Seq: uint64(i), Lifetime: 86_400_000}
			big := 40 + rng.Intn(300)
			m.Blocks = []model.Block{
				{Type: model.THopCount, Num: 2, Flags: model.BReplicate, CRC: 2, Limit: 64, Count: 1},
				{Type: 240, Num: 3, CRC: uint64(rng.Intn(3)), Data: rng.Bytes(big)},
			}
			if rng.Bool() {
				m.Blocks[1] = model.Block{Type: model.TPrevNode, Num: 3, CRC: 2, Node: model.Dtn("n", string(bytes.Repeat([]byte("x"), big)))}
			}
			m.Blocks = append(m.Blocks, model.Block{Type: model.TPayload, Num: 1, CRC: 2, Data: rng.Bytes([]int{300, 700, 1200}[rng.Intn(3)])})
			rb := m.ToBpv7()
			x, _ := serialise(&rb)
			for mtu := 100; mtu <= len(x)+2; mtu++ {
				c.one(m, mtu, rng)
			}
		})

		// random bundles x random mtu, including the payload-length-header width changes
		r.Group("random", r.Pick(3000, 60000), func(i int, rng *report.Rand) {
			o := model.GenOpts{NowMs: now, NoFragment: true, NoMultiMaps: true, MaxPayload: 3000}
			m := model.GenBundle(rng, o)
			switch rng.Intn(12) {
			case 0:
				m.Blocks[len(m.Blocks)-1].Data = rng.Bytes(70000 + rng.Intn(2000))
			case 1:
				m.Blocks[len(m.Blocks)-1].Data = rng.Bytes([]int{23, 24, 255, 256, 65535, 65536}[rng.Intn(6)] + rng.Intn(3) - 1)
			}
			rb := m.ToBpv7()
			x, err := serialise(&rb)
			if err != nil {
				return
			}
			var mtu int
			switch rng.Intn(6) {
			case 0:
				mtu = len(x) + rng.Intn(5) - 2
			case 1:
				mtu = []int{23, 24, 25, 255, 256, 257, 280, 65535, 65536, 65537, 65600}[rng.Intn(11)] + rng.Intn(40)
			case 2:
				mtu = 1 + rng.Intn(200)
			default:
				mtu = 1 + rng.Intn(len(x)+50)
			}
			c.one(m, mtu, rng)
			if i < 2 {
				r.Sample(map[string]interface{}{"random": m.Canon()[:min(len(m.Canon()), 300)], "mtu": mtu, "size": len(x)})
			}
		})
	})
	if err != nil {
		r.Violation("c09.harness-panic", err.Error(), nil)
	}
}
