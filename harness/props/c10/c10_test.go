package c10

import (
	"bytes"
	"encoding/hex"
	"fmt"
	"os"
	"sort"
	"testing"

	"github.com/dtn7/dtn7-go/pkg/bpv7"
	"github.com/dtn7/dtn7-go/pkg/storage"

	"verifh/internal/bubble"
	"verifh/internal/model"
	"verifh/internal/report"
)

func serialise(b *bpv7.Bundle) []byte {
	var buf bytes.Buffer
	if err := b.WriteBundle(&buf); err != nil {
		return nil
	}
	return buf.Bytes()
}

func parse(x []byte) (bpv7.Bundle, error) { return bpv7.ParseBundle(bytes.NewReader(x)) }

func fragment(b bpv7.Bundle, mtu int) (fs []bpv7.Bundle, err error, pan interface{}) {
	defer func() {
		if p := recover(); p != nil {
			pan = p
		}
	}()
	fs, err = b.Fragment(mtu)
	return
}

func reassemble(fs []bpv7.Bundle) (b bpv7.Bundle, err error, pan interface{}) {
	defer func() {
		if p := recover(); p != nil {
			pan = p
		}
	}()
	b, err = bpv7.ReassembleFragments(fs)
	return
}

func reassemblable(fs []bpv7.Bundle) (ok bool, pan interface{}) {
	defer func() {
		if p := recover(); p != nil {
			pan = p
		}
	}()
	ok = bpv7.IsBundleReassemblable(fs)
	return
}

// frag is one pool element: wire bytes plus the interval the harness knows it covers.
type frag struct {
	x        []byte
	off, end uint64
	origin   string
}

// handMade builds the fragment [off,end) of m at model level, encoded independently.
func handMade(m model.Bundle, off, end uint64) frag {
	f := m.Clone()
	f.Flags |= model.FIsFragment
	f.FragOff, f.Total = off, uint64(len(m.Payload()))
	var blocks []model.Block
	for _, b := range m.Blocks {
		switch {
		case b.Type == model.TPayload:
			b.Data = bytes.Clone(b.Data[off:end])
			blocks = append(blocks, b)
		case off == 0 || b.Flags&model.BReplicate != 0:
			blocks = append(blocks, b)
		}
	}
	f.Blocks = blocks
	x, _ := f.Encode(nil)
	return frag{x: x, off: off, end: end, origin: "hand"}
}

// covering is the reference: do the intervals cover [0,total) without gap?
func covering(fs []frag, total uint64) bool {
	if len(fs) == 0 {
		return false
	}
	ivs := make([][2]uint64, len(fs))
	for i, f := range fs {
		ivs[i] = [2]uint64{f.off, f.end}
	}
	sort.Slice(ivs, func(i, j int) bool { return ivs[i][0] < ivs[j][0] })
	reach := uint64(0)
	for _, iv := range ivs {
		if iv[0] > reach {
			return false
		}
		if iv[1] > reach {
			reach = iv[1]
		}
	}
	return reach == total
}

func shape(fs []frag) string {
	// failing input class: relation between neighbouring intervals after sorting by offset
	ivs := make([][2]uint64, len(fs))
	for i, f := range fs {
		ivs[i] = [2]uint64{f.off, f.end}
	}
	sort.SliceStable(ivs, func(i, j int) bool { return ivs[i][0] < ivs[j][0] })
	cls := map[string]bool{}
	reach := uint64(0)
	for i, iv := range ivs {
		if i > 0 {
			switch {
			case iv[0] == ivs[i-1][0] && iv[1] == ivs[i-1][1]:
				cls["duplicate"] = true
			case iv[1] <= reach:
				cls["contained"] = true
			case iv[0] < reach:
				cls["overlap"] = true
			case iv[0] > reach:
				cls["gap"] = true
			}
		}
		if iv[1] > reach {
			reach = iv[1]
		}
	}
	var out []string
	for k := range cls {
		out = append(out, k)
	}
	sort.Strings(out)
	if len(out) == 0 {
		return "plain"
	}
	return fmt.Sprint(out)
}

type ctx struct {
	r     *report.Run
	store *storage.Store
	seq   uint64
}

// judge applies the oracle to one ordered multiset of fragments of m.
func (c *ctx) judge(m model.Bundle, sel []frag, label string) {
	r := c.r
	total := uint64(len(m.Payload()))
	want := covering(sel, total)
	in := make([]bpv7.Bundle, len(sel))
	for i, f := range sel {
		b, err := parse(f.x)
		if err != nil {
			r.Count("harness.fragment_unparseable", 1)
			return
		}
		in[i] = b
	}
	wit := func() map[string]interface{} {
		var ivs [][2]uint64
		var xs []string
		for _, f := range sel {
			ivs = append(ivs, [2]uint64{f.off, f.end})
			xs = append(xs, hex.EncodeToString(f.x))
		}
		return map[string]interface{}{"payload_len": total, "intervals_in_order": ivs, "fragments": xs, "pool": label}
	}
	r.Evals(1)
	ok, pan := reassemblable(append([]bpv7.Bundle(nil), in...))
	if pan != nil {
		r.Violation("c10.reassemblable-panic:"+shape(sel), fmt.Sprintf("IsBundleReassemblable panicked: %v", pan), wit())
		return
	}
	if ok != want {
		r.Violation(fmt.Sprintf("c10.reassemblable-wrong:covering=%v:%s", want, shape(sel)),
			fmt.Sprintf("IsBundleReassemblable = %v but the fragments cover the payload: %v", ok, want), wit())
		return
	}
	re, err, pan := reassemble(append([]bpv7.Bundle(nil), in...))
	if pan != nil {
		r.Violation("c10.reassemble-panic:"+shape(sel), fmt.Sprintf("ReassembleFragments panicked: %v", pan), wit())
		return
	}
	if (err == nil) != want {
		r.Violation(fmt.Sprintf("c10.reassemble-wrong:covering=%v:%s", want, shape(sel)),
			fmt.Sprintf("ReassembleFragments error=%v but the fragments cover the payload: %v", err, want), wit())
		return
	}
	if want {
		rm := model.FromBpv7(re)
		if !bytes.Equal(rm.Payload(), m.Payload()) {
			r.Violation("c10.wrong-payload:"+shape(sel), "reassembled payload differs from the original", wit())
			return
		}
		if !sameBlocksIgnoringNumbers(rm, m) || rm.IsFragment() || rm.Src != m.Src || rm.Dst != m.Dst || rm.Seq != m.Seq || rm.Time != m.Time {
			r.Violation("c10.wrong-blocks:"+shape(sel), "reassembled bundle's blocks / primary fields differ from the original's", wit())
			return
		}
		r.Count("covering.reassembled", 1)
	} else {
		r.Count("not_covering.refused", 1)
	}
	r.Count("shape."+shape(sel), 1)
}

func sameBlocksIgnoringNumbers(a, b model.Bundle) bool {
	key := func(blk model.Block) string {
		blk.Num = 0
		if blk.Type == model.TPayload {
			blk.Data = nil
		}
		return blk.Canon()
	}
	cnt := map[string]int{}
	for _, x := range a.Blocks {
		cnt[key(x)]++
	}
	for _, x := range b.Blocks {
		cnt[key(x)]--
	}
	for _, v := range cnt {
		if v != 0 {
			return false
		}
	}
	return true
}

// judgeStore pushes the fragments into the real store and compares IsComplete/Load with the reference.
func (c *ctx) judgeStore(m model.Bundle, sel []frag, label string) {
	r := c.r
	total := uint64(len(m.Payload()))
	want := covering(sel, total)
	var id bpv7.BundleID
	for i, f := range sel {
		b, err := parse(f.x)
		if err != nil {
			return
		}
		if i == 0 {
			id = b.ID()
		}
		if err := c.store.Push(b); err != nil {
			r.Violation("c10.store.push-error", "Store.Push of a fragment failed: "+err.Error(), nil)
			return
		}
	}
	if len(sel) == 0 {
		return
	}
	defer c.store.Delete(id)
	wit := func() map[string]interface{} {
		var ivs [][2]uint64
		for _, f := range sel {
			ivs = append(ivs, [2]uint64{f.off, f.end})
		}
		return map[string]interface{}{"payload_len": total, "push_order": ivs, "pool": label}
	}
	r.Evals(1)
	bi, err := c.store.QueryId(id)
	if err != nil {
		r.Violation("c10.store.query", "QueryId after pushing fragments failed: "+err.Error(), wit())
		return
	}
	complete, pan := func() (ok bool, pan interface{}) {
		defer func() {
			if p := recover(); p != nil {
				pan = p
			}
		}()
		return bi.IsComplete(), nil
	}()
	if pan != nil {
		r.Violation("c10.store.iscomplete-panic:"+shape(sel), fmt.Sprintf("IsComplete panicked: %v", pan), wit())
		return
	}
	if complete != want {
		cls := shape(sel)
		offs := map[uint64]uint64{}
		for _, f := range sel {
			if e, ok := offs[f.off]; ok && e != f.end {
				cls = "same-offset-different-length"
			}
			offs[f.off] = f.end
		}
		r.Violation(fmt.Sprintf("c10.store.iscomplete-wrong:covering=%v:%s", want, cls),
			fmt.Sprintf("store reports complete=%v but the pushed fragments cover the payload: %v", complete, want), wit())
		return
	}
	if want {
		b, err, pan := func() (b bpv7.Bundle, err error, pan interface{}) {
			defer func() {
				if p := recover(); p != nil {
					pan = p
				}
			}()
			b, err = bi.Load()
			return
		}()
		if pan != nil {
			r.Violation("c10.store.load-panic:"+shape(sel), fmt.Sprintf("BundleItem.Load panicked: %v", pan), wit())
			return
		}
		if err != nil {
			r.Violation("c10.store.load-error:"+shape(sel), "loading a complete fragment set failed: "+err.Error(), wit())
			return
		}
		if rm := model.FromBpv7(b); !bytes.Equal(rm.Payload(), m.Payload()) {
			r.Violation("c10.store.wrong-payload:"+shape(sel), "store returned a different payload", wit())
			return
		}
		r.Count("store.complete_loaded", 1)
	} else {
		r.Count("store.incomplete", 1)
	}
}

func baseBundle(rng *report.Rand, now uint64, payload int, seq uint64) model.Bundle {
	src := model.Dtn("frag-src", "x")
	m := model.Bundle{Version: 7, CRC: uint64(rng.Intn(3)), Dst: model.Dtn("dst", "in"), Src: src, Rpt: src, Time: now - 5000, Seq: seq, Lifetime: 86_400_000}
	if rng.Bool() {
		m.Blocks = append(m.Blocks, model.Block{Type: model.THopCount, Num: 2, Flags: model.BReplicate, Limit: 30, Count: 2, CRC: uint64(rng.Intn(3))})
	}
	if rng.Bool() {
		m.Blocks = append(m.Blocks, model.Block{Type: 210, Num: 3, Data: rng.Bytes(rng.Intn(6)), CRC: uint64(rng.Intn(3))})
	}
	if rng.Chance(1, 3) {
		m.Blocks = append(m.Blocks, model.Block{Type: model.TAge, Num: 4, Flags: model.BReplicate, U: 10})
	}
	p := rng.Bytes(payload)
	for i := range p { // make every position distinguishable
		p[i] = byte(i*7+1) ^ p[i]&0x80
	}
	m.Blocks = append(m.Blocks, model.Block{Type: model.TPayload, Num: 1, CRC: uint64(rng.Intn(3)), Data: p})
	return m
}

// realPool: fragments produced by the library itself with up to three limits, plus second-level fragments.
func (c *ctx) realPool(m model.Bundle, rng *report.Rand) []frag {
	r := c.r
	rb := m.ToBpv7()
	whole := serialise(&rb)
	var pool []frag
	total := uint64(len(m.Payload()))
	addAll := func(fs []bpv7.Bundle, origin string, parentOff uint64, parentLen uint64) bool {
		for _, f := range fs {
			x := serialise(&f)
			fm := model.FromBpv7(f)
			if !fm.IsFragment() {
				return true // bundle fitted: not a fragment
			}
			l := uint64(len(fm.Payload()))
			// second-level clause: offsets relative to the original payload, original total length
			if fm.Total != total {
				r.Violation("c10.refragment-total:"+origin, fmt.Sprintf("fragment of a fragment carries total length %d, original payload has %d", fm.Total, total),
					map[string]interface{}{"bundle": m, "fragment": hex.EncodeToString(x)})
				return false
			}
			if fm.FragOff < parentOff || fm.FragOff+l > parentOff+parentLen ||
				!bytes.Equal(fm.Payload(), m.Payload()[fm.FragOff:fm.FragOff+l]) {
				r.Violation("c10.refragment-offset:"+origin, fmt.Sprintf("fragment [%d,+%d) does not lie at its place in the original payload (parent [%d,+%d))", fm.FragOff, l, parentOff, parentLen),
					map[string]interface{}{"bundle": m, "fragment": hex.EncodeToString(x)})
				return false
			}
			pool = append(pool, frag{x: x, off: fm.FragOff, end: fm.FragOff + l, origin: origin})
		}
		return true
	}
	var firsts [][]bpv7.Bundle
	for k := 0; k < 3; k++ {
		mtu := len(whole) - 1 - rng.Intn(len(m.Payload())+1)
		fs, err, pan := fragment(rb, mtu)
		if pan != nil || err != nil || len(fs) < 2 {
			continue
		}
		if !addAll(fs, "first-level", 0, total) {
			return nil
		}
		firsts = append(firsts, fs)
	}
	for _, fs := range firsts {
		for _, f := range fs {
			fx := serialise(&f)
			fl := len(model.FromBpv7(f).Payload())
			if fl < 2 {
				continue
			}
			in, err := parse(fx)
			if err != nil {
				continue
			}
			sub, err, pan := fragment(in, len(fx)-1-rng.Intn(fl-1))
			if pan != nil {
				r.Violation("c10.refragment-panic", fmt.Sprintf("%v", pan), nil)
				return nil
			}
			if err != nil || len(sub) < 2 {
				continue
			}
			r.Count("second_level_fragmentations", 1)
			if !addAll(sub, "second-level", f.PrimaryBlock.FragmentOffset, uint64(fl)) {
				return nil
			}
		}
	}
	return pool
}

func TestCheck(t *testing.T) {
	bubble.Quiet()
	bubble.RegisterBlocks()
	r := report.Start(t, "C10")
	defer r.Finish()

	dir, _ := os.MkdirTemp("", "c10store")
	defer os.RemoveAll(dir)

	err := bubble.Run(t, func(t *testing.T) {
		now := bubble.NowMs()
		st, err := storage.NewStore(dir)
		if err != nil {
			t.Fatal(err)
		}
		defer st.Close()
		c := &ctx{r: r, store: st}

		// exhaustive: small payloads, hand-made interval pools, all sub-multisets up to size k in all orders
		maxP := r.Pick(12, 24)
		maxK := r.Pick(4, 5)
		r.Group("exhaustive", maxP, func(i int, rng *report.Rand) {
			pl := i + 1
			c.seq++
			m := baseBundle(rng, now, pl, uint64(i)+1)
			// pool: intervals from three partitions with different piece sizes + a few containing/contained ones
			seen := map[[2]uint64]bool{}
			var pool []frag
			add := func(a, b int) {
				if a < 0 || b > pl || a >= b || seen[[2]uint64{uint64(a), uint64(b)}] {
					return
				}
				seen[[2]uint64{uint64(a), uint64(b)}] = true
				pool = append(pool, handMade(m, uint64(a), uint64(b)))
			}
			for _, step := range []int{(pl + 1) / 2, (pl + 2) / 3, pl} {
				if step < 1 {
					step = 1
				}
				for a := 0; a < pl; a += step {
					add(a, min(a+step, pl))
				}
			}
			add(0, pl-1)
			add(1, pl)
			add(pl/3, 2*pl/3+1)
			if len(pool) > 9 {
				pool = pool[:9]
			}
			var rec func(start int, cur []int)
			rec = func(start int, cur []int) {
				if len(cur) > 0 {
					sel := make([]frag, len(cur))
					for k, idx := range cur {
						sel[k] = pool[idx]
					}
					if len(cur) <= 4 {
						forEachPerm(sel, func(p []frag) { c.judge(m, p, "hand") })
					} else {
						for k := 0; k < 3; k++ {
							p := make([]frag, len(sel))
							for a, b := range rng.Perm(len(sel)) {
								p[a] = sel[b]
							}
							c.judge(m, p, "hand")
						}
					}
					if len(cur) <= 3 {
						c.judgeStore(m, sel, "hand")
					}
				}
				if len(cur) == maxK {
					return
				}
				for j := start; j < len(pool); j++ { // multiset: j may repeat
					rec(j, append(cur, j))
				}
			}
			rec(0, nil)
			r.Nontrivial("exh", pl, len(pool))
			if pl == 7 {
				var ivs [][2]uint64
				for _, f := range pool {
					ivs = append(ivs, [2]uint64{f.off, f.end})
				}
				r.Sample(map[string]interface{}{"payload_len": pl, "pool_intervals": ivs, "multisets_up_to": maxK})
			}
		})
		r.Exhaustive(fmt.Sprintf("payload 1..%d: all sub-multisets up to size %d of a <=9-interval pool, all orders up to size 4", maxP, maxK))

		// random multisets from hand-made and library-made pools, through the functions and the store
		r.Group("random", r.Pick(5000, 100000), func(i int, rng *report.Rand) {
			pl := 1 + rng.Intn(r.Pick(40, 64))
			if rng.Chance(1, 20) {
				pl = 200 + rng.Intn(3000)
			}
			m := baseBundle(rng, now, pl, 1000+uint64(i))
			var pool []frag
			label := "hand"
			if rng.Bool() {
				label = "library"
				pool = c.realPool(m, rng)
				r.Count("library_pools", 1)
			}
			if len(pool) == 0 {
				label = "hand"
				n := 2 + rng.Intn(8)
				for k := 0; k < n; k++ {
					a := rng.Intn(pl)
					b := a + 1 + rng.Intn(pl-a)
					pool = append(pool, handMade(m, uint64(a), uint64(b)))
				}
				// often make it a covering set with overlaps
				if rng.Bool() {
					a := 0
					for a < pl {
						b := min(pl, a+1+rng.Intn(pl))
						pool = append(pool, handMade(m, uint64(max(0, a-rng.Intn(3))), uint64(b)))
						a = b
					}
				}
			}
			for t := 0; t < 4; t++ {
				var sel []frag
				switch rng.Intn(3) {
				case 0: // everything, shuffled, some duplicated
					for _, j := range rng.Perm(len(pool)) {
						sel = append(sel, pool[j])
						if rng.Chance(1, 5) {
							sel = append(sel, pool[j])
						}
					}
				default:
					k := 1 + rng.Intn(len(pool))
					for q := 0; q < k; q++ {
						sel = append(sel, pool[rng.Intn(len(pool))])
					}
				}
				c.judge(m, sel, label)
				if t == 0 {
					c.judgeStore(m, sel, label)
				}
				r.Nontrivial("rnd", i, t, len(sel), shape(sel))
			}
		})
	})
	if err != nil {
		r.Violation("c10.harness-panic", err.Error(), nil)
	}
}

func forEachPerm(sel []frag, f func([]frag)) {
	n := len(sel)
	idx := make([]int, n)
	for i := range idx {
		idx[i] = i
	}
	seen := map[string]bool{}
	var rec func(k int)
	rec = func(k int) {
		if k == n {
			key := ""
			p := make([]frag, n)
			for i, j := range idx {
				p[i] = sel[j]
				key += fmt.Sprintf("%d-%d,", sel[j].off, sel[j].end)
			}
			if !seen[key] { // identical multiset elements give identical orders
				seen[key] = true
				f(p)
			}
			return
		}
		for i := k; i < n; i++ {
			idx[k], idx[i] = idx[i], idx[k]
			rec(k + 1)
			idx[k], idx[i] = idx[i], idx[k]
		}
	}
	rec(0)
}
