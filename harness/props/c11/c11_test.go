package c11

import (
	"bytes"
	"crypto/sha256"
	"errors"
	"fmt"
	"io"
	"regexp"
	"strings"
	"testing"
	"time"

	"github.com/dtn7/dtn7-go/pkg/bpv7"
	"github.com/dtn7/dtn7-go/pkg/cla/tcpclv4"

	"verifh/internal/bubble"
	"verifh/internal/model"
	"verifh/internal/report"
)

// ---------------------------------------------------------------------------------------------------------
// oracle over one segment train (independent of the code under test)

// segView is what a monitor saw of one XFER_SEGMENT.
type segView struct {
	Flags byte
	ID    uint64
	Data  []byte
}

// segRec is the witness form of a segment.
type segRec struct {
	Flags string `json:"flags"`
	ID    uint64 `json:"transfer_id"`
	Len   int    `json:"len"`
}

func flagStr(f byte) string {
	var s []string
	if f&wFlagStart != 0 {
		s = append(s, "START")
	}
	if f&wFlagEnd != 0 {
		s = append(s, "END")
	}
	if f&^(wFlagStart|wFlagEnd) != 0 {
		s = append(s, fmt.Sprintf("0x%02x", f&^(wFlagStart|wFlagEnd)))
	}
	if len(s) == 0 {
		return "none"
	}
	return strings.Join(s, "|")
}

func recs(segs []segView) []segRec {
	out := make([]segRec, 0, len(segs))
	for i, s := range segs {
		if i >= 64 {
			break
		}
		out = append(out, segRec{flagStr(s.Flags), s.ID, len(s.Data)})
	}
	return out
}

// lmClass names the class of a (length, segment size) pair; it is part of violation signatures.
func lmClass(L int, m uint64) string {
	switch {
	case m == 0:
		return "segment-size-zero"
	case uint64(L) < m:
		return "segment-size-exceeds-length"
	case uint64(L)%m == 0:
		return "segment-size-divides-length"
	}
	return "segment-size-does-not-divide-length"
}

// judgeTrain applies the segment rules of the property to the segments of one transfer, in wire order.
// complete: the sender said it was done (then the train must be the whole encoding and end with END);
// otherwise the train is a prefix cut off by a fault.
func judgeTrain(segs []segView, enc []byte, m uint64, complete bool) (rule, msg string) {
	if len(segs) == 0 {
		if complete {
			return "c11.no-segments", "the sender finished without emitting a segment"
		}
		return "", ""
	}
	off, differs := 0, false // running offset into enc; differs: some byte before off is not the encoding's
	for i, s := range segs {
		if s.ID != segs[0].ID {
			return "c11.transfer-id-changes", fmt.Sprintf("segment %d carries transfer id %d, the first one %d", i, s.ID, segs[0].ID)
		}
		if uint64(len(s.Data)) > m {
			return "c11.segment-too-large", fmt.Sprintf("segment %d has %d bytes, negotiated segment size %d", i, len(s.Data), m)
		}
		if i == 0 && s.Flags&wFlagStart == 0 {
			return "c11.start-flag-missing", "the first segment does not carry START"
		}
		if i > 0 && s.Flags&wFlagStart != 0 {
			return "c11.start-flag-repeated", fmt.Sprintf("segment %d (not the first) carries START", i)
		}
		if i < len(segs)-1 && s.Flags&wFlagEnd != 0 {
			return "c11.end-flag-early", fmt.Sprintf("segment %d of %d carries END", i, len(segs))
		}
		if n := len(s.Data); off+n <= len(enc) {
			if !bytes.Equal(s.Data, enc[off:off+n]) {
				differs = true
			}
		} else if off < len(enc) && !bytes.Equal(s.Data[:len(enc)-off], enc[off:]) {
			differs = true
		}
		off += len(s.Data)
	}
	if complete {
		if differs || off != len(enc) {
			kind := "different-bytes"
			if !differs && off < len(enc) {
				kind = "truncated"
			} else if !differs && off > len(enc) {
				kind = "surplus-bytes"
			}
			return "c11.concat-mismatch:" + kind, fmt.Sprintf("concatenation of the %d segments has %d bytes (%s), the bundle's encoding %d", len(segs), off, kind, len(enc))
		}
		if segs[len(segs)-1].Flags&wFlagEnd == 0 {
			return "c11.no-end-flag", fmt.Sprintf("the last of %d segments does not carry END although the whole encoding (%d bytes) was sent", len(segs), len(enc))
		}
	} else {
		if differs || off > len(enc) {
			return "c11.concat-mismatch:prefix", "the segments sent before the fault are not a prefix of the bundle's encoding"
		}
		if segs[len(segs)-1].Flags&wFlagEnd != 0 && off != len(enc) {
			return "c11.end-flag-early", "END on a segment before the encoding was complete"
		}
	}
	return "", ""
}

var digits = regexp.MustCompile(`[0-9]+`)

// errClass strips the variable parts of an error text.
func errClass(err error) string {
	if err == nil {
		return "nil"
	}
	s := digits.ReplaceAllString(err.Error(), "N")
	s = strings.Join(strings.Fields(s), " ")
	if i := strings.Index(s, "XFER_"); i > 0 && strings.Contains(s, "received unexpected message") {
		s = s[:i] + "XFER_..."
	}
	if len(s) > 80 {
		s = s[:80]
	}
	return s
}

func sum(b []byte) [32]byte { return sha256.Sum256(b) }

// sameBundle compares a bundle handed up by the receiver with the one sent: byte-identical re-serialisation and
// equal field values.
func sameBundle(got *bpv7.Bundle, tb *testBundle) (bool, string) {
	x, err := encodeBundle(got)
	if err != nil {
		return false, "handed-up bundle cannot be serialised: " + err.Error()
	}
	if !bytes.Equal(x, tb.Enc) {
		return false, fmt.Sprintf("handed-up bundle serialises to %d bytes that differ from the %d bytes sent", len(x), len(tb.Enc))
	}
	if len(tb.Enc) <= 1<<17 && model.FromBpv7(*got).Canon() != tb.M.Canon() {
		return false, "handed-up bundle differs field-wise from the bundle sent"
	}
	return true, ""
}

// ---------------------------------------------------------------------------------------------------------
// workload 1a: OutgoingTransfer -> IncomingTransfer, one (L, m) pair

type caseWitness struct {
	L        int         `json:"encoded_length"`
	M        uint64      `json:"segment_size"`
	Class    string      `json:"class"`
	Path     string      `json:"path"`
	Segments []segRec    `json:"segments,omitempty"`
	Bundle   string      `json:"bundle,omitempty"`
	EncHex   string      `json:"encoding_hex,omitempty"`
	Detail   interface{} `json:"detail,omitempty"`
}

func witness(tb *testBundle, m uint64, path string, segs []segView, detail interface{}) caseWitness {
	w := caseWitness{L: len(tb.Enc), M: m, Class: lmClass(len(tb.Enc), m), Path: path, Segments: recs(segs), Detail: detail}
	if len(tb.Enc) <= 4096 {
		w.Bundle = tb.M.Canon()
		w.EncHex = fmt.Sprintf("%x", tb.Enc)
	}
	return w
}

// runDirect drives one transfer object pair and judges it. Returns the number of segments seen.
func runDirect(r *report.Run, tb *testBundle, m uint64) int {
	const id = 42
	L := len(tb.Enc)
	cls := lmClass(L, m)
	out := tcpclv4.VerifNewBundleOutgoingTransfer(id, tb.fresh())
	in := tcpclv4.VerifNewIncomingTransfer(id)

	var segs []segView
	var msgsSeen []*tcpclv4.VerifDataTransmissionMessage
	limit := L + 8
	var endErr error
	for len(segs) <= limit {
		dtm, err := out.NextSegment(m)
		if err != nil {
			endErr = err
			break
		}
		if dtm == nil {
			endErr = errors.New("nil segment without error")
			break
		}
		segs = append(segs, segView{byte(dtm.Flags), dtm.TransferId, dtm.Data})
		msgsSeen = append(msgsSeen, dtm)
	}
	r.Count("direct.segments", len(segs))
	if endErr == nil {
		r.Violation("c11.sender-does-not-terminate:"+cls, fmt.Sprintf("more than L+8 = %d segments for an encoding of %d bytes at segment size %d", limit, L, m),
			witness(tb, m, "direct", segs, nil))
		return len(segs)
	}
	if !errors.Is(endErr, io.EOF) {
		r.Violation("c11.sender-error:"+cls+":"+errClass(endErr), "NextSegment failed: "+endErr.Error(), witness(tb, m, "direct", segs, nil))
		return len(segs)
	}
	if rule, msg := judgeTrain(segs, tb.Enc, m, true); rule != "" {
		r.Violation(rule+":"+cls, fmt.Sprintf("L=%d m=%d: %s", L, m, msg), witness(tb, m, "direct", segs, nil))
		return len(segs)
	}
	if segs[0].ID != id {
		r.Violation("c11.transfer-id-wrong", fmt.Sprintf("segments carry transfer id %d instead of %d", segs[0].ID, id), witness(tb, m, "direct", segs, nil))
		return len(segs)
	}

	// receiver side: one acknowledgement per segment with the running length; finished exactly at END
	total := 0
	for i, dtm := range msgsSeen {
		ack, err := in.NextSegment(dtm)
		if err != nil {
			r.Violation("c11.receiver-rejects-segment:"+cls+":"+errClass(err), fmt.Sprintf("L=%d m=%d: segment %d of a well-formed train rejected: %v", L, m, i, err),
				witness(tb, m, "direct", segs, nil))
			return len(segs)
		}
		total += len(dtm.Data)
		if ack == nil || ack.TransferId != id || ack.AckLen != uint64(total) {
			r.Violation("c11.ack-wrong", fmt.Sprintf("L=%d m=%d: acknowledgement of segment %d is %v, expected transfer id %d and length %d", L, m, i, ack, id, total),
				witness(tb, m, "direct", segs, nil))
			return len(segs)
		}
		if byte(ack.Flags) != segs[i].Flags {
			r.Violation("c11.ack-flags-wrong", fmt.Sprintf("L=%d m=%d: acknowledgement of segment %d has flags %s, the segment %s", L, m, i, flagStr(byte(ack.Flags)), flagStr(segs[i].Flags)),
				witness(tb, m, "direct", segs, nil))
			return len(segs)
		}
		last := i == len(msgsSeen)-1
		if in.IsFinished() != last {
			rule := "c11.receiver-finished-before-end"
			if last {
				rule = "c11.receiver-not-finished-at-end"
			}
			r.Violation(rule+":"+cls, fmt.Sprintf("L=%d m=%d: after segment %d of %d the receiver says finished=%v", L, m, i+1, len(msgsSeen), in.IsFinished()),
				witness(tb, m, "direct", segs, nil))
			return len(segs)
		}
	}
	got, err := in.ToBundle()
	if err != nil {
		r.Violation("c11.receiver-cannot-rebuild:"+cls, fmt.Sprintf("L=%d m=%d: ToBundle: %v", L, m, err), witness(tb, m, "direct", segs, nil))
		return len(segs)
	}
	if ok, why := sameBundle(&got, tb); !ok {
		r.Violation("c11.delivered-differs:"+cls, fmt.Sprintf("L=%d m=%d: %s", L, m, why), witness(tb, m, "direct", segs, nil))
		return len(segs)
	}
	r.Count("direct.delivered_identical", 1)
	return len(segs)
}

// ---------------------------------------------------------------------------------------------------------
// workload 1b / concurrent: two connected TransferManagers over tapped channels, inside a bubble

type sendRec struct {
	tb       *testBundle
	returned bool
	err      error
}

type pairSide struct {
	mtu     uint64 // segment size this side sends with
	lists   [][]*sendRec
	segs    map[uint64][]segView // segments this side emitted, by transfer id, wire order
	order   []uint64
	acksOut int
	got     []bpv7.Bundle // bundles this side handed up
	errs    []error       // errors on this side's Exchange() error channel
}

type tap struct {
	side *pairSide
}

// runPair connects two TransferManagers and lets every list of bundles be sent by its own goroutine.
// It returns "" or a harness-level problem (send never returned).
func runPair(a, b *pairSide, buffered bool) (hung bool) {
	mk := func() chan tcpclv4.VerifMessage {
		if buffered {
			return make(chan tcpclv4.VerifMessage, 32)
		}
		return make(chan tcpclv4.VerifMessage)
	}
	aOut, aIn, bOut, bIn := mk(), mk(), mk(), mk()
	done := make(chan struct{})
	fin := make(chan struct{}, 8)
	a.segs, b.segs = map[uint64][]segView{}, map[uint64][]segView{}

	// The links have unbounded queues: the property is about what is sent and delivered, not about flow control.
	// (With bounded links two TransferManagers that both push segments faster than the peer's handler drains them can
	// block each other for good - every Send then ends in the acknowledgement timeout, which is an error return and
	// therefore no violation of this property; see notes/C11.md.)
	forward := func(from chan tcpclv4.VerifMessage, to chan tcpclv4.VerifMessage, s *pairSide) {
		defer func() { fin <- struct{}{} }()
		var q []tcpclv4.VerifMessage
		for {
			var out chan tcpclv4.VerifMessage
			var head tcpclv4.VerifMessage
			if len(q) > 0 {
				out, head = to, q[0]
			}
			select {
			case <-done:
				return
			case out <- head:
				q = q[1:]
			case msg := <-from:
				switch v := msg.(type) {
				case *tcpclv4.VerifDataTransmissionMessage:
					if _, ok := s.segs[v.TransferId]; !ok {
						s.order = append(s.order, v.TransferId)
					}
					s.segs[v.TransferId] = append(s.segs[v.TransferId], segView{byte(v.Flags), v.TransferId, v.Data})
				case *tcpclv4.VerifDataAcknowledgementMessage:
					s.acksOut++
				}
				q = append(q, msg)
			}
		}
	}
	go forward(aOut, bIn, a)
	go forward(bOut, aIn, b)

	tmA := tcpclv4.VerifNewTransferManager(aIn, aOut, a.mtu)
	tmB := tcpclv4.VerifNewTransferManager(bIn, bOut, b.mtu)
	consume := func(tm *tcpclv4.VerifTransferManager, s *pairSide) {
		defer func() { fin <- struct{}{} }()
		bundles, errs := tm.Exchange()
		for {
			select {
			case <-done:
				return
			case bn := <-bundles:
				s.got = append(s.got, bn)
			case err := <-errs:
				s.errs = append(s.errs, err)
			}
		}
	}
	go consume(tmA, a)
	go consume(tmB, b)

	nSenders := 0
	senderDone := make(chan struct{}, 64)
	start := func(tm *tcpclv4.VerifTransferManager, s *pairSide) {
		for _, list := range s.lists {
			nSenders++
			go func(list []*sendRec) {
				for _, sr := range list {
					sr.err = tm.Send(sr.tb.fresh())
					sr.returned = true
				}
				senderDone <- struct{}{}
			}(list)
		}
	}
	start(tmA, a)
	start(tmB, b)

	finished := 0
	for round := 0; ; round++ {
		bubble.Wait()
		for len(senderDone) > 0 {
			<-senderDone
			finished++
		}
		if finished == nSenders {
			break
		}
		if round >= 3*(1+maxList(a, b)) {
			hung = true
			break
		}
		time.Sleep(11 * time.Second) // virtual: lets the 10 s acknowledgement timeout fire
	}
	bubble.Wait()
	_ = tmA.Close()
	_ = tmB.Close()
	bubble.Wait()
	close(done)
	for i := 0; i < 4; i++ {
		<-fin
	}
	bubble.Wait()
	return hung
}

func maxList(sides ...*pairSide) int {
	n := 1
	for _, s := range sides {
		for _, l := range s.lists {
			if len(l) > n {
				n = len(l)
			}
		}
	}
	return n
}

// judgePair applies the oracles to one direction: from sent by s, received by peer.
func judgePair(r *report.Run, path string, s, peer *pairSide, detail interface{}) (ok bool) {
	ok = true
	vio := func(sig, msg string, tb *testBundle, segs []segView) {
		ok = false
		if tb == nil {
			r.Violation(sig, msg, map[string]interface{}{"path": path, "segment_size": s.mtu, "segments": recs(segs), "detail": detail})
			return
		}
		r.Violation(sig, msg, witness(tb, s.mtu, path, segs, detail))
	}
	for _, e := range s.errs {
		vio("c11.transfer-manager-error-without-fault:"+errClass(e), "the TransferManager reported an error although no fault was injected: "+e.Error(), nil, nil)
	}
	// index of what was sent
	byHash := map[[32]byte]*sendRec{}
	for _, list := range s.lists {
		for _, sr := range list {
			byHash[sum(sr.tb.Enc)] = sr
		}
	}
	// trains: every transfer id carries one of the sent bundles (complete trains are identified by their bytes,
	// trains cut off by a failed Send by being a prefix of a bundle not yet accounted for)
	trainOf := map[*sendRec][]segView{}
	open := map[uint64]bool{}
	for _, id := range s.order {
		h := sha256.New()
		for _, sg := range s.segs[id] {
			h.Write(sg.Data)
		}
		var k [32]byte
		copy(k[:], h.Sum(nil))
		if sr := byHash[k]; sr != nil {
			if _, dup := trainOf[sr]; dup {
				vio("c11.bundle-sent-twice", "two transfers carry the same bundle completely", sr.tb, s.segs[id])
				continue
			}
			trainOf[sr] = s.segs[id]
		} else {
			open[id] = true
		}
	}
	isPrefix := func(segs []segView, enc []byte) bool {
		off := 0
		for _, sg := range segs {
			if off+len(sg.Data) > len(enc) || !bytes.Equal(sg.Data, enc[off:off+len(sg.Data)]) {
				return false
			}
			off += len(sg.Data)
		}
		return true
	}
	for _, id := range s.order {
		if !open[id] {
			continue
		}
		var sr *sendRec
		for _, list := range s.lists {
			for _, cand := range list {
				if _, taken := trainOf[cand]; !taken && sr == nil && isPrefix(s.segs[id], cand.tb.Enc) {
					sr = cand
				}
			}
		}
		if sr == nil {
			vio("c11.train-matches-no-bundle", fmt.Sprintf("the %d segments of transfer %d are neither a sent bundle nor the beginning of one", len(s.segs[id]), id),
				nil, s.segs[id])
			continue
		}
		trainOf[sr] = s.segs[id]
	}
	for sr, segs := range trainOf {
		r.Count(path+".segments", len(segs))
		if rule, msg := judgeTrain(segs, sr.tb.Enc, s.mtu, sr.returned && sr.err == nil); rule != "" {
			vio(rule+":"+lmClass(len(sr.tb.Enc), s.mtu), fmt.Sprintf("L=%d m=%d: %s", len(sr.tb.Enc), s.mtu, msg), sr.tb, segs)
		}
	}
	// what the peer handed up
	delivered := map[*sendRec]int{}
	for i := range peer.got {
		x, err := encodeBundle(&peer.got[i])
		if err != nil {
			vio("c11.delivered-unknown-bundle", "a handed-up bundle cannot be serialised: "+err.Error(), nil, nil)
			continue
		}
		sr := byHash[sum(x)]
		if sr == nil {
			vio("c11.delivered-unknown-bundle", fmt.Sprintf("the receiver handed up a bundle (%d bytes) that was never sent", len(x)), nil, nil)
			continue
		}
		if okb, why := sameBundle(&peer.got[i], sr.tb); !okb {
			vio("c11.delivered-differs:"+lmClass(len(sr.tb.Enc), s.mtu), why, sr.tb, trainOf[sr])
		}
		delivered[sr]++
	}
	for _, list := range s.lists {
		for _, sr := range list {
			cls := lmClass(len(sr.tb.Enc), s.mtu)
			L := len(sr.tb.Enc)
			switch {
			case !sr.returned:
				vio("c11.send-never-returns:"+cls, fmt.Sprintf("L=%d m=%d: Send did not return within the virtual time allowed", L, s.mtu), sr.tb, trainOf[sr])
			case sr.err == nil && delivered[sr] == 0:
				vio("c11.success-not-delivered:"+cls, fmt.Sprintf("L=%d m=%d: Send returned nil but the receiver handed up nothing (quiescent point reached)", L, s.mtu), sr.tb, trainOf[sr])
			case sr.err != nil:
				vio("c11.send-error-without-fault:"+cls+":"+errClass(sr.err), fmt.Sprintf("L=%d m=%d: Send failed although both sides cooperate: %v (receiver handed up %d)", L, s.mtu, sr.err, delivered[sr]), sr.tb, trainOf[sr])
			}
			if delivered[sr] > 1 {
				vio("c11.delivered-twice:"+cls, fmt.Sprintf("L=%d m=%d: the receiver handed the bundle up %d times", L, s.mtu, delivered[sr]), sr.tb, trainOf[sr])
			}
			if sr.returned && sr.err == nil && delivered[sr] == 1 {
				r.Count(path+".success_and_delivered_once", 1)
			}
		}
	}
	return ok
}

// ---------------------------------------------------------------------------------------------------------

const firstL = 64

func TestCheck(t *testing.T) {
	bubble.Quiet()
	installErrorLog()
	bubble.RegisterBlocks()
	r := report.Start(t, "C11")
	defer r.Finish()

	nL := r.Pick(40, 300)

	// (1a) transfer objects, every 1 <= m <= L+2
	r.Group("xfer", nL, func(i int, rng *report.Rand) {
		L := firstL + i
		err := bubble.Run(t, func(t *testing.T) {
			tb, err := bundleOfLen(rng, L, bubble.NowMs())
			if err != nil {
				r.Violation("c11.harness:generator", err.Error(), L)
				return
			}
			if i < 2 {
				r.Sample(map[string]interface{}{"kind": "transfer level, every segment size 1..L+2", "L": L, "bundle": tb.M.Canon()})
			}
			for m := uint64(1); m <= uint64(L)+2; m++ {
				n := runDirect(r, tb, m)
				r.Evals(1)
				r.Count("direct.pairs", 1)
				if uint64(L)%m == 0 {
					r.Count("direct.pairs_m_divides_L", 1)
				}
				if n > 0 {
					r.Nontrivial("direct", L, m)
				}
			}
		})
		if err != nil {
			r.Violation("c11.bubble:"+errClass(err), "workload xfer: "+err.Error(), L)
		}
	})

	// (1b) two connected TransferManagers, every 1 <= m <= L+2
	r.Group("tm", nL, func(i int, rng *report.Rand) {
		L := firstL + i
		err := bubble.Run(t, func(t *testing.T) {
			tb, err := bundleOfLen(rng, L, bubble.NowMs())
			if err != nil {
				r.Violation("c11.harness:generator", err.Error(), L)
				return
			}
			for m := uint64(1); m <= uint64(L)+2; m++ {
				a := &pairSide{mtu: m, lists: [][]*sendRec{{{tb: tb}}}}
				b := &pairSide{mtu: m}
				buffered := (uint64(i)+m)%2 == 0
				runPair(a, b, buffered)
				r.Evals(1)
				r.Count("tm.pairs", 1)
				if uint64(L)%m == 0 {
					r.Count("tm.pairs_m_divides_L", 1)
				}
				okA := judgePair(r, "tm", a, b, nil)
				okB := judgePair(r, "tm", b, a, nil)
				if okA && okB {
					r.Nontrivial("tm", L, m)
				}
			}
		})
		if err != nil {
			r.Violation("c11.bubble:"+errClass(err), "workload tm: "+err.Error(), L)
		}
	})
	r.Exhaustive(fmt.Sprintf("every segment size 1 <= m <= L+2 for every encoded length L in [%d, %d], at transfer level and through two connected TransferManagers", firstL, firstL+nL-1))

	// (1c) large encodings around the 1 MiB default MRU, transfer level and TransferManager pair
	// (cheap ones first: cases 0..3 share their shards with the socket sessions)
	larges := []int{65536, 65535, 4096, 1 << 19, 1<<20 - 1, 1 << 20, 1<<20 + 1, 2 << 20, 3 << 19}
	if r.Thorough() {
		larges = append(larges, 3<<20, 2<<20+1, 2<<20-1, 1<<16+1, 8192, 1400*64)
	}
	if raceEnabled {
		// with the race detector a 1 MiB encode/parse costs about a second: keep the sizes at the default MRU only
		larges = []int{65536, 65535, 8192, 4096, 1<<20 - 1, 1 << 20, 1<<20 + 1, 1 << 19}
	}
	r.Group("large", len(larges), func(i int, rng *report.Rand) {
		L := larges[i]
		err := bubble.Run(t, func(t *testing.T) {
			tb, err := bundleOfLen(rng, L, bubble.NowMs())
			if err != nil {
				r.Violation("c11.harness:generator", err.Error(), L)
				return
			}
			ms := []uint64{1 << 20, 1 << 19, 65536, 65535, 4096, 1400, uint64(L), uint64(L) + 1, uint64(L) - 1, uint64(L) / 2, uint64(L)/2 + 1, uint64(L) / 3}
			if raceEnabled && L > 1<<17 {
				ms = []uint64{1 << 20, 1 << 19, uint64(L), 65535}
			}
			seen := map[uint64]bool{}
			for _, m := range ms {
				if m == 0 || seen[m] {
					continue
				}
				seen[m] = true
				n := runDirect(r, tb, m)
				r.Evals(1)
				r.Count("direct.pairs", 1)
				r.Count("large.pairs", 1)
				if uint64(L)%m == 0 {
					r.Count("direct.pairs_m_divides_L", 1)
					r.Count("large.pairs_m_divides_L", 1)
				}
				if n > 0 {
					r.Nontrivial("direct", L, m)
				}
				if m >= 4096 {
					a := &pairSide{mtu: m, lists: [][]*sendRec{{{tb: tb}}}}
					b := &pairSide{mtu: m}
					runPair(a, b, m%2 == 0)
					r.Evals(1)
					r.Count("tm.pairs", 1)
					if uint64(L)%m == 0 {
						r.Count("tm.pairs_m_divides_L", 1)
					}
					if judgePair(r, "tm", a, b, nil) && judgePair(r, "tm", b, a, nil) {
						r.Nontrivial("tm", L, m)
					}
				}
			}
		})
		if err != nil {
			r.Violation("c11.bubble:"+errClass(err), "workload large: "+err.Error(), L)
		}
	})

	// (1d) both TransferManagers send several bundles concurrently (virtual time, quiescence-judged)
	r.Group("conc", r.Pick(160, 2400), func(i int, rng *report.Rand) {
		err := bubble.Run(t, func(t *testing.T) {
			now := bubble.NowMs()
			used := map[[32]byte]bool{}
			var lens []int
			mkLists := func() [][]*sendRec {
				var lists [][]*sendRec
				for s := 0; s < 1+rng.Intn(4); s++ {
					var list []*sendRec
					for k := 0; k < 1+rng.Intn(3); k++ {
						for {
							L := 64 + rng.Intn(400)
							tb, err := bundleOfLen(rng, L, now)
							if err != nil || used[sum(tb.Enc)] {
								continue
							}
							used[sum(tb.Enc)] = true
							lens = append(lens, L)
							list = append(list, &sendRec{tb: tb})
							break
						}
					}
					lists = append(lists, list)
				}
				return lists
			}
			a := &pairSide{lists: mkLists()}
			b := &pairSide{lists: mkLists()}
			pickM := func() uint64 {
				L := lens[rng.Intn(len(lens))]
				switch rng.Intn(4) {
				case 0: // a divisor of one of the lengths
					var ds []int
					for d := 1; d <= L; d++ {
						if L%d == 0 {
							ds = append(ds, d)
						}
					}
					return uint64(ds[rng.Intn(len(ds))])
				case 1:
					return uint64(1 + rng.Intn(16))
				case 2:
					return uint64(L + rng.Intn(3))
				}
				return uint64(1 + rng.Intn(500))
			}
			a.mtu, b.mtu = pickM(), pickM()
			buffered := rng.Bool()
			runPair(a, b, buffered)
			detail := map[string]interface{}{"lengths": lens, "mtu_a": a.mtu, "mtu_b": b.mtu, "buffered_links": buffered}
			okA := judgePair(r, "conc", a, b, detail)
			okB := judgePair(r, "conc", b, a, detail)
			div := 0
			for _, side := range []*pairSide{a, b} {
				for _, l := range side.lists {
					for _, sr := range l {
						if uint64(len(sr.tb.Enc))%side.mtu == 0 {
							div++
						}
					}
				}
			}
			r.Count("conc.bundles", len(lens))
			r.Count("conc.bundles_m_divides_L", div)
			if okA && okB {
				r.Nontrivial("conc", fmt.Sprint(lens), a.mtu, b.mtu)
			}
			if i == 0 {
				r.Sample(map[string]interface{}{"kind": "concurrent senders on both TransferManagers", "detail": detail})
			}
		})
		if err != nil {
			r.Violation("c11.bubble:"+errClass(err), "workload conc: "+err.Error(), i)
		}
	})

	// (2) scripted hostile peer behind the real session stack on a net.Pipe: every fault position k
	r.Group("hostile", r.Pick(48, 480), func(i int, rng *report.Rand) {
		anyAborted := false
		sub := 0
		err := bubble.Run(t, func(t *testing.T) {
			L := 64 + rng.Intn(200)
			tb, err := bundleOfLen(rng, L, bubble.NowMs())
			if err != nil {
				r.Violation("c11.harness:generator", err.Error(), L)
				return
			}
			// segment sizes giving 1..8 segments; every second case one that divides L
			var m uint64
			if i%2 == 0 {
				var ds []int
				for d := (L + 7) / 8; d <= L; d++ {
					if L%d == 0 {
						ds = append(ds, d)
					}
				}
				m = uint64(ds[rng.Intn(len(ds))])
			} else {
				m = uint64((L+7)/8 + rng.Intn(L-(L+7)/8+2))
			}
			n := (L + int(m) - 1) / int(m)
			run := func(mode string, k int) {
				sub++
				r.Evals(1)
				if runHostile(r, tb, m, mode, k) {
					anyAborted = true
				}
				r.Nontrivial("hostile", mode, L, m, k)
			}
			run(modeCooperative, 0)
			run(modeSwallowEnd, 0)
			for k := 0; k < n; k++ {
				run(modeStopAck, k)
			}
			for k := 1; k <= n; k++ {
				run(modeRefuse, k)
				run(modeRefuseAcks, k)
				run(modeClose, k)
			}
			for k := 1; k < n; k++ {
				run(modeCloseAcked, k)
			}
			if uint64(L)%m == 0 {
				r.Count("hostile.sessions_m_divides_L", sub)
			}
			if i < 2 {
				r.Sample(map[string]interface{}{"kind": "scripted peer: cooperative, swallow-end, stop-ack/refuse/close at every segment", "L": L, "m": m, "segments": n, "sessions": sub})
			}
		})
		r.Count("hostile.sessions", sub)
		if err != nil {
			// An aborted transfer leaves the bundle serialiser (blocked on its pipe) and the message switch's writer
			// (blocked on its channel) behind; synctest reports exactly that when the bubble ends.
			if anyAborted && strings.Contains(err.Error(), "blocked goroutines remain") {
				r.Count("hostile.bubbles_ending_with_goroutines_left_by_aborted_transfers", 1)
			} else {
				r.Violation("c11.bubble:"+errClass(err), "workload hostile: "+err.Error(), i)
			}
		}
	})

	// (2b) the real Client against the scripted peer announcing small segment MRUs
	realPeerGroup(r)

	// (3) real Clients over TCP and WebSocket, four senders per direction on one session (real time, event-count oracle)
	r.Group("sock", r.Pick(4, 24), func(i int, rng *report.Rand) {
		proto := []string{"tcp", "ws"}[i%2]
		const mib = 1 << 20
		// encoded lengths per concurrent sender (negative: random small length below that bound) ...
		sizes := [][]int{
			{mib, -3000, 2 * mib},
			{mib - 1, -200, mib},
			{mib + 1, -3000, -70000},
			{-500, 2 * mib, -100},
		}
		// ... and of the bundles sent one after the other afterwards
		tail := []int{mib, -1000}
		pool := []int{mib, 2 * mib, 3 * mib, mib - 1, mib + 1, 2*mib - 1, 2*mib + 1, -100, -3000, -70000, mib / 2, 65536}
		if raceEnabled {
			// Under the race detector parsing 1 MiB takes about a second of CPU; the receiving TransferManager parses
			// inside its message loop and acknowledges nothing meanwhile, so on a loaded machine concurrent large
			// bundles run into the sender's real-time 10 s acknowledgement timeout (an error return, then a lost
			// session). The concurrent phase therefore uses bundles up to 70 kB, the bundles of exactly / about
			// 1 MiB follow one at a time.
			sizes = [][]int{
				{-3000, -70000, -200},
				{-500, 65536, -100},
				{-3000, -70000, -30000},
				{-100, -10000, -500},
			}
			tail = []int{mib, -2000}
			pool = []int{-100, -3000, -70000, -500, 65536, -200, -1000, -30000, 32768, -5000}
		}
		if i >= 4 { // thorough: further mixes
			for s := range sizes {
				for k := range sizes[s] {
					sizes[s][k] = pool[rng.Intn(len(pool))]
				}
			}
			if !raceEnabled {
				sizes[rng.Intn(4)][rng.Intn(3)] = mib
			}
			if !raceEnabled {
				tail[1] = []int{mib - 1, mib + 1, 2 * mib, -3000}[rng.Intn(4)]
			} else if i%3 == 0 {
				tail[0] = mib - 1 + 2*(i/3%2) // contrast: 1 MiB-1 / 1 MiB+1 instead of exactly 1 MiB
			}
		}
		slots, attempts := 6, 3
		if raceEnabled {
			slots, attempts = 3, 4
		}
		release := acquireSlot(slots)
		defer release()
		why := ""
		for attempt := 0; attempt < attempts; attempt++ {
			repoErrors.reset()
			ok, w := runSock(r, proto, i, attempt, rng.Fork(), sizes, tail)
			if ok {
				r.Count("sock.sessions_judged", 1)
				r.Count("sock."+proto+".sessions_judged", 1)
				if i < 2 {
					r.Sample(map[string]interface{}{"kind": "real Clients over " + proto + ", 4 senders per direction on one session, then a marker bundle per direction",
						"encoded_lengths_per_concurrent_sender (negative: random small up to)": sizes, "then_one_at_a_time": tail})
				}
				return
			}
			why = w
			r.Count("sock.attempts_without_verdict", 1)
			r.Note(fmt.Sprintf("sock/%d attempt %d gave no verdict: %s [repository log: %s]", i, attempt, w, repoErrors))
		}
		// no attempt reached the barrier: the check as a whole is inconclusive (driver: exit 2)
		t.Errorf("INCONCLUSIVE sock/%d (%s): %s", i, proto, why)
	})

	// (3b) Send on a Client whose session was lost
	r.Group("lost", r.Pick(4, 16), func(i int, rng *report.Rand) {
		proto := []string{"tcp", "ws"}[i%2]
		afterClose := i/2%2 == 0
		why := ""
		for attempt := 0; attempt < 3; attempt++ {
			repoErrors.reset()
			ok, w := runLost(r, proto, afterClose, i, attempt, rng.Fork())
			if ok {
				r.Count("lost.sessions_judged", 1)
				return
			}
			why = w
			r.Count("lost.attempts_without_verdict", 1)
			r.Note(fmt.Sprintf("lost/%d attempt %d gave no verdict: %s [repository log: %s]", i, attempt, w, repoErrors))
		}
		t.Errorf("INCONCLUSIVE lost/%d (%s): %s", i, proto, why)
	})
}
