package c11

import (
	"bytes"
	"fmt"

	"github.com/dtn7/dtn7-go/pkg/bpv7"

	"verifh/internal/model"
	"verifh/internal/report"
)

// encodeBundle serialises with the repository's serialiser (the codec itself is C01's subject; here the
// encoding is the given byte string that the convergence layer has to carry).
func encodeBundle(b *bpv7.Bundle) (out []byte, err error) {
	defer func() {
		if p := recover(); p != nil {
			err = fmt.Errorf("panic: %v", p)
		}
	}()
	var buf bytes.Buffer
	hint := 1024
	for _, cb := range b.CanonicalBlocks {
		if pb, ok := cb.Value.(*bpv7.PayloadBlock); ok {
			hint += len(pb.Data())
		}
	}
	buf.Grow(hint)
	err = b.MarshalCbor(&buf)
	return buf.Bytes(), err
}

type countWriter int

func (c *countWriter) Write(p []byte) (int, error) { *c += countWriter(len(p)); return len(p), nil }

// testBundle is one generated bundle with its reference encoding.
type testBundle struct {
	M   model.Bundle
	Enc []byte
}

// fresh returns a new repository struct for the bundle (never shared between goroutines).
func (tb *testBundle) fresh() bpv7.Bundle { return tb.M.ToBpv7() }

func encLen(m model.Bundle) (n int) {
	defer func() {
		if p := recover(); p != nil {
			n = -1
		}
	}()
	b := m.ToBpv7()
	var c countWriter
	if err := b.MarshalCbor(&c); err != nil {
		return -1
	}
	return int(c)
}

func setPayload(m *model.Bundle, rng *report.Rand, p int) {
	m.Blocks[len(m.Blocks)-1].Data = rng.Bytes(p)
}

// bundleOfLen draws a well-formed bundle whose encoding has exactly L bytes: a generated bundle is cut down
// until it fits (extension blocks dropped, endpoint names shortened, CRCs dropped), then the payload length and
// a few padding characters in the destination are tuned.
func bundleOfLen(rng *report.Rand, L int, nowMs uint64) (*testBundle, error) {
	o := model.GenOpts{NowMs: nowMs, SmallOnly: true, NoMultiMaps: true, MaxPayload: 40}
	m := model.GenBundle(rng, o)
	if m.IsFragment() {
		// keep the total length field constant while the payload length is tuned
		m.Total = m.FragOff + 1<<31
	}
	setPayload(&m, rng, 0)
	// cut down until the empty-payload encoding leaves room
	for step := 0; encLen(m) > L; step++ {
		switch {
		case len(m.Blocks) > 1 && m.Time != 0:
			m.Blocks = m.Blocks[1:]
		case len(m.Blocks) > 1: // zero creation time: the age block has to stay
			nb := m.Blocks[:0:0]
			for i, blk := range m.Blocks {
				if blk.Type == model.TAge || i == len(m.Blocks)-1 {
					nb = append(nb, blk)
				}
			}
			if len(nb) == len(m.Blocks) {
				goto shrink
			}
			m.Blocks = nb
		default:
			goto shrink
		}
		continue
	shrink:
		switch step % 8 {
		case 0:
			m.Rpt = model.DtnNone()
		case 1:
			m.Dst = model.Dtn("d", "")
		case 2:
			if !m.Src.None {
				m.Src = model.Dtn("s", "")
			}
		case 3:
			m.CRC = 0
		case 4:
			for i := range m.Blocks {
				m.Blocks[i].CRC = 0
			}
		case 5:
			m.Seq = uint64(rng.Intn(24))
		case 6:
			if m.IsFragment() {
				m.Flags &^= model.FIsFragment
				m.FragOff, m.Total = 0, 0
			}
		case 7:
			if step > 40 {
				return nil, fmt.Errorf("cannot build a bundle of %d bytes (minimum reached %d)", L, encLen(m))
			}
		}
	}
	base := m
	for pad := 0; pad < 4; pad++ {
		m = base.Clone()
		if pad > 0 {
			if m.Dst.None || m.Dst.Scheme != 1 {
				m.Dst = model.Dtn("d", "")
			}
			m.Dst = model.Dtn(m.Dst.Node, m.Dst.Demux+"xxxx"[:pad])
		}
		l0 := encLen(m)
		if l0 > L {
			continue
		}
		guess := L - l0
		for p := guess; p >= 0 && p >= guess-12; p-- {
			m.Blocks[len(m.Blocks)-1].Data = make([]byte, p) // probe with zeros, fill afterwards
			if n := encLen(m); n < L {
				break
			} else if n > L {
				continue
			}
			setPayload(&m, rng, p)
			b := m.ToBpv7()
			x, err := encodeBundle(&b)
			if err != nil {
				return nil, err
			}
			if len(x) != L {
				return nil, fmt.Errorf("encoded length depends on the payload's content (%d != %d)", len(x), L)
			}
			return &testBundle{M: m.Clone(), Enc: x}, nil
		}
	}
	return nil, fmt.Errorf("no payload length gives an encoding of exactly %d bytes", L)
}
