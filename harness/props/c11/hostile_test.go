package c11

import (
	"bytes"
	"fmt"
	"net"
	"strings"
	"sync"
	"time"

	"github.com/dtn7/dtn7-go/pkg/bpv7"
	"github.com/dtn7/dtn7-go/pkg/cla/tcpclv4"

	"verifh/internal/bubble"
	"verifh/internal/report"
)

// Workload 2: the sending side is the repository's session stack (MessageSwitchReaderWriter, StageHandler with the
// contact / session-init / established stages, TransferManager) wired exactly like Client.Start does, on one end
// of a net.Pipe inside a bubble; the other end is a scripted peer that speaks the protocol through the harness's
// own message reader / writer and misbehaves at a chosen segment.

// stack mirrors what tcpclv4.Client builds in Start() and tears down in handle().
type stack struct {
	conn net.Conn
	ms   *tcpclv4.VerifMessageSwitchReaderWriter
	sh   *tcpclv4.VerifStageHandler
	tm   *tcpclv4.VerifTransferManager
	mtu  uint64

	closeReq chan struct{}
	closed   chan struct{}
	cause    error
}

func startStack(conn net.Conn) (*stack, error) {
	st := &stack{conn: conn, closeReq: make(chan struct{}), closed: make(chan struct{})}
	st.ms = tcpclv4.VerifNewMessageSwitchReaderWriter(conn, conn)
	msIn, msOut, msErr := st.ms.Exchange()
	conf := tcpclv4.VerifConfiguration{
		ActivePeer:  true,
		Keepalive:   30,
		SegmentMru:  1048576,
		TransferMru: 1073741824,
		NodeId:      bpv7.MustNewEndpointID("dtn://sut/"),
	}
	sMtu := make(chan uint64, 1)
	stgs := []tcpclv4.VerifStageSetup{
		{Stage: &tcpclv4.VerifContactStage{}},
		{Stage: &tcpclv4.VerifSessInitStage{}},
		{Stage: &tcpclv4.VerifSessEstablishedStage{}, PreHook: func(_ *tcpclv4.VerifStageHandler, state *tcpclv4.VerifState) error {
			sMtu <- state.SegmentMtu
			return nil
		}},
	}
	st.sh = tcpclv4.VerifNewStageHandler(stgs, msIn, msOut, conf)
	select {
	case st.mtu = <-sMtu:
	case err := <-st.sh.Error():
		return nil, fmt.Errorf("stage handler: %v", err)
	case err := <-msErr:
		return nil, fmt.Errorf("message switch: %v", err)
	case <-time.After(15 * time.Second):
		return nil, fmt.Errorf("session establishment timed out")
	}
	shIn, shOut := st.sh.Exchanges()
	st.tm = tcpclv4.VerifNewTransferManager(shIn, shOut, st.mtu)
	go func() {
		defer close(st.closed)
		bundles, tmErr := st.tm.Exchange()
	loop:
		for {
			select {
			case <-bundles:
			case <-st.closeReq:
				break loop
			case st.cause = <-msErr:
				break loop
			case st.cause = <-st.sh.Error():
				break loop
			case st.cause = <-tmErr:
				break loop
			}
		}
		_ = st.tm.Close()
		_ = st.sh.Close()
		_ = st.ms.Close()
		_ = st.conn.Close()
	}()
	return st, nil
}

func (st *stack) stop() {
	select {
	case <-st.closed:
	default:
		close(st.closeReq)
		<-st.closed
	}
}

// peerLog is the scripted peer's view.
type peerLog struct {
	mu         sync.Mutex
	negotiated bool
	segs       []segView
	acked      int  // segments acknowledged
	endSeen    bool // a segment with END was read completely
	endAcked   bool // ... and its acknowledgement was written completely
	refused    bool
	closedAt   int // segment index (1-based) at which the peer closed the connection, 0 = never
	readErr    error
	done       chan struct{}
}

const (
	modeCooperative = "cooperative"
	modeStopAck     = "stop-ack"           // acknowledges segments 1..k, none afterwards (keeps reading)
	modeRefuse      = "refuse"             // acknowledges 1..k-1, answers segment k with XFER_REFUSE
	modeClose       = "close"              // acknowledges 1..k-1, closes the connection after reading segment k
	modeCloseAcked  = "close-acked"        // acknowledges 1..k, then closes the connection
	modeSwallowEnd  = "swallow-end"        // acknowledges every segment except the one that carries END
	modeRefuseAcks  = "refuse-keep-acking" // answers segment k with XFER_REFUSE, yet acknowledges it and all later ones
	// (acknowledgements already under way when the receiver gave up on the bundle)
)

func (lg *peerLog) set(f func()) {
	lg.mu.Lock()
	f()
	lg.mu.Unlock()
}

func scriptedPeer(conn net.Conn, mru uint64, mode string, k int, lg *peerLog) {
	defer close(lg.done)
	defer conn.Close()
	if _, err := readContactHeader(conn); err != nil {
		lg.set(func() { lg.readErr = err })
		return
	}
	if err := writeContactHeader(conn); err != nil {
		lg.set(func() { lg.readErr = err })
		return
	}
	if m, err := readMsg(conn); err != nil || m.Type != wSessInit {
		lg.set(func() { lg.readErr = fmt.Errorf("expected SESS_INIT: %v %v", m.Type, err) })
		return
	}
	if err := writeSessInit(conn, 0, mru, 1<<30, "dtn://peer/"); err != nil {
		lg.set(func() { lg.readErr = err })
		return
	}
	lg.set(func() { lg.negotiated = true })
	total := uint64(0)
	for {
		m, err := readMsg(conn)
		if err != nil {
			lg.set(func() { lg.readErr = err })
			return
		}
		switch m.Type {
		case wXferSegment:
			lg.mu.Lock()
			lg.segs = append(lg.segs, segView{m.Flags, m.ID, m.Data})
			total += uint64(len(m.Data))
			i := len(lg.segs)
			end := m.Flags&wFlagEnd != 0
			if end {
				lg.endSeen = true
			}
			lg.mu.Unlock()
			ack := false
			switch mode {
			case modeCooperative:
				ack = true
			case modeStopAck:
				ack = i <= k
			case modeRefuse:
				ack = i < k
				if i == k {
					lg.set(func() { lg.refused = true })
					if err := writeRefuse(conn, byte(1+i%6), m.ID); err != nil {
						lg.set(func() { lg.readErr = err })
						return
					}
				}
			case modeRefuseAcks:
				ack = true
				if i == k {
					lg.set(func() { lg.refused = true })
					if err := writeRefuse(conn, byte(1+i%6), m.ID); err != nil {
						lg.set(func() { lg.readErr = err })
						return
					}
				}
			case modeClose:
				ack = i < k
				if i == k {
					lg.set(func() { lg.closedAt = i })
					return
				}
			case modeCloseAcked:
				ack = i <= k
			case modeSwallowEnd:
				ack = !end
			}
			if ack {
				if err := writeAck(conn, m.Flags, m.ID, total); err != nil {
					lg.set(func() { lg.readErr = err })
					return
				}
				lg.set(func() {
					lg.acked++
					if end {
						lg.endAcked = true
					}
				})
			}
			if mode == modeCloseAcked && i == k {
				lg.set(func() { lg.closedAt = i })
				return
			}
		case wSessTerm:
			_ = writeSessTerm(conn, 0x01, 0)
			return
		default:
			// KEEPALIVE and anything else: ignore
		}
	}
}

type hostileWitness struct {
	Mode     string   `json:"peer_mode"`
	K        int      `json:"fault_at_segment"`
	L        int      `json:"encoded_length"`
	M        uint64   `json:"negotiated_segment_size"`
	Class    string   `json:"class"`
	SendErr  string   `json:"send_result"`
	PeerSaw  []segRec `json:"segments_seen_by_peer"`
	Acked    int      `json:"segments_acknowledged_by_peer"`
	EndSeen  bool     `json:"peer_saw_end"`
	EndAcked bool     `json:"peer_acknowledged_end"`
	Refused  bool     `json:"peer_refused"`
	ClosedAt int      `json:"peer_closed_at_segment"`
	EncHex   string   `json:"encoding_hex"`
}

// runHostile runs one scripted session; must be called inside a bubble. aborted reports whether the transfer was cut
// off (the repository then leaves goroutines blocked, which ends the bubble with synctest's deadlock report).
func runHostile(r *report.Run, tb *testBundle, m uint64, mode string, k int) (aborted bool) {
	L := len(tb.Enc)
	cls := lmClass(L, m)
	c1, c2 := net.Pipe()
	lg := &peerLog{done: make(chan struct{})}
	go scriptedPeer(c2, m, mode, k, lg)
	st, err := startStack(c1)
	if err != nil {
		r.Violation("c11.harness:session-setup:"+errClass(err), "scripted session could not be established: "+err.Error(), map[string]interface{}{"mode": mode, "m": m})
		_ = c1.Close()
		return true
	}
	mk := func(sendRes string) hostileWitness {
		return hostileWitness{Mode: mode, K: k, L: L, M: m, Class: cls, SendErr: sendRes, PeerSaw: recs(lg.segs), Acked: lg.acked,
			EndSeen: lg.endSeen, EndAcked: lg.endAcked, Refused: lg.refused, ClosedAt: lg.closedAt, EncHex: fmt.Sprintf("%x", tb.Enc)}
	}
	if st.mtu != m {
		r.Violation("c11.negotiated-size-ignored", fmt.Sprintf("peer announced segment MRU %d, the session uses %d", m, st.mtu), mk("-"))
	}
	res := make(chan error, 1)
	go func() { res <- st.tm.Send(tb.fresh()) }()
	var sendErr error
	returned := false
	for round := 0; round < 4 && !returned; round++ {
		bubble.Wait()
		select {
		case sendErr = <-res:
			returned = true
		default:
			time.Sleep(11 * time.Second) // virtual
		}
	}
	bubble.Wait()
	if !returned {
		select {
		case sendErr = <-res:
			returned = true
		default:
		}
	}
	sendRes := "did not return"
	if returned {
		sendRes = "nil"
		if sendErr != nil {
			sendRes = "error: " + sendErr.Error()
		}
	}
	// snapshot of the peer's view (quiescent point); the lock is released before the session is torn down
	lg.mu.Lock()
	snap := &peerLog{segs: append([]segView(nil), lg.segs...), acked: lg.acked, endSeen: lg.endSeen, endAcked: lg.endAcked,
		refused: lg.refused, closedAt: lg.closedAt, done: lg.done}
	lg.mu.Unlock()
	peer := lg
	lg = snap
	w := mk(sendRes)

	var cat []byte
	for _, s := range lg.segs {
		cat = append(cat, s.Data...)
	}
	peerComplete := lg.endSeen && bytes.Equal(cat, tb.Enc)

	switch {
	case !returned:
		r.Violation("c11.send-never-returns:"+mode, fmt.Sprintf("L=%d m=%d %s at %d: Send did not return within 44 virtual seconds", L, m, mode, k), w)
		aborted = true
	case sendErr == nil:
		// success only if the peer obtained the complete transfer including END, acknowledged it, and never refused
		if rule, msg := judgeTrain(lg.segs, tb.Enc, m, true); rule != "" {
			r.Violation(rule+":"+cls, fmt.Sprintf("L=%d m=%d peer %s at %d, Send returned nil: %s", L, m, mode, k, msg), w)
		} else if !(peerComplete && lg.endAcked && !lg.refused) {
			r.Violation("c11.success-despite-fault:"+mode, fmt.Sprintf("L=%d m=%d: Send returned nil although the peer (%s at segment %d) saw END=%v, acknowledged END=%v, refused=%v, closed at %d",
				L, m, mode, k, lg.endSeen, lg.endAcked, lg.refused, lg.closedAt), w)
		} else {
			r.Count("hostile."+mode+".send_ok_peer_acknowledged_end", 1)
		}
	default:
		aborted = true
		if rule, msg := judgeTrain(lg.segs, tb.Enc, m, false); rule != "" {
			r.Violation(rule+":"+cls, fmt.Sprintf("L=%d m=%d peer %s at %d: %s", L, m, mode, k, msg), w)
		}
		if mode == modeCooperative {
			r.Violation("c11.send-error-without-fault:"+cls+":"+errClass(sendErr), fmt.Sprintf("L=%d m=%d: Send to a cooperative scripted peer failed: %v", L, m, sendErr), w)
		} else {
			r.Count("hostile."+mode+".send_failed_as_required", 1)
			kind := errClass(sendErr)
			switch {
			case strings.HasPrefix(kind, "timeout"):
				kind = "timeout"
			case strings.Contains(kind, "unexpected message"):
				kind = "refusal"
			case strings.Contains(kind, "stopped"):
				kind = "manager-stopped"
			}
			r.Count("hostile.error_kind."+kind, 1)
		}
	}
	r.Count("hostile.segments_seen_by_peer", len(lg.segs))
	st.stop()
	bubble.Wait()
	select {
	case <-peer.done:
	default:
		_ = c2.Close()
		bubble.Wait()
	}
	return aborted
}
