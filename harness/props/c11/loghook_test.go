package c11

import (
	"os"
	"strings"
	"sync"

	log "github.com/sirupsen/logrus"
)

// errorLog keeps the repository's most recent warnings and errors (diagnostics for attempts that gave no verdict;
// never part of an oracle).
type errorLog struct {
	mu   sync.Mutex
	last []string
}

func (e *errorLog) Levels() []log.Level { return []log.Level{log.WarnLevel, log.ErrorLevel} }

func (e *errorLog) Fire(en *log.Entry) error {
	s := en.Message
	if err, ok := en.Data[log.ErrorKey]; ok {
		s += ": " + strings.TrimSpace(strings.ReplaceAll(strings.ReplaceAll(err.(error).Error(), "\n", " "), "  ", " "))
	}
	e.mu.Lock()
	e.last = append(e.last, s)
	if len(e.last) > 6 {
		e.last = e.last[len(e.last)-6:]
	}
	e.mu.Unlock()
	return nil
}

func (e *errorLog) reset() {
	e.mu.Lock()
	e.last = nil
	e.mu.Unlock()
}

func (e *errorLog) String() string {
	e.mu.Lock()
	defer e.mu.Unlock()
	return strings.Join(e.last, " | ")
}

var repoErrors = &errorLog{}

func installErrorLog() {
	if os.Getenv("VERIF_LOG") == "" {
		log.SetLevel(log.WarnLevel) // output stays discarded (bubble.Quiet)
	}
	log.AddHook(repoErrors)
}
