package c11

import (
	"fmt"
	"net"
	"net/http"
	"os"
	"time"

	"github.com/dtn7/dtn7-go/pkg/bpv7"
	"github.com/dtn7/dtn7-go/pkg/cla"
	"github.com/dtn7/dtn7-go/pkg/cla/tcpclv4"

	"verifh/internal/bubble"
	"verifh/internal/report"
)

// Workload 3b: session loss. A dialled Client (started directly, its channel drained by the harness) is connected
// to a listener whose Manager is then closed, which terminates the session from the peer's side. Once the Client
// has reported PeerDisappeared - and, in the second variant, after its Close() has returned, as the cla.Manager
// does with a disappeared peer - Send is called. Nothing can be delivered any more, so Send has to return an error
// (and must not take the process down). Causality only: the Send happens after the loss was observed.
func runLost(r *report.Run, proto string, afterClose bool, caseNo, attempt int, rng *report.Rand) (conclusive bool, why string) {
	tag := fmt.Sprintf("%d-l%d-%d", os.Getpid(), caseNo, attempt)
	eidS := bpv7.MustNewEndpointID("dtn://c11-srv-" + tag + "/")
	eidC := bpv7.MustNewEndpointID("dtn://c11-cli-" + tag + "/")
	mgrS := cla.NewManager()
	logS := newEvLog()
	go logS.run(mgrS)
	mgrClosed := false
	var cleanup []func()
	defer func() {
		if !mgrClosed {
			withWatchdog(60*time.Second, func() { _ = mgrS.Close() })
		}
		for _, f := range cleanup {
			withWatchdog(30*time.Second, f)
		}
	}()

	var addr string
	var client *tcpclv4.Client
	switch proto {
	case "tcp":
		var lst *tcpclv4.TCPListener
		for try := 0; ; try++ {
			port, err := freePort()
			if err != nil {
				return false, "no free port: " + err.Error()
			}
			addr = fmt.Sprintf("127.0.0.1:%d", port)
			lst = tcpclv4.ListenTCP(addr, eidS)
			lst.RegisterManager(mgrS)
			if err = lst.Start(); err == nil {
				break
			}
			if try >= 20 {
				return false, "cannot bind a listener: " + err.Error()
			}
		}
		cleanup = append(cleanup, func() { _ = lst.Close() })
		client = tcpclv4.DialTCP(addr, eidC, false)
	case "ws":
		ln, err := net.Listen("tcp", "127.0.0.1:0")
		if err != nil {
			return false, "no free port: " + err.Error()
		}
		lst := tcpclv4.ListenWebSocket(eidS)
		mgrS.Register(lst)
		mux := http.NewServeMux()
		mux.Handle("/tcpclv4", lst)
		srv := &http.Server{Handler: mux}
		go func() { _ = srv.Serve(ln) }()
		cleanup = append(cleanup, func() { _ = srv.Close() })
		client = tcpclv4.DialWebSocket("ws://"+ln.Addr().String()+"/tcpclv4", eidC, false)
	}

	var startErr error
	if !withWatchdog(sockWatchdog, func() { startErr, _ = client.Start() }) {
		return false, "Client.Start did not return"
	}
	if startErr != nil {
		return false, "Client.Start: " + startErr.Error()
	}
	events := make(chan cla.ConvergenceStatus, 64)
	stopDrain := make(chan struct{})
	defer close(stopDrain)
	go func(ch chan cla.ConvergenceStatus) {
		for {
			select {
			case cs := <-ch:
				select {
				case events <- cs:
				default:
				}
			case <-stopDrain:
				return
			}
		}
	}(client.Channel())
	waitEv := func(kind cla.ConvergenceMessageType) bool {
		deadline := time.After(sockWatchdog)
		for {
			select {
			case cs := <-events:
				if cs.MessageType == kind {
					return true
				}
			case <-deadline:
				return false
			}
		}
	}
	if !waitEv(cla.PeerAppeared) {
		return false, "no PeerAppeared from the dialled client"
	}
	// a first bundle over the healthy session (control): must succeed
	tb, err := bundleOfLen(rng, 80+rng.Intn(400), bubble.NowMs())
	if err != nil {
		return false, err.Error()
	}
	var ctlErr error
	if !withWatchdog(sockWatchdog, func() { ctlErr = client.Send(tb.fresh()) }) {
		return false, "control Send did not return"
	}
	if ctlErr != nil {
		return false, "control Send over the healthy session failed: " + ctlErr.Error()
	}

	// the peer terminates the session
	if !withWatchdog(sockWatchdog, func() { _ = mgrS.Close() }) {
		return false, "closing the listener's manager did not return"
	}
	mgrClosed = true
	if !waitEv(cla.PeerDisappeared) {
		return false, "the client did not report PeerDisappeared"
	}
	if afterClose {
		if !withWatchdog(sockWatchdog, func() { _ = client.Close() }) {
			return false, "Client.Close did not return"
		}
	}
	variant := "after-peer-disappeared"
	if afterClose {
		variant = "after-close"
	}
	tb2, err := bundleOfLen(rng, 80+rng.Intn(400), bubble.NowMs())
	if err != nil {
		return false, err.Error()
	}
	var sendErr error
	var panicked interface{}
	returned := withWatchdog(sockWatchdog, func() {
		defer func() { panicked = recover() }()
		sendErr = client.Send(tb2.fresh())
	})
	w := map[string]interface{}{"proto": proto, "variant": variant, "encoded_length": len(tb2.Enc)}
	switch {
	case !returned:
		return false, "Send on the lost session did not return before the watchdog"
	case panicked != nil:
		w["panic"] = fmt.Sprint(panicked)
		r.Violation("c11.send-panics-after-session-loss:"+variant, fmt.Sprintf("%s: Send on a Client whose session was lost panicked instead of returning an error: %v", proto, panicked), w)
	case sendErr == nil:
		r.Violation("c11.success-after-session-loss:"+variant, proto+": Send on a Client whose session was lost returned nil", w)
	default:
		r.Count("lost."+variant+".send_returned_error", 1)
		r.Count("lost.error."+errClass(sendErr), 1)
		r.Nontrivial("lost", proto, variant, len(tb2.Enc))
	}
	if !afterClose {
		withWatchdog(sockWatchdog, func() { _ = client.Close() })
	}
	return true, ""
}
