//go:build !race

package c11

const raceEnabled = false
