//go:build race

package c11

// raceEnabled: the binary was built with the race detector (large buffers are then an order of magnitude slower).
const raceEnabled = true
