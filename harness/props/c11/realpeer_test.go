package c11

// Workload 2b: the REAL tcpclv4.Client (DialTCP, Start, Send, Close - the object the node uses) against the scripted
// peer over a loopback TCP connection. The peer announces a small segment MRU in its SESS_INIT, which no dtn7-go node
// ever does (they all announce 1 MiB): every segment must respect the announced size, the train must be the bundle's
// encoding with START / END on the first / last segment, and Send must succeed exactly when the peer acknowledged the
// END (cooperative) and fail after a refusal or a closed connection. Real time only bounds how long the harness waits
// (watchdog = inconclusive).

import (
	"bytes"
	"fmt"
	"net"
	"time"

	"github.com/dtn7/dtn7-go/pkg/bpv7"
	"github.com/dtn7/dtn7-go/pkg/cla/tcpclv4"

	"verifh/internal/bubble"
	"verifh/internal/report"
)

func runRealPeer(r *report.Run, tb *testBundle, m uint64, mode string, k int) (conclusive bool) {
	L := len(tb.Enc)
	cls := lmClass(L, m)
	ln, err := net.Listen("tcp4", "127.0.0.1:0")
	if err != nil {
		r.Note("realpeer: listen: " + err.Error())
		return false
	}
	defer ln.Close()
	lg := &peerLog{done: make(chan struct{})}
	go func() {
		_ = ln.(*net.TCPListener).SetDeadline(time.Now().Add(sockWatchdog))
		conn, err := ln.Accept()
		if err != nil {
			lg.set(func() { lg.readErr = err })
			close(lg.done)
			return
		}
		scriptedPeer(conn, m, mode, k, lg)
	}()
	client := tcpclv4.DialTCP(ln.Addr().String(), bpv7.MustNewEndpointID("dtn://sut/"), false)
	var startErr error
	if !withWatchdog(sockWatchdog, func() { startErr, _ = client.Start() }) || startErr != nil {
		r.Note(fmt.Sprintf("realpeer: client start: %v", startErr))
		return false
	}
	go func() {
		for range client.Channel() {
		}
	}()
	var sendErr error
	returned := withWatchdog(sockWatchdog, func() { sendErr = client.Send(tb.fresh()) })
	if !returned {
		r.Note("realpeer: Send did not return within the watchdog (" + mode + ")")
		withWatchdog(sockWatchdog, func() { _ = client.Close() })
		return false
	}
	// the peer's view is complete once it has read what the client wrote; give it the chance to finish, then close
	if mode == modeCooperative {
		deadline := time.Now().Add(sockWatchdog)
		for time.Now().Before(deadline) {
			lg.mu.Lock()
			done := lg.endAcked || lg.readErr != nil
			lg.mu.Unlock()
			if done {
				break
			}
			time.Sleep(time.Millisecond)
		}
	}
	withWatchdog(sockWatchdog, func() { _ = client.Close() })
	select {
	case <-lg.done:
	case <-time.After(sockWatchdog):
		r.Note("realpeer: scripted peer did not finish")
		return false
	}
	lg.mu.Lock()
	segs := append([]segView(nil), lg.segs...)
	endSeen, endAcked, refused, closedAt, acked := lg.endSeen, lg.endAcked, lg.refused, lg.closedAt, lg.acked
	lg.mu.Unlock()
	sendRes := "nil"
	if sendErr != nil {
		sendRes = "error: " + sendErr.Error()
	}
	w := hostileWitness{Mode: mode + " (real Client over TCP)", K: k, L: L, M: m, Class: cls, SendErr: sendRes, PeerSaw: recs(segs), Acked: acked,
		EndSeen: endSeen, EndAcked: endAcked, Refused: refused, ClosedAt: closedAt, EncHex: fmt.Sprintf("%x", tb.Enc)}
	var cat []byte
	for _, s := range segs {
		cat = append(cat, s.Data...)
	}
	peerComplete := endSeen && bytes.Equal(cat, tb.Enc)
	r.Evals(1)
	r.Count("realpeer.sessions", 1)
	r.Count("realpeer.segments_seen_by_peer", len(segs))
	if sendErr == nil {
		if rule, msg := judgeTrain(segs, tb.Enc, m, true); rule != "" {
			r.Violation(rule+":"+cls+":real-client", fmt.Sprintf("real Client, peer announced segment MRU %d, L=%d, Send returned nil: %s", m, L, msg), w)
			return true
		}
		if !(peerComplete && endAcked && !refused) {
			r.Violation("c11.success-despite-fault:"+mode+":real-client", fmt.Sprintf("real Client, L=%d m=%d: Send returned nil although the peer (%s at segment %d) saw END=%v, acknowledged END=%v, refused=%v, closed at %d",
				L, m, mode, k, endSeen, endAcked, refused, closedAt), w)
			return true
		}
		r.Count("realpeer."+mode+".send_ok_peer_acknowledged_end", 1)
	} else {
		if rule, msg := judgeTrain(segs, tb.Enc, m, false); rule != "" {
			r.Violation(rule+":"+cls+":real-client", fmt.Sprintf("real Client, peer announced segment MRU %d, L=%d: %s", m, L, msg), w)
			return true
		}
		if mode == modeCooperative {
			r.Violation("c11.send-error-without-fault:"+cls+":real-client:"+errClass(sendErr), fmt.Sprintf("real Client, L=%d m=%d: Send to a cooperative scripted peer failed: %v", L, m, sendErr), w)
			return true
		}
		r.Count("realpeer."+mode+".send_failed_as_required", 1)
	}
	r.Nontrivial("realpeer", mode, L, m, k)
	return true
}

func realPeerGroup(r *report.Run) {
	mrus := []uint64{1, 7, 64, 100, 4096, 65536}
	r.Group("realpeer", r.Pick(36, 360), func(i int, rng *report.Rand) {
		m := mrus[i%len(mrus)]
		L := 64 + rng.Intn(240)
		if m >= 4096 {
			L = 3000 + rng.Intn(9000)
		}
		if m == 1 {
			L = 64 + rng.Intn(40)
		}
		tb, err := bundleOfLen(rng, L, bubble.NowMs())
		if err != nil {
			r.Violation("c11.harness:generator", err.Error(), L)
			return
		}
		n := (L + int(m) - 1) / int(m)
		inconclusive := 0
		try := func(mode string, k int) {
			for attempt := 0; attempt < 3; attempt++ {
				if runRealPeer(r, tb, m, mode, k) {
					return
				}
			}
			inconclusive++
		}
		try(modeCooperative, 0)
		try(modeRefuse, 1+rng.Intn(n))
		try(modeClose, 1+rng.Intn(n))
		if inconclusive > 0 {
			r.Count("realpeer.sessions_inconclusive_after_three_attempts", inconclusive)
		}
	})
}
