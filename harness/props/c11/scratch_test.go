package c11

import (
	"testing"

	"verifh/internal/bubble"
	"verifh/internal/report"
)

func TestScratchGen(t *testing.T) {
	bubble.RegisterBlocks()
	now := bubble.NowMs()
	fails := 0
	for L := 40; L < 500; L++ {
		rng := report.NewRand(1, "x", uint64(L))
		tb, err := bundleOfLen(rng, L, now)
		if err != nil {
			t.Logf("L=%d: %v", L, err)
			fails++
			continue
		}
		if len(tb.Enc) != L {
			t.Fatalf("L=%d got %d", L, len(tb.Enc))
		}
		if L%50 == 0 {
			t.Logf("L=%d %s", L, tb.M.Canon())
		}
	}
	for _, L := range []int{1 << 20, 1<<20 - 1, 1<<20 + 1, 2 << 20, 65536, 65535, 4096} {
		rng := report.NewRand(1, "x", uint64(L))
		tb, err := bundleOfLen(rng, L, now)
		if err != nil {
			t.Fatalf("L=%d: %v", L, err)
		}
		t.Logf("L=%d ok blocks=%d", len(tb.Enc), len(tb.M.Blocks))
	}
	t.Logf("fails=%d", fails)
}
