package c11

import (
	"fmt"
	"os"
	"path/filepath"
	"syscall"
	"time"
)

// acquireSlot limits how many socket sessions of this check run at the same time on the machine (all shards, all
// concurrent invocations): one of k lock files is held for the duration of a session. Waiting for a slot only
// delays a case; it is never part of a verdict. Reason: with the race detector a session keeps several cores busy,
// and sixteen of them at once starve each other until the code's real-time 10 s acknowledgement timeout fires.
func acquireSlot(k int) (release func()) {
	dir := os.TempDir()
	if root := os.Getenv("VERIF_ROOT"); root != "" {
		dir = filepath.Join(root, ".work")
		_ = os.MkdirAll(dir, 0o755)
	}
	deadline := time.Now().Add(20 * time.Minute)
	for {
		for i := 0; i < k; i++ {
			f, err := os.OpenFile(filepath.Join(dir, fmt.Sprintf("c11-socket-slot-%d.lock", i)), os.O_CREATE|os.O_RDWR, 0o644)
			if err != nil {
				return func() {}
			}
			if syscall.Flock(int(f.Fd()), syscall.LOCK_EX|syscall.LOCK_NB) == nil {
				return func() {
					_ = syscall.Flock(int(f.Fd()), syscall.LOCK_UN)
					_ = f.Close()
				}
			}
			_ = f.Close()
		}
		if time.Now().After(deadline) {
			return func() {} // give up waiting; run anyway
		}
		time.Sleep(250 * time.Millisecond)
	}
}
