package c11

import (
	"fmt"
	"net"
	"net/http"
	"os"
	"sync"
	"time"

	"github.com/dtn7/dtn7-go/pkg/bpv7"
	"github.com/dtn7/dtn7-go/pkg/cla"
	"github.com/dtn7/dtn7-go/pkg/cla/tcpclv4"

	"verifh/internal/bubble"
	"verifh/internal/report"
)

// Workload 3: real tcpclv4.Clients over TCP and WebSocket on the loopback interface, supervised by cla.Managers,
// several goroutines per direction calling Send on the same session at once. Real time, no bubble: the oracle only
// uses event counts and causality, wall-clock time only bounds how long the harness waits before it gives up
// (inconclusive, never a violation).
//
// Causal barrier: after all senders of a direction have returned, a small marker bundle is sent over the same
// session. The receiving TransferManager handles messages one by one and hands a completed bundle up before it
// reads the next message; Client, the manager's element handler and the Manager forward events first-in first-out.
// So once the marker has been handed up, every bundle whose Send returned nil before the marker was sent must have
// been handed up already - otherwise it never will be.

const sockWatchdog = 120 * time.Second

type rxEvent struct {
	from cla.Convergence
	key  [32]byte
	len  int
	ok   bool // re-serialised
}

type evLog struct {
	mu          sync.Mutex
	rx          []rxEvent
	appeared    []cla.Convergence
	disappeared []cla.Convergence
	ping        chan struct{}
	closed      chan struct{}
}

func newEvLog() *evLog {
	return &evLog{ping: make(chan struct{}, 1), closed: make(chan struct{})}
}

// run drains a Manager's channel (it must always be read) until the Manager closes it.
func (l *evLog) run(mgr *cla.Manager) {
	defer close(l.closed)
	for cs := range mgr.Channel() {
		switch cs.MessageType {
		case cla.ReceivedBundle:
			ev := rxEvent{from: cs.Sender}
			if m, ok := cs.Message.(cla.ConvergenceReceivedBundle); ok && m.Bundle != nil {
				if x, err := encodeBundle(m.Bundle); err == nil {
					ev.key, ev.len, ev.ok = sum(x), len(x), true
				}
			}
			l.mu.Lock()
			l.rx = append(l.rx, ev)
			l.mu.Unlock()
		case cla.PeerAppeared:
			l.mu.Lock()
			l.appeared = append(l.appeared, cs.Sender)
			l.mu.Unlock()
		case cla.PeerDisappeared:
			l.mu.Lock()
			l.disappeared = append(l.disappeared, cs.Sender)
			l.mu.Unlock()
		}
		select {
		case l.ping <- struct{}{}:
		default:
		}
	}
}

// lost reports (under the lock) whether the Manager announced the disappearance of the convergence.
func (l *evLog) lost(c cla.Convergence) bool {
	for _, d := range l.disappeared {
		if d == c {
			return true
		}
	}
	return false
}

// waitFor polls pred (under the log's lock) until it holds, the watchdog expires or abort (optional) holds.
func (l *evLog) waitFor(pred func() bool, d time.Duration, abort ...func() bool) bool {
	deadline := time.Now().Add(d)
	for {
		l.mu.Lock()
		ok := pred()
		stop := false
		for _, a := range abort {
			stop = stop || a()
		}
		l.mu.Unlock()
		if ok {
			return true
		}
		if stop || time.Now().After(deadline) {
			return false
		}
		select {
		case <-l.ping:
		case <-time.After(100 * time.Millisecond):
		}
	}
}

func freePort() (int, error) {
	ln, err := net.Listen("tcp", "127.0.0.1:0")
	if err != nil {
		return 0, err
	}
	p := ln.Addr().(*net.TCPAddr).Port
	_ = ln.Close()
	return p, nil
}

type sockSend struct {
	tb       *testBundle
	marker   bool
	returned bool
	err      error
}

type sockDir struct {
	name    string
	sender  cla.ConvergenceSender
	rxLog   *evLog // log of the receiving side's Manager
	rxConv  cla.Convergence
	txLog   *evLog // log of the sending side's Manager
	txConv  cla.Convergence
	lists   [][]*sockSend // concurrent phase: one goroutine per list
	tail    []*sockSend   // sequential phase afterwards
	marker  *sockSend
	barrier string // "marker" or "" (none reached)
}

// sessionLost: one of the two Managers has announced that the session's convergence disappeared.
func (d *sockDir) sessionLost() bool {
	d.rxLog.mu.Lock()
	a := d.rxLog.lost(d.rxConv)
	d.rxLog.mu.Unlock()
	d.txLog.mu.Lock()
	b := d.txLog.lost(d.txConv)
	d.txLog.mu.Unlock()
	return a || b
}

// handedUp counts (under the receiving log's lock) how often the bundle was handed up so far.
func (d *sockDir) handedUp(tb *testBundle) int {
	k := sum(tb.Enc)
	n := 0
	for _, ev := range d.rxLog.rx {
		if ev.ok && ev.key == k {
			n++
		}
	}
	return n
}

// withWatchdog runs f and reports whether it returned in time.
func withWatchdog(d time.Duration, f func()) bool {
	done := make(chan struct{})
	go func() { f(); close(done) }()
	select {
	case <-done:
		return true
	case <-time.After(d):
		return false
	}
}

// runSock runs one session. conclusive=false: a watchdog fired or the session was lost before the barrier; nothing
// was judged for the affected direction(s).
func runSock(r *report.Run, proto string, caseNo, attempt int, rng *report.Rand, sizes [][]int, tail []int) (conclusive bool, why string) {
	tag := fmt.Sprintf("%d-%d-%d", os.Getpid(), caseNo, attempt)
	eidS := bpv7.MustNewEndpointID("dtn://c11-srv-" + tag + "/")
	eidC := bpv7.MustNewEndpointID("dtn://c11-cli-" + tag + "/")

	mgrS, mgrC := cla.NewManager(), cla.NewManager()
	logS, logC := newEvLog(), newEvLog()
	go logS.run(mgrS)
	go logC.run(mgrC)

	var cleanup []func()
	defer func() {
		okc := withWatchdog(60*time.Second, func() { _ = mgrC.Close() })
		oks := withWatchdog(60*time.Second, func() { _ = mgrS.Close() })
		for _, f := range cleanup {
			f := f
			if !withWatchdog(30*time.Second, f) {
				r.Count("sock.teardown_step_stuck", 1)
			}
		}
		if !okc || !oks {
			r.Count("sock.manager_close_stuck", 1)
		}
	}()

	var addr string
	switch proto {
	case "tcp":
		var lst *tcpclv4.TCPListener
		for try := 0; ; try++ {
			port, err := freePort()
			if err != nil {
				return false, "no free port: " + err.Error()
			}
			addr = fmt.Sprintf("127.0.0.1:%d", port)
			lst = tcpclv4.ListenTCP(addr, eidS)
			lst.RegisterManager(mgrS)
			if err = lst.Start(); err == nil {
				break
			}
			if try >= 20 {
				return false, "cannot bind a listener: " + err.Error()
			}
		}
		cleanup = append(cleanup, func() { _ = lst.Close() })
	case "ws":
		ln, err := net.Listen("tcp", "127.0.0.1:0")
		if err != nil {
			return false, "no free port: " + err.Error()
		}
		addr = ln.Addr().String()
		lst := tcpclv4.ListenWebSocket(eidS)
		mgrS.Register(lst)
		mux := http.NewServeMux()
		mux.Handle("/tcpclv4", lst)
		srv := &http.Server{Handler: mux}
		go func() { _ = srv.Serve(ln) }()
		cleanup = append(cleanup, func() { _ = srv.Close() })
	}

	var client *tcpclv4.Client
	if proto == "tcp" {
		client = tcpclv4.DialTCP(addr, eidC, false)
	} else {
		client = tcpclv4.DialWebSocket("ws://"+addr+"/tcpclv4", eidC, false)
	}
	if !withWatchdog(sockWatchdog, func() { mgrC.Register(client) }) {
		return false, "registering the dialling client did not return"
	}
	if !logC.waitFor(func() bool { return len(logC.appeared) > 0 }, sockWatchdog) ||
		!logS.waitFor(func() bool { return len(logS.appeared) > 0 }, sockWatchdog) {
		return false, "session was not established (no PeerAppeared)"
	}
	logS.mu.Lock()
	srvConv := logS.appeared[0]
	logS.mu.Unlock()
	srvSender, ok := srvConv.(cla.ConvergenceSender)
	if !ok {
		return false, "server-side convergence is no sender"
	}

	now := bubble.NowMs()
	used := map[[32]byte]bool{}
	mk := func(L int) *testBundle {
		for {
			tb, err := bundleOfLen(rng, L, now)
			if err != nil {
				L++
				continue
			}
			if used[sum(tb.Enc)] {
				continue
			}
			used[sum(tb.Enc)] = true
			return tb
		}
	}
	mkDir := func(name string, sender cla.ConvergenceSender, rxLog *evLog, rxConv cla.Convergence, txLog *evLog, txConv cla.Convergence, shift int) *sockDir {
		d := &sockDir{name: name, sender: sender, rxLog: rxLog, rxConv: rxConv, txLog: txLog, txConv: txConv}
		pick := func(L int) int {
			if L < 0 { // small random length
				return 64 + rng.Intn(-L)
			}
			return L
		}
		for s := range sizes {
			var list []*sockSend
			for _, L := range sizes[(s+shift)%len(sizes)] {
				list = append(list, &sockSend{tb: mk(pick(L))})
			}
			d.lists = append(d.lists, list)
		}
		for _, L := range tail {
			d.tail = append(d.tail, &sockSend{tb: mk(pick(L))})
		}
		d.marker = &sockSend{tb: mk(101 + rng.Intn(50)), marker: true}
		return d
	}
	dirs := []*sockDir{
		mkDir("client->server", client, logS, srvConv, logC, client, 0),
		mkDir("server->client", srvSender, logC, client, logS, srvConv, 1),
	}

	// all senders of both directions at once
	var wg sync.WaitGroup
	for _, d := range dirs {
		for _, list := range d.lists {
			wg.Add(1)
			go func(d *sockDir, list []*sockSend) {
				defer wg.Done()
				for _, s := range list {
					s.err = d.sender.Send(s.tb.fresh())
					s.returned = true
				}
			}(d, list)
		}
	}
	if !withWatchdog(sockWatchdog, wg.Wait) {
		return false, "a Send call did not return before the watchdog"
	}

	// sequential phase: one bundle at a time; with the race detector also one direction at a time, so that no
	// acknowledgement has to wait behind the (then very slow) parsing of another large bundle
	runTail := func(d *sockDir) {
		for _, s := range d.tail {
			if d.sessionLost() {
				return
			}
			s.err = d.sender.Send(s.tb.fresh())
			s.returned = true
			// give the receiver time to hand the bundle up before the next one (no influence on any verdict)
			if s.err == nil {
				d.rxLog.waitFor(func() bool { return d.handedUp(s.tb) > 0 }, 20*time.Second, func() bool { return d.rxLog.lost(d.rxConv) })
			}
		}
	}
	tailOK := true
	if raceEnabled {
		for _, d := range dirs {
			d := d
			tailOK = tailOK && withWatchdog(sockWatchdog, func() { runTail(d) })
		}
	} else {
		var twg sync.WaitGroup
		for _, d := range dirs {
			twg.Add(1)
			go func(d *sockDir) { defer twg.Done(); runTail(d) }(d)
		}
		tailOK = withWatchdog(sockWatchdog, twg.Wait)
	}
	if !tailOK {
		return false, "a Send call of the sequential phase did not return before the watchdog"
	}

	// barrier: marker per direction
	conclusive = true
	for _, d := range dirs {
		d := d
		if d.sessionLost() {
			conclusive = false
			why = d.name + ": the session was lost before the marker could be sent; Send errors so far: " + sendErrors(dirs)
			continue
		}
		// Grace period before the marker (no influence on the verdict): let the receiver finish parsing what was
		// acknowledged, so that the marker's acknowledgement does not run into the sender's 10 s timeout.
		d.rxLog.waitFor(func() bool {
			for _, list := range append([][]*sockSend{d.tail}, d.lists...) {
				for _, s := range list {
					if s.err == nil && d.handedUp(s.tb) == 0 {
						return false
					}
				}
			}
			return true
		}, 30*time.Second, func() bool { return d.rxLog.lost(d.rxConv) })
		sent := withWatchdog(sockWatchdog, func() {
			d.marker.err = d.sender.Send(d.marker.tb.fresh())
			d.marker.returned = true
		})
		arrived := sent && d.rxLog.waitFor(func() bool { return d.handedUp(d.marker.tb) > 0 }, sockWatchdog,
			func() bool { return d.rxLog.lost(d.rxConv) })
		if !arrived {
			conclusive = false
			why = fmt.Sprintf("%s: marker bundle not handed up (its Send: returned=%v err=%v, session lost=%v)", d.name, d.marker.returned, d.marker.err, d.sessionLost())
			continue
		}
		d.barrier = "marker"
		judgeSock(r, proto, d)
	}
	return conclusive, why
}

// judgeSock applies the event-count oracle to one direction at its barrier.
func judgeSock(r *report.Run, proto string, d *sockDir) {
	d.rxLog.mu.Lock()
	events := append([]rxEvent(nil), d.rxLog.rx...)
	d.rxLog.mu.Unlock()

	all := append([][]*sockSend{{d.marker}, d.tail}, d.lists...)
	byKey := map[[32]byte]*sockSend{}
	for _, list := range all {
		for _, s := range list {
			byKey[sum(s.tb.Enc)] = s
		}
	}
	const mru = 1 << 20 // the Client's fixed segment MRU
	count := map[*sockSend]int{}
	markerAt := -1
	for i, ev := range events {
		if !ev.ok {
			r.Violation("c11.delivered-unknown-bundle:"+proto, "a bundle handed up by the Client cannot be serialised", map[string]interface{}{"direction": d.name})
			continue
		}
		s := byKey[ev.key]
		if s == nil {
			r.Violation("c11.delivered-unknown-bundle:"+proto, fmt.Sprintf("%s: the receiver handed up a bundle (%d bytes) that is not byte-identical to any bundle sent", d.name, ev.len),
				map[string]interface{}{"direction": d.name, "proto": proto, "sent_lengths": sentLens(all)})
			continue
		}
		count[s]++
		if s.marker && markerAt < 0 {
			markerAt = i
		}
	}
	for _, list := range all {
		for _, s := range list {
			L := len(s.tb.Enc)
			cls := lmClass(L, mru)
			w := map[string]interface{}{"direction": d.name, "proto": proto, "encoded_length": L, "segment_size": mru, "class": cls,
				"send_error": fmt.Sprint(s.err), "handed_up": count[s], "events_at_barrier": len(events), "sent_lengths": sentLens(all)}
			if count[s] > 1 {
				r.Violation("c11.delivered-twice:"+proto+":"+cls, fmt.Sprintf("%s over %s: a bundle of %d bytes was handed up %d times", d.name, proto, L, count[s]), w)
			}
			if s.marker {
				continue
			}
			r.Count("sock."+proto+".sends", 1)
			switch {
			case s.err == nil && count[s] == 0:
				r.Violation("c11.success-not-delivered:"+proto+":"+cls, fmt.Sprintf("%s over %s: Send of a %d-byte bundle returned nil, the marker sent afterwards was handed up, this bundle was not", d.name, proto, L), w)
			case s.err == nil:
				r.Count("sock."+proto+".success_and_delivered", 1)
				if L%mru == 0 {
					r.Count("sock.success_and_delivered_m_divides_L", 1)
				}
				r.Nontrivial("sock", s.tb.Enc[:64], L)
			default:
				r.Count("sock."+proto+".send_errors", 1)
				r.Count("sock.send_error."+errClass(s.err), 1)
			}
		}
	}
}

// sendErrors lists the distinct classes of Send errors of an attempt (diagnostics).
func sendErrors(dirs []*sockDir) string {
	seen := map[string]int{}
	for _, d := range dirs {
		for _, list := range append([][]*sockSend{d.tail}, d.lists...) {
			for _, s := range list {
				if s.returned && s.err != nil {
					seen[d.name+" "+errClass(s.err)]++
				}
			}
		}
	}
	return fmt.Sprint(seen)
}

func sentLens(all [][]*sockSend) []int {
	var out []int
	for _, l := range all {
		for _, s := range l {
			out = append(out, len(s.tb.Enc))
		}
	}
	return out
}
