package c11

import (
	"encoding/binary"
	"fmt"
	"io"
)

// Independent reader / writer for the TCPCLv4 messages the scripted peer needs (layouts from RFC 9174, not
// from the repository): contact header, SESS_INIT, SESS_TERM, XFER_SEGMENT, XFER_ACK, XFER_REFUSE, KEEPALIVE.

const (
	wXferSegment = 0x01
	wXferAck     = 0x02
	wXferRefuse  = 0x03
	wKeepalive   = 0x04
	wSessTerm    = 0x05
	wMsgReject   = 0x06
	wSessInit    = 0x07

	wFlagEnd   = 0x01
	wFlagStart = 0x02
)

// wireMsg is one decoded message.
type wireMsg struct {
	Type   byte
	Flags  byte   // XFER_SEGMENT / XFER_ACK / SESS_TERM flags
	ID     uint64 // transfer id
	Data   []byte // segment data
	AckLen uint64
	Reason byte
	SegMRU uint64 // SESS_INIT
	NodeID string // SESS_INIT
}

func readN(r io.Reader, n uint64) ([]byte, error) {
	if n > 1<<26 {
		return nil, fmt.Errorf("implausible length %d", n)
	}
	b := make([]byte, n)
	_, err := io.ReadFull(r, b)
	return b, err
}

func readContactHeader(r io.Reader) (flags byte, err error) {
	b, err := readN(r, 6)
	if err != nil {
		return 0, err
	}
	if string(b[:4]) != "dtn!" || b[4] != 4 {
		return 0, fmt.Errorf("bad contact header % x", b)
	}
	return b[5], nil
}

func writeContactHeader(w io.Writer) error {
	_, err := w.Write([]byte{'d', 't', 'n', '!', 4, 0})
	return err
}

func writeSessInit(w io.Writer, keepalive uint16, segMRU, transferMRU uint64, node string) error {
	b := []byte{wSessInit}
	b = binary.BigEndian.AppendUint16(b, keepalive)
	b = binary.BigEndian.AppendUint64(b, segMRU)
	b = binary.BigEndian.AppendUint64(b, transferMRU)
	b = binary.BigEndian.AppendUint16(b, uint16(len(node)))
	b = append(b, node...)
	b = binary.BigEndian.AppendUint32(b, 0)
	_, err := w.Write(b)
	return err
}

func writeAck(w io.Writer, flags byte, id, ackLen uint64) error {
	b := []byte{wXferAck, flags}
	b = binary.BigEndian.AppendUint64(b, id)
	b = binary.BigEndian.AppendUint64(b, ackLen)
	_, err := w.Write(b)
	return err
}

func writeRefuse(w io.Writer, reason byte, id uint64) error {
	b := []byte{wXferRefuse, reason}
	b = binary.BigEndian.AppendUint64(b, id)
	_, err := w.Write(b)
	return err
}

func writeSessTerm(w io.Writer, flags, reason byte) error {
	_, err := w.Write([]byte{wSessTerm, flags, reason})
	return err
}

// readMsg decodes the next message after the contact header exchange.
func readMsg(r io.Reader) (m wireMsg, err error) {
	t, err := readN(r, 1)
	if err != nil {
		return m, err
	}
	m.Type = t[0]
	switch m.Type {
	case wXferSegment:
		h, err := readN(r, 1+8+4)
		if err != nil {
			return m, err
		}
		m.Flags = h[0]
		m.ID = binary.BigEndian.Uint64(h[1:9])
		if ext := binary.BigEndian.Uint32(h[9:13]); ext > 0 {
			if _, err = readN(r, uint64(ext)); err != nil {
				return m, err
			}
		}
		l, err := readN(r, 8)
		if err != nil {
			return m, err
		}
		m.Data, err = readN(r, binary.BigEndian.Uint64(l))
		return m, err
	case wXferAck:
		h, err := readN(r, 1+8+8)
		if err != nil {
			return m, err
		}
		m.Flags = h[0]
		m.ID = binary.BigEndian.Uint64(h[1:9])
		m.AckLen = binary.BigEndian.Uint64(h[9:17])
		return m, nil
	case wXferRefuse:
		h, err := readN(r, 1+8)
		if err != nil {
			return m, err
		}
		m.Reason = h[0]
		m.ID = binary.BigEndian.Uint64(h[1:9])
		return m, nil
	case wKeepalive:
		return m, nil
	case wSessTerm:
		h, err := readN(r, 2)
		if err != nil {
			return m, err
		}
		m.Flags, m.Reason = h[0], h[1]
		return m, nil
	case wMsgReject:
		_, err := readN(r, 2)
		return m, err
	case wSessInit:
		h, err := readN(r, 2+8+8+2)
		if err != nil {
			return m, err
		}
		m.SegMRU = binary.BigEndian.Uint64(h[2:10])
		n, err := readN(r, uint64(binary.BigEndian.Uint16(h[18:20])))
		if err != nil {
			return m, err
		}
		m.NodeID = string(n)
		e, err := readN(r, 4)
		if err != nil {
			return m, err
		}
		_, err = readN(r, uint64(binary.BigEndian.Uint32(e)))
		return m, err
	}
	return m, fmt.Errorf("unknown message type 0x%02x", m.Type)
}
