package c12

import (
	"bytes"
	"fmt"
	"testing"
	"time"

	"github.com/dtn7/dtn7-go/pkg/bpv7"
	"github.com/dtn7/dtn7-go/pkg/cla/bbc"

	"verifh/internal/bubble"
	"verifh/internal/model"
	"verifh/internal/report"
)

func fragList(fs []wfrag, max int) []string {
	out := []string{}
	for i, f := range fs {
		if i >= max {
			out = append(out, fmt.Sprintf("... %d more", len(fs)-i))
			break
		}
		out = append(out, f.String())
	}
	return out
}

// ---------------------------------------------------------------------------------------------
// Sender-side oracle: the fragments a connector broadcast for one Send.

func judgeSenderTrain(r *report.Run, sb sentBundle, mtu int, frs []wfrag, sendErr error) bool {
	wit := func() interface{} {
		return map[string]interface{}{"mtu": mtu, "bundle": sb.Canon, "bundle_bytes": hx(sb.Bytes), "fragments": fragList(frs, 80)}
	}
	ok := true
	bad := func(sig, msg string) {
		ok = false
		r.Violation(sig, msg, wit())
	}
	if sendErr != nil {
		bad("c12.bbc.tx.send-error-without-fault", "Send returned an error although no fragment was lost: "+sendErr.Error())
	}
	if len(frs) == 0 {
		bad("c12.bbc.tx.no-fragment", "Send broadcast no fragment")
		return false
	}
	n := len(frs)
	var concat []byte
	for i, f := range frs {
		if f.Size > mtu {
			bad("c12.bbc.tx.fragment-exceeds-mtu", fmt.Sprintf("fragment %d/%d has %d bytes on the link, modem MTU is %d", i, n, f.Size, mtu))
			break
		}
	}
	for i, f := range frs {
		if want := (frs[0].Seq + byte(i%16)) % 16; f.Seq != want {
			cls := "other"
			if f.Seq >= 16 {
				cls = "not-reduced-mod-16"
			}
			bad("c12.bbc.tx.sequence-not-consecutive-mod16:"+cls, fmt.Sprintf("fragment %d/%d carries sequence number %d, expected %d (first was %d)", i, n, f.Seq, want, frs[0].Seq))
			break
		}
	}
	for i, f := range frs {
		if f.S != (i == 0) {
			bad("c12.bbc.tx.start-mark", fmt.Sprintf("fragment %d/%d has start bit %v", i, n, f.S))
			break
		}
	}
	for i, f := range frs {
		if f.E != (i == n-1) {
			bad("c12.bbc.tx.end-mark", fmt.Sprintf("fragment %d/%d has end bit %v", i, n, f.E))
			break
		}
	}
	for i, f := range frs {
		if f.F {
			bad("c12.bbc.tx.fail-bit-on-data", fmt.Sprintf("data fragment %d/%d has the failure bit", i, n))
			break
		}
		if f.Tid != frs[0].Tid {
			bad("c12.bbc.tx.transmission-id-changes", fmt.Sprintf("fragment %d/%d has transmission id %d, the first had %d", i, n, f.Tid, frs[0].Tid))
			break
		}
		concat = append(concat, f.Payload...)
	}
	plain, err := xzDecompress(concat)
	if err != nil {
		bad("c12.bbc.tx.payload-not-the-compressed-bundle", "concatenated fragment payloads are not an xz stream: "+errClass(err))
	} else if !bytes.Equal(plain, sb.Bytes) {
		bad("c12.bbc.tx.payload-not-the-compressed-bundle", "concatenated fragment payloads decompress to something else than the serialised bundle")
	}
	return ok
}

// ---------------------------------------------------------------------------------------------
// Receiver-side oracle.

// rxTrain is what arrives under one transmission id: one train, or several one after the other.
type rxTrain struct {
	sbs     []sentBundle
	faulted bool // anything but the intact trains in order
}

func oneTrain(sb sentBundle, faulted bool) rxTrain { return rxTrain{[]sentBundle{sb}, faulted} }

func judgeReceiver(r *report.Run, kind string, mtu int, inj []wfrag, trains map[byte]rxTrain, res rxResult) {
	wit := func() interface{} {
		tl := map[string]interface{}{}
		for tid, t := range trains {
			tl[fmt.Sprint(tid)] = map[string]interface{}{"faulted": t.faulted, "bundle_bytes": hexSent(t.sbs)}
		}
		dl := []string{}
		for _, d := range res.delivered {
			x, _ := bundleBytes(d)
			dl = append(dl, hx(x))
		}
		return map[string]interface{}{"kind": kind, "mtu": mtu, "injected": fragList(inj, 700), "transmissions": tl,
			"delivered": dl, "failure_fragments_per_tid": fmt.Sprint(res.fails)}
	}
	r.Evals(1)
	if res.problem != "" {
		r.Violation("c12.bbc.rx.harness:"+errClass(fmt.Errorf("%s", res.problem)), res.problem, wit())
		return
	}
	ref := newRefRx()
	for _, f := range inj {
		ref.feed(f)
	}
	// (a) never a different bundle
	type key struct {
		tid byte
		j   int
	}
	count := map[key]int{}
	for _, d := range res.delivered {
		found := false
		for tid, t := range trains {
			for j, sb := range t.sbs {
				if !found && sb.same(d) {
					count[key{tid, j}]++
					found = true
				}
			}
		}
		if !found {
			r.Violation("c12.bbc.rx.different-bundle:"+kind, "the receiver delivered a bundle that was not sent", wit())
			return
		}
	}
	r.Count("bbc.rx.bundles_delivered", len(res.delivered))
	for tid, t := range trains {
		a := ref.tids[tid]
		if a == nil {
			a = &refTid{}
		}
		r.Count("bbc.rx.failure_fragments_seen", res.fails[tid])
		if !t.faulted {
			if a.errored || a.cleanDone != len(t.sbs) {
				panic("harness: reference automaton rejects an intact train")
			}
			for j := range t.sbs {
				switch n := count[key{tid, j}]; {
				case n == 0:
					r.Violation("c12.bbc.rx.intact-train-not-delivered:"+kind, fmt.Sprintf("transmission %d arrived without any fault but its bundle was not delivered", tid), wit())
				case n > 1:
					r.Violation("c12.bbc.rx.intact-train-delivered-twice:"+kind, fmt.Sprintf("transmission %d arrived once without any fault, its bundle was delivered %d times", tid, n), wit())
				}
				r.Count("bbc.rx.intact_trains_delivered_once", 1)
			}
			if res.fails[tid] > 0 {
				r.Violation("c12.bbc.rx.spurious-failure-signal:"+kind, fmt.Sprintf("transmission %d arrived without any fault, yet %d failure fragment(s) were broadcast for it", tid, res.fails[tid]), wit())
			}
			continue
		}
		if a.errored {
			r.Count("bbc.rx.error_state_reached."+a.firstErr, 1)
			if res.fails[tid] == 0 {
				r.Violation("c12.bbc.rx.no-failure-signal:"+kind+"/"+a.firstErr,
					fmt.Sprintf("transmission %d: the reference receiver reaches its error state (%s) but no failure fragment was broadcast", tid, a.firstErr), wit())
			} else {
				r.Count("bbc.rx.failure_signalled_when_demanded", 1)
			}
		} else {
			r.Count("bbc.rx.fault_invisible_to_any_receiver", 1)
		}
		if a.wellFormedMixtures > 0 {
			// head of one train + tail of another under the same id, well-formed for every receiver:
			// "never a different bundle" (checked above) is all that can be demanded
			r.Count("bbc.rx.well_formed_mixture_of_two_trains", a.wellFormedMixtures)
		}
		// complete intact trains that preceded the first visible fault were complete for every receiver
		for _, j := range a.cleanTrains {
			if count[key{tid, j}] == 0 {
				r.Violation("c12.bbc.rx.complete-prefix-not-delivered:"+kind,
					fmt.Sprintf("transmission %d: a complete intact train preceded the fault but its bundle was never delivered", tid), wit())
				break
			}
		}
	}
}

// ---------------------------------------------------------------------------------------------
// One (bundle, MTU) case: real sender, real sender -> real receiver, harness trains with every single fault.

const (
	exhaustiveMaxTrain = 400  // longer trains: fault positions are sampled
	faultsMaxTrain     = 6000 // still longer: only the intact train and a handful of faults
)

func genBBCBundle(rng *report.Rand, small bool, maxPayload int) sentBundle {
	for {
		o := model.GenOpts{NowMs: bubble.NowMs(), MaxPayload: maxPayload, SmallOnly: small, NoMultiMaps: true}
		m := model.GenBundle(rng, o)
		if !small && len(m.Payload()) > maxPayload { // no 64 KiB boundary payloads over a 1-byte-per-fragment link
			continue
		}
		sb, err := mkSent(m)
		if err != nil {
			continue // not serialisable / not accepted: C01's and C02's subject
		}
		return sb
	}
}

func bbcPairCase(r *report.Run, sb sentBundle, mtu int, rng *report.Rand) {
	// --- real sender, captured by the scripted modem and forwarded to a real receiver
	txm := newScriptModem(mtu, 0)
	rxm := newScriptModem(mtu, 0)
	txm.fwd = func(f bbc.Fragment) {
		if !f.FailBit() {
			rxm.in <- f
		}
	}
	rxm.fwd = func(f bbc.Fragment) { txm.in <- f }
	tx := bbc.NewConnector(txm, false)
	rx := bbc.NewConnector(rxm, false)
	_, _ = tx.Start()
	_, _ = rx.Start()
	errCh := make(chan error, 1)
	go func() { errCh <- tx.Send(sb.B) }()
	var got rxResult
	got.fails = map[byte]int{}
	// the receiver's report channel holds 64 entries; one bundle is expected
	bubble.Wait()
	var sendErr error
	select {
	case sendErr = <-errCh:
	default:
		r.Violation("c12.bbc.tx.send-does-not-return", "Send is still blocked although every goroutine of sender and receiver is idle",
			map[string]interface{}{"mtu": mtu, "bundle_bytes": hx(sb.Bytes)})
		_ = tx.Close()
		_ = rx.Close()
		return
	}
	got.drain(rx)
	_ = tx.Close()
	_ = rx.Close()
	got.drain(rx)
	all, err := txm.sentFrags()
	if err != nil {
		r.Violation("c12.bbc.tx.undecodable-fragment", err.Error(), nil)
		return
	}
	var frs []wfrag
	for _, f := range all {
		if !f.F {
			frs = append(frs, f)
		}
	}
	r.Count("bbc.tx.trains", 1)
	r.Count("bbc.tx.fragments", len(frs))
	if len(frs) > 16 {
		r.Count("bbc.tx.trains_with_sequence_wrap", 1)
	}
	if len(frs) == 1 {
		r.Count("bbc.tx.single_fragment_trains", 1)
	}
	senderOK := judgeSenderTrain(r, sb, mtu, frs, sendErr)
	// end to end without a fault: exactly once, identical, no failure signal
	rxOut, _ := rxm.sentFrags()
	e2eWit := func() interface{} {
		return map[string]interface{}{"mtu": mtu, "bundle_bytes": hx(sb.Bytes), "fragments": fragList(frs, 80), "receiver_broadcast": fragList(rxOut, 20)}
	}
	if senderOK { // a receiver cannot be blamed for a train that already breaks the sender's rules
		switch {
		case len(got.delivered) == 0:
			r.Violation("c12.bbc.e2e.not-delivered", "real sender -> real receiver without any fault: no bundle delivered", e2eWit())
		case len(got.delivered) > 1:
			r.Violation("c12.bbc.e2e.delivered-twice", fmt.Sprintf("real sender -> real receiver without any fault: %d bundles delivered", len(got.delivered)), e2eWit())
		case !sb.same(got.delivered[0]):
			r.Violation("c12.bbc.e2e.different-bundle", "real sender -> real receiver without any fault: a different bundle was delivered", e2eWit())
		default:
			r.Count("bbc.e2e.delivered_identical_exactly_once", 1)
		}
		if len(rxOut) > 0 {
			r.Violation("c12.bbc.e2e.spurious-failure-signal", "real sender -> real receiver without any fault: the receiver broadcast fragments", e2eWit())
		}
	}
	r.Evals(2)

	// --- harness-built train into the real receiver
	payload := xzCompress(sb.Bytes)
	tid := byte(rng.Intn(256))
	train := buildTrain(tid, 1, payload, mtu)
	n := len(train)
	r.Count("bbc.rx.harness_trains", 1)
	r.Count("bbc.rx.harness_train_fragments", n)
	run := func(kind string, inj []wfrag, faulted bool) {
		res := runReceiver(mtu, inj)
		judgeReceiver(r, kind, mtu, inj, map[byte]rxTrain{tid: oneTrain(sb, faulted)}, res)
	}
	run("intact", train, false)

	keepAll := func() []int { return make([]int, n) }
	variant := func(op int, i int, tailLoss bool) {
		ops := keepAll()
		ops[i] = op
		name := map[int]string{opDrop: "drop", opDup: "dup", opSwap: "swap"}[op] + "-" + posClass(i, n)
		if op == opSwap && i+1 == n-1 {
			name = "swap-last"
		}
		if tailLoss {
			ops[n-1] = opDrop
			name += "+tail-loss"
		}
		inj := applyOps(train, ops)
		faulted := !(op == opDup && n == 1) // a duplicated single-fragment transmission is a complete second transmission
		if op == opDup && n == 1 {
			// two complete transmissions of the same bundle: only "never a different bundle" and no failure demand
			res := runReceiver(mtu, inj)
			judgeReceiver(r, name, mtu, inj, map[byte]rxTrain{tid: oneTrain(sb, true)}, res)
			r.Count("bbc.rx.variants.dup-single-fragment-transmission", 1)
			return
		}
		run(name, inj, faulted)
		r.Count("bbc.rx.variants."+name, 1)
	}
	positions := make([]int, 0, n)
	switch {
	case n <= exhaustiveMaxTrain:
		for i := 0; i < n; i++ {
			positions = append(positions, i)
		}
		r.Count("bbc.rx.trains_with_every_single_fault", 1)
	case n <= faultsMaxTrain:
		seen := map[int]bool{}
		for _, i := range []int{0, 1, 2, 14, 15, 16, 17, n - 3, n - 2, n - 1} {
			if !seen[i] {
				seen[i] = true
				positions = append(positions, i)
			}
		}
		for len(positions) < 40 {
			if i := rng.Intn(n); !seen[i] {
				seen[i] = true
				positions = append(positions, i)
			}
		}
		r.Count("bbc.rx.trains_with_sampled_faults", 1)
	default:
		positions = []int{0, 1, n / 2, n - 2, n - 1}
		r.Count("bbc.rx.trains_with_sampled_faults", 1)
	}
	// the companion "same fault, final fragment lost as well" (a receiver that reports only at the end of a
	// transmission stays mute there): every position of trains up to 64 fragments, else 48 sampled positions
	withTail := map[int]bool{}
	if len(positions) <= 64 {
		for _, i := range positions {
			withTail[i] = true
		}
	} else {
		for _, i := range []int{0, 1, 14, 15, 16, n - 3, n - 2} {
			withTail[i] = true
		}
		for len(withTail) < 48 {
			withTail[positions[rng.Intn(len(positions))]] = true
		}
	}
	for _, i := range positions {
		variant(opDrop, i, false)
		variant(opDup, i, false)
		if i+1 < n {
			variant(opSwap, i, false)
		}
		if withTail[i] && i < n-1 && n >= 3 {
			variant(opDrop, i, true)
			variant(opDup, i, true)
			if i+1 < n-1 {
				variant(opSwap, i, true)
			}
		}
	}
	r.Nontrivial("bbc-pair", sb.Bytes, mtu)
}

// ---------------------------------------------------------------------------------------------
// Random multi-fault patterns over several interleaved incoming transmissions.

func randomOps(rng *report.Rand, n int) []int {
	for attempt := 0; attempt < 50; attempt++ {
		ops := make([]int, n)
		used := make([]bool, n)
		place := func(i, op int) bool {
			if i < 0 || i >= n || used[i] {
				return false
			}
			if op == opSwap {
				if i+1 >= n || used[i+1] {
					return false
				}
				used[i+1] = true
			}
			used[i], ops[i] = true, op
			return true
		}
		single := func(k int) {
			for j := 0; j < k; j++ {
				place(rng.Intn(n), []int{opDrop, opDup, opSwap}[rng.Intn(3)])
			}
		}
		switch s := rng.Intn(10); {
		case s < 5:
			single(1 + rng.Intn(5))
		case s < 8:
			l := 2 + rng.Intn(14) // burst of 2..15 losses
			at := rng.Intn(n)
			for j := 0; j < l; j++ {
				place(at+j, opDrop)
			}
			single(rng.Intn(3))
		default:
			single(1 + rng.Intn(3))
			if !used[n-1] {
				place(n-1, opDrop)
			}
		}
		if faultRunsBelow16(ops) {
			return ops
		}
	}
	return make([]int, n)
}

func sameTrain(a, b []wfrag) bool {
	if len(a) != len(b) {
		return false
	}
	for i := range a {
		if a[i].Seq != b[i].Seq || a[i].S != b[i].S || a[i].E != b[i].E || !bytes.Equal(a[i].Payload, b[i].Payload) {
			return false
		}
	}
	return true
}

func bbcMultiCase(r *report.Run, rng *report.Rand, mtus []int) {
	mtu := mtus[rng.Intn(len(mtus))]
	k := 2 + rng.Intn(3)
	trains := map[byte]rxTrain{}
	var queues [][]wfrag
	desc := []interface{}{"bbc-multi", mtu}
	anyFault := false
	var all []sentBundle
	fresh := func() sentBundle {
		for {
			sb := genBBCBundle(rng, true, 0)
			distinct := true
			for _, o := range all {
				if bytes.Equal(o.Bytes, sb.Bytes) {
					distinct = false
				}
			}
			if distinct {
				all = append(all, sb)
				return sb
			}
		}
	}
	for len(queues) < k {
		tid := byte(rng.Intn(256))
		if _, dup := trains[tid]; dup {
			continue
		}
		// one train under this id, sometimes a second one right behind it (the id is used again)
		nTrains := 1
		if rng.Chance(1, 5) {
			nTrains = 2
		}
		var tr rxTrain
		var queue []wfrag
		for j := 0; j < nTrains; j++ {
			sb := fresh()
			train := buildTrain(tid, 1, xzCompress(sb.Bytes), mtu)
			for i := range train {
				train[i].Train = j
			}
			inj := train
			if rng.Chance(3, 4) {
				ops := randomOps(rng, len(train))
				inj = applyOps(train, ops)
				if !sameTrain(inj, train) {
					tr.faulted = true
				}
				if len(train) == 1 && len(inj) == 2 {
					r.Count("bbc.rx.variants.dup-single-fragment-transmission", 1)
				}
				desc = append(desc, fmt.Sprint(ops))
			}
			tr.sbs = append(tr.sbs, sb)
			queue = append(queue, inj...)
			desc = append(desc, sb.Bytes)
		}
		if nTrains > 1 {
			r.Count("bbc.multi.transmission_ids_used_twice", 1)
		}
		anyFault = anyFault || tr.faulted
		trains[tid] = tr
		queues = append(queues, queue)
	}
	// random interleaving that keeps every transmission's own order
	var inj []wfrag
	for {
		alive := []int{}
		for i, q := range queues {
			if len(q) > 0 {
				alive = append(alive, i)
			}
		}
		if len(alive) == 0 {
			break
		}
		i := alive[rng.Intn(len(alive))]
		burst := 1 + rng.Intn(4)
		for ; burst > 0 && len(queues[i]) > 0; burst-- {
			inj = append(inj, queues[i][0])
			queues[i] = queues[i][1:]
		}
	}
	res := runReceiver(mtu, inj)
	judgeReceiver(r, "multi", mtu, inj, trains, res)
	if anyFault && len(res.delivered) > 0 && len(inj) < 40 {
		r.Sample(map[string]interface{}{"kind": "bbc interleaved transmissions with faults", "mtu": mtu, "injected": fragList(inj, 40),
			"delivered": len(res.delivered), "failure_fragments_per_tid": fmt.Sprint(res.fails)})
	}
	r.Count("bbc.multi.runs", 1)
	r.Count("bbc.multi.interleaved_transmissions", k)
	if anyFault {
		r.Count("bbc.multi.runs_with_faults", 1)
	}
	r.Nontrivial(desc...)
}

// runBBC registers the BBC groups.
func runBBC(t *testing.T, r *report.Run) {
	quickMTUs := []int{3, 4, 5, 17, 64, 255}
	inBubble := func(f func()) {
		if err := bubble.Run(t, func(t *testing.T) { f() }); err != nil {
			r.Violation("c12.bbc.bubble:"+errClass(err), "the workload ended with blocked goroutines or a panic: "+err.Error(), nil)
		}
	}
	bundleFor := func(bi int) sentBundle {
		rng := report.NewRand(r.Seed, "bbc-bundle", uint64(bi))
		if bi%4 == 0 {
			return genBBCBundle(rng, false, 1200)
		}
		return genBBCBundle(rng, true, 0)
	}

	// every bundle x every MTU of its list
	nb := r.Pick(40, 400)
	type pair struct{ bi, mtu int }
	var pairs []pair
	for bi := 0; bi < nb; bi++ {
		ms := append([]int{}, quickMTUs...)
		if r.Thorough() {
			// 18 further MTUs per bundle; consecutive bundles together cover 3..260 every 15 bundles
			for j := 0; j < 18; j++ {
				ms = append(ms, 3+(bi*18+j)%258)
			}
		}
		for _, m := range ms {
			pairs = append(pairs, pair{bi, m})
		}
	}
	t0 := time.Now()
	defer func() { r.Count("harness.wall_ms.bbc-multi", int(time.Since(t0)/time.Millisecond)) }()
	r.Group("bbc-pair", len(pairs), func(i int, rng *report.Rand) {
		inBubble(func() {
			p := pairs[i]
			bbcPairCase(r, bundleFor(p.bi), p.mtu, rng)
			if i < 2 {
				sb := bundleFor(p.bi)
				r.Sample(map[string]interface{}{"kind": "bbc bundle x mtu with every single drop/dup/swap", "mtu": p.mtu,
					"bundle_bytes": hx(sb.Bytes), "compressed_len": len(xzCompress(sb.Bytes))})
			}
		})
	})
	r.Exhaustive(fmt.Sprintf("bbc: every single drop, duplication and adjacent swap of every generated train of at most %d fragments (and, for trains of at most 64 fragments, each of them combined with loss of the final fragment)", exhaustiveMaxTrain))

	r.Count("harness.wall_ms.bbc-pair", int(time.Since(t0)/time.Millisecond))
	t0 = time.Now()
	mtus := quickMTUs
	if r.Thorough() {
		mtus = nil
		for m := 3; m <= 260; m++ {
			mtus = append(mtus, m)
		}
	}
	r.Group("bbc-multi", r.Pick(2000, 20000), func(i int, rng *report.Rand) {
		inBubble(func() { bbcMultiCase(r, rng, mtus) })
	})
}

var _ = bpv7.DtnNone
