package c12

import (
	"bytes"
	"fmt"
	"io"
	"sync"

	"github.com/ulikunitz/xz"

	"github.com/dtn7/dtn7-go/pkg/bpv7"
	"github.com/dtn7/dtn7-go/pkg/cla"
	"github.com/dtn7/dtn7-go/pkg/cla/bbc"

	"verifh/internal/bubble"
	"verifh/internal/model"
)

// ---------------------------------------------------------------------------------------------
// Link fragments as the harness sees them: decoded from / encoded to wire bytes by the documented
// layout (byte 0 transmission id; byte 1 = sequence number << 3 | start << 2 | end << 1 | fail),
// independently of the accessor methods of bbc.Fragment.

type wfrag struct {
	Tid     byte
	Seq     byte // the full five-bit field
	S, E, F bool
	Payload []byte
	Size    int // bytes on the link
	// harness bookkeeping only (never on the wire): which train under this transmission id the fragment
	// came from, its position in that train and the train's length
	Train, Idx, N int
}

func decodeWire(b []byte) (wfrag, error) {
	if len(b) < 2 {
		return wfrag{}, fmt.Errorf("fragment of %d bytes", len(b))
	}
	return wfrag{Tid: b[0], Seq: b[1] >> 3, S: b[1]&4 != 0, E: b[1]&2 != 0, F: b[1]&1 != 0,
		Payload: append([]byte(nil), b[2:]...), Size: len(b)}, nil
}

func (w wfrag) wire() []byte {
	id := (w.Seq & 0x1f) << 3
	if w.S {
		id |= 4
	}
	if w.E {
		id |= 2
	}
	if w.F {
		id |= 1
	}
	out := make([]byte, 2+len(w.Payload)) // exact capacity: the receiver may append to Payload
	out[0], out[1] = w.Tid, id
	copy(out[2:], w.Payload)
	return out
}

func (w wfrag) String() string {
	return fmt.Sprintf("{tid %d seq %d S%v E%v F%v len %d}", w.Tid, w.Seq, b2i(w.S), b2i(w.E), b2i(w.F), len(w.Payload))
}

func b2i(b bool) int {
	if b {
		return 1
	}
	return 0
}

// ---------------------------------------------------------------------------------------------
// Scripted in-process modem.

type scriptModem struct {
	mtu    int
	in     chan bbc.Fragment
	closed chan struct{}
	once   sync.Once
	mu     sync.Mutex
	sent   [][]byte             // wire bytes of what the connector broadcast
	nfail  map[byte]int         // failure fragments per transmission id
	fwd    func(f bbc.Fragment) // optional: hub towards another modem
}

func newScriptModem(mtu int, buffered int) *scriptModem {
	return &scriptModem{mtu: mtu, in: make(chan bbc.Fragment, buffered), closed: make(chan struct{}), nfail: map[byte]int{}}
}

func (m *scriptModem) Mtu() int { return m.mtu }

func (m *scriptModem) Send(f bbc.Fragment) error {
	m.mu.Lock()
	// A faulty train makes a receiver broadcast one failure fragment per further fragment (hundreds of
	// thousands per case).  The first four per transmission id are kept as wire bytes and decoded by the
	// harness's own header decoder like every data fragment; the rest is only counted (via the accessors).
	if f.FailBit() && m.nfail[f.TransmissionID()] >= 4 {
		m.nfail[f.TransmissionID()]++
	} else {
		if f.FailBit() {
			m.nfail[f.TransmissionID()]++
		}
		m.sent = append(m.sent, f.Bytes())
	}
	m.mu.Unlock()
	if m.fwd != nil {
		m.fwd(f)
	}
	return nil
}

func (m *scriptModem) Receive() (bbc.Fragment, error) {
	select {
	case f := <-m.in:
		return f, nil
	case <-m.closed:
		return bbc.Fragment{}, io.EOF
	}
}

func (m *scriptModem) Close() error {
	m.once.Do(func() { close(m.closed) })
	return nil
}

func (m *scriptModem) String() string { return fmt.Sprintf("scriptmodem/mtu:%d", m.mtu) }

func (m *scriptModem) sentFrags() ([]wfrag, error) {
	m.mu.Lock()
	defer m.mu.Unlock()
	out := make([]wfrag, 0, len(m.sent))
	for _, b := range m.sent {
		w, err := decodeWire(b)
		if err != nil {
			return nil, err
		}
		out = append(out, w)
	}
	return out, nil
}

// ---------------------------------------------------------------------------------------------
// xz helpers (the transmission payload is the xz stream of the serialised bundle).

func xzCompress(b []byte) []byte {
	var buf bytes.Buffer
	w, err := xz.WriterConfig{DictCap: 1 << 16}.NewWriter(&buf)
	if err != nil {
		panic(err)
	}
	if _, err = w.Write(b); err != nil {
		panic(err)
	}
	if err = w.Close(); err != nil {
		panic(err)
	}
	return buf.Bytes()
}

func xzDecompress(b []byte) ([]byte, error) {
	r, err := xz.NewReader(bytes.NewReader(b))
	if err != nil {
		return nil, err
	}
	return io.ReadAll(r)
}

func bundleBytes(b *bpv7.Bundle) (out []byte, err error) {
	defer func() {
		if p := recover(); p != nil {
			err = fmt.Errorf("panic: %v", p)
		}
	}()
	var buf bytes.Buffer
	err = b.WriteBundle(&buf)
	return buf.Bytes(), err
}

// sentBundle is one bundle of a workload with its serialisation and canonical description.
type sentBundle struct {
	M     model.Bundle
	B     bpv7.Bundle
	Bytes []byte
	Canon string
}

func mkSent(m model.Bundle) (sentBundle, error) {
	b := m.ToBpv7()
	x, err := bundleBytes(&b)
	if err != nil {
		return sentBundle{}, err
	}
	// B is re-parsed from the bytes so that CRC values are in place exactly as a node would hold them
	p, err := bpv7.ParseBundle(bytes.NewReader(x))
	if err != nil {
		return sentBundle{}, err
	}
	return sentBundle{M: m, B: p, Bytes: x, Canon: m.Canon()}, nil
}

// same decides whether a delivered bundle is the sent one: identical serialisation, or (so that a
// serialiser instability, which is C01's subject, is not reported here) identical canonical value.
func (s sentBundle) same(got *bpv7.Bundle) bool {
	if got == nil {
		return false
	}
	x, err := bundleBytes(got)
	if err == nil && bytes.Equal(x, s.Bytes) {
		return true
	}
	return model.FromBpv7(*got).Canon() == s.Canon
}

// ---------------------------------------------------------------------------------------------
// Harness-built fragment train (independent of bbc.OutgoingTransmission).

func buildTrain(tid byte, firstSeq byte, payload []byte, mtu int) []wfrag {
	room := mtu - 2
	var out []wfrag
	for off := 0; ; off += room {
		end := off + room
		last := end >= len(payload)
		if last {
			end = len(payload)
		}
		out = append(out, wfrag{Tid: tid, Seq: (firstSeq + byte(len(out)%16)) % 16, S: off == 0, E: last,
			Payload: payload[off:end], Size: 2 + end - off, Idx: len(out)})
		if last {
			for i := range out {
				out[i].N = len(out)
			}
			return out
		}
	}
}

// ---------------------------------------------------------------------------------------------
// Reference receiver automaton, written from the property statement: per transmission id it knows
// whether a transmission is open and which sequence number comes next.

type refTid struct {
	open     bool
	expect   byte
	errored  bool   // the error state was reached at least once
	firstErr string // what revealed the first fault
	// What follows is the harness's knowledge, not the receiver's: a well-formed transmission (start ..
	// consecutive .. end) seen before any error counts as a clean train only if it really consists of the
	// fragments 0..N-1 of ONE train (with an id used twice, the head of one train and the tail of the next
	// can look well-formed to every receiver; only the payload's integrity checks tell them apart).
	cur                []wfrag
	cleanDone          int   // clean trains completed before any error
	cleanTrains        []int // ... which ones
	wellFormedMixtures int
}

type refRx struct{ tids map[byte]*refTid }

func newRefRx() *refRx { return &refRx{tids: map[byte]*refTid{}} }

func (r *refRx) feed(f wfrag) {
	t := r.tids[f.Tid]
	if t == nil {
		t = &refTid{}
		r.tids[f.Tid] = t
	}
	fail := func(why string) {
		if !t.errored {
			t.errored, t.firstErr = true, why
		}
		t.open = false
	}
	if !t.open {
		if !f.S {
			fail("continuation-without-start")
			return
		}
		t.open, t.expect, t.cur = true, (f.Seq+1)%16, nil
	} else {
		if f.S {
			fail("start-inside-open-transmission")
			return
		}
		if f.Seq != t.expect {
			fail("sequence-mismatch")
			return
		}
		t.expect = (f.Seq + 1) % 16
	}
	t.cur = append(t.cur, f)
	if f.E {
		t.open = false
		if !t.errored {
			genuine := len(t.cur) == t.cur[0].N
			for i, c := range t.cur {
				if c.Train != t.cur[0].Train || c.Idx != i {
					genuine = false
				}
			}
			if genuine {
				t.cleanDone++
				t.cleanTrains = append(t.cleanTrains, f.Train)
			} else {
				t.wellFormedMixtures++
			}
		}
	}
}

// ---------------------------------------------------------------------------------------------
// One receiver run: a fresh connector on a scripted modem is fed the given fragments; returns the
// delivered bundles and the failure fragments per transmission id it broadcast.  Must run in a bubble.

type rxResult struct {
	delivered []*bpv7.Bundle
	fails     map[byte]int
	otherOut  int // non-failure fragments broadcast by a connector that never sent a bundle
	problem   string
}

func runReceiver(mtu int, inj []wfrag) (res rxResult) {
	res.fails = map[byte]int{}
	m := newScriptModem(mtu, 0)
	c := bbc.NewConnector(m, false)
	_, _ = c.Start()
	for _, w := range inj {
		f, err := bbc.ParseFragment(w.wire())
		if err != nil {
			res.problem = "ParseFragment: " + err.Error()
			break
		}
		m.in <- f
		// more than 64 undrained reports would block the connector's reader; drain as we go
		res.drain(c)
	}
	bubble.Wait() // every fragment handled, every failure fragment handed to the modem
	res.drain(c)
	_ = c.Close()
	res.drain(c)
	out, err := m.sentFrags()
	if err != nil {
		res.problem = "connector broadcast an undecodable fragment: " + err.Error()
	}
	decoded := map[byte]int{}
	for _, w := range out {
		if w.F {
			decoded[w.Tid]++
		} else {
			res.otherOut++
		}
	}
	m.mu.Lock()
	for tid, n := range m.nfail {
		// only what the harness decoded itself establishes that a failure fragment was broadcast
		if decoded[tid] > 0 {
			res.fails[tid] = decoded[tid] + (n - min(n, 4))
		}
	}
	m.mu.Unlock()
	return res
}

func (res *rxResult) drain(c *bbc.Connector) {
	for {
		select {
		case st := <-c.Channel():
			if st.MessageType == cla.ReceivedBundle {
				if rb, ok := st.Message.(cla.ConvergenceReceivedBundle); ok {
					res.delivered = append(res.delivered, rb.Bundle)
				}
			}
		default:
			return
		}
	}
}

// ---------------------------------------------------------------------------------------------
// Fault patterns over a train.

const (
	opKeep = iota
	opDrop
	opDup
	opSwap // this fragment and the next one change places
)

// applyOps applies one operation per position (a swap consumes two positions).
func applyOps(train []wfrag, ops []int) []wfrag {
	out := make([]wfrag, 0, len(train)+4)
	for i := 0; i < len(train); i++ {
		switch ops[i] {
		case opKeep:
			out = append(out, train[i])
		case opDrop:
		case opDup:
			out = append(out, train[i], train[i])
		case opSwap:
			if i+1 < len(train) {
				out = append(out, train[i+1], train[i])
				i++
			} else {
				out = append(out, train[i])
			}
		}
	}
	return out
}

// faultRunsBelow16 reports whether every maximal run of positions touched by a fault is shorter than 16.
func faultRunsBelow16(ops []int) bool {
	run := 0
	for i := 0; i < len(ops); i++ {
		touched := ops[i] != opKeep
		if ops[i] == opSwap && i+1 < len(ops) {
			run += 2
			i++
		} else if touched {
			run++
		} else {
			run = 0
		}
		if run >= 16 {
			return false
		}
	}
	return true
}

func posClass(i, n int) string {
	switch {
	case n == 1:
		return "only"
	case i == 0:
		return "first"
	case i == n-1:
		return "last"
	default:
		return "middle"
	}
}
