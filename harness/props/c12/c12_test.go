// Package c12 checks property C12: MTCP and broadcast (BBC) links deliver exactly what was sent or
// report failure.  See /verif/notes/C12.md.
package c12

import (
	"encoding/hex"
	"fmt"
	"regexp"
	"runtime"
	"strings"
	"sync/atomic"
	"testing"
	"time"

	"github.com/dtn7/dtn7-go/pkg/bpv7"
	"github.com/dtn7/dtn7-go/pkg/cla"
	"github.com/dtn7/dtn7-go/pkg/cla/mtcp"

	"verifh/internal/bubble"
	"verifh/internal/model"
	"verifh/internal/report"
)

func hx(b []byte) string {
	if len(b) > 2048 {
		return hex.EncodeToString(b[:2048]) + fmt.Sprintf("...(%d bytes)", len(b))
	}
	return hex.EncodeToString(b)
}

var digits = regexp.MustCompile(`[0-9]+`)

func errClass(err error) string {
	s := digits.ReplaceAllString(err.Error(), "N")
	s = strings.Join(strings.Fields(s), " ")
	if len(s) > 90 {
		s = s[:90]
	}
	return s
}

// inconclusive counts harness-side watchdogs / environment failures; any makes the shard fail (exit 2 of the driver).
var inconclusive int64
var inconclusiveWhy atomic.Value

func giveUp(r *report.Run, what string, err error) {
	atomic.AddInt64(&inconclusive, 1)
	msg := fmt.Sprintf("%s: %v", what, err)
	inconclusiveWhy.Store(msg)
	r.Count("harness.inconclusive", 1)
	r.Note("inconclusive: " + msg)
}

// ---------------------------------------------------------------------------------------------

// genMTCPBundles draws n bundles with unique payload ids; at most maxLarge of them are larger than 8 KiB
// (the real client sets TCP_USER_TIMEOUT = 2 s: a sequence must fit into the socket buffers so that a starved
// harness proxy on a loaded machine cannot make the kernel abort the connection).
func genMTCPBundles(rng *report.Rand, n int, maxLarge int) []sentBundle {
	var out []sentBundle
	large := 0
	for len(out) < n {
		o := model.GenOpts{NowMs: bubble.NowMs(), MaxPayload: 2000, NoMultiMaps: true}
		if rng.Chance(2, 3) || large >= maxLarge {
			o.SmallOnly = true
		}
		m := model.GenBundle(rng, o)
		if x, _ := m.Encode(nil); len(x) > 8192 {
			if large >= maxLarge {
				continue
			}
			large++
		}
		// unique payload id in front of the payload
		pl := &m.Blocks[len(m.Blocks)-1]
		id := []byte(fmt.Sprintf("c12-%016x-%d|", rng.Uint64(), len(out)))
		pl.Data = append(id, pl.Data...)
		if m.IsFragment() {
			m.Total += uint64(len(id))
		}
		sb, err := mkSent(m)
		if err != nil {
			continue
		}
		out = append(out, sb)
	}
	return out
}

type piece struct {
	bundle int // index of the bundle this frame carries, -1 for a keep-alive
	data   []byte
}

// buildStream lays the bundles out as MTCP frames with keep-alive frames interleaved at random.
func buildStream(rng *report.Rand, sent []sentBundle) (stream []byte, starts, ends []int, keepalives int) {
	ka := func() {
		for k := rng.Intn(4); k > 0 && rng.Chance(1, 2); k-- {
			stream = append(stream, keepAlive...)
			keepalives++
		}
	}
	for _, sb := range sent {
		ka()
		starts = append(starts, len(stream))
		stream = append(stream, frame(sb.Bytes)...)
		ends = append(ends, len(stream))
	}
	ka()
	return
}

func chop(rng *report.Rand, b []byte) [][]byte {
	var out [][]byte
	for len(b) > 0 {
		n := 1 + rng.Intn(1+len(b))
		switch rng.Intn(4) {
		case 0:
			n = 1 + rng.Intn(4)
		case 1:
			n = 1 + rng.Intn(64)
		}
		if n > len(b) {
			n = len(b)
		}
		out = append(out, b[:n])
		b = b[n:]
	}
	return out
}

// mtcpRawCase: harness client writes frames raw to the real server; full stream and cut streams.
func mtcpRawCase(r *report.Run, rng *report.Rand, cuts int) {
	sent := genMTCPBundles(rng, 1+rng.Intn(20), 20)
	stream, starts, ends, kas := buildStream(rng, sent)
	srv, err := startServer()
	if err != nil {
		giveUp(r, "mtcp-raw: server", err)
		return
	}
	defer srv.close()

	session := func(data []byte, kind string) (got []*bpv7.Bundle, ok bool) {
		srv.col.reset()
		pause := func(i int) {
			if rng.Chance(1, 10) {
				time.Sleep(time.Duration(50+rng.Intn(400)) * time.Microsecond)
			}
		}
		if err := rawSession(srv.addr, chop(rng, data), pause); err != nil {
			if err == errWatchdog {
				giveUp(r, "mtcp-raw: "+kind+" session", err)
				return nil, false
			}
			// the server went away while the client was still writing: its handler has returned, judge what it delivered
			r.Count("mtcp.raw.server_closed_early", 1)
		}
		if err := srv.col.sync(); err != nil {
			giveUp(r, "mtcp-raw: sync", err)
			return nil, false
		}
		bs, others := bundlesOf(srv.col.snapshot())
		if others > 0 {
			r.Violation("c12.mtcp.server.unexpected-event:"+kind, fmt.Sprintf("%d event(s) other than a received bundle on the server's channel", others),
				map[string]interface{}{"stream": hx(data)})
		}
		return bs, true
	}
	wit := func(data []byte, want []sentBundle, got []*bpv7.Bundle) interface{} {
		return map[string]interface{}{"stream": hx(data), "stream_len": len(data), "sent": hexSent(want), "received": hexAll(got)}
	}

	// the whole sequence
	got, ok := session(stream, "full")
	if !ok {
		return
	}
	if at, same := sameSequence(sent, got); !same {
		cls := "missing"
		if len(got) > len(sent) {
			cls = "surplus-event"
		} else if at < len(got) {
			cls = "different-bundle"
		}
		r.Violation("c12.mtcp.server.sequence:"+cls, fmt.Sprintf("raw client: %d bundles and %d keep-alive frames written, %d bundles received; first difference at position %d", len(sent), kas, len(got), at),
			wit(stream, sent, got))
	} else {
		r.Count("mtcp.raw.sequences_identical", 1)
	}
	r.Count("mtcp.raw.bundles_received", len(got))
	r.Count("mtcp.raw.keepalive_frames_written", kas)
	r.Nontrivial("mtcp-raw", stream)

	// cuts: the stream ends after k bytes (FIN)
	for c := 0; c < cuts; c++ {
		var k int
		switch rng.Intn(3) {
		case 0: // around a frame boundary
			k = ends[rng.Intn(len(ends))] - 2 + rng.Intn(5)
		case 1: // inside the head of a frame
			k = starts[rng.Intn(len(starts))] + rng.Intn(4)
		default:
			k = rng.Intn(len(stream) + 1)
		}
		if k < 0 {
			k = 0
		}
		if k > len(stream) {
			k = len(stream)
		}
		complete := 0
		for _, e := range ends {
			if e <= k {
				complete++
			}
		}
		got, ok := session(stream[:k], "cut")
		if !ok {
			return
		}
		r.Evals(1)
		r.Count("mtcp.raw.cuts", 1)
		r.Count("mtcp.raw.cut_bundles_received", len(got))
		for i := range ends {
			if starts[i] < k && k < ends[i] {
				r.Count("mtcp.raw.cuts_inside_a_bundle_frame", 1)
			}
		}
		want := sent[:complete]
		if at, same := sameSequence(want, got); !same {
			cls := "complete-bundle-missing"
			if at < len(got) {
				cls = "bundle-that-was-not-sent"
			}
			r.Violation("c12.mtcp.server.cut:"+cls, fmt.Sprintf("stream of %d bytes cut after %d: %d complete bundles written, %d received; first difference at position %d", len(stream), k, complete, len(got), at),
				wit(stream[:k], want, got))
		}
	}
}

// ---------------------------------------------------------------------------------------------

// clientRig: real MTCPClient -> proxy -> real MTCPServer.
type clientRig struct {
	srv    *testServer
	px     *proxy
	client *mtcp.MTCPClient
	col    *collector
}

func newClientRig() (*clientRig, error) {
	srv, err := startServer()
	if err != nil {
		return nil, err
	}
	// Start dials with the client's own 1 s timeout; on a starved machine the dial itself can time out. The CLA
	// manager would retry a retryable start failure at its retry interval - so does the rig, with a fresh proxy
	// (the proxy serves one connection). Environment handling, no verdict depends on it.
	var px *proxy
	var cl *mtcp.MTCPClient
	var startErr error
	for attempt := 0; attempt < 8; attempt++ {
		px, err = startProxy(srv.addr)
		if err != nil {
			srv.close()
			return nil, err
		}
		cl = mtcp.NewMTCPClient(px.addr(), bpv7.MustNewEndpointID("dtn://c12-peer/"), false)
		var retry bool
		if startErr, retry = cl.Start(); startErr == nil {
			break
		}
		px.shutdown()
		if !retry {
			break
		}
		time.Sleep(time.Duration(250*(attempt+1)) * time.Millisecond)
	}
	if startErr != nil {
		srv.close()
		return nil, fmt.Errorf("client start: %v", startErr)
	}
	rig := &clientRig{srv: srv, px: px, client: cl, col: collect(cl.Channel())}
	if err := waitClosed(px.accepted); err != nil {
		rig.teardown()
		return nil, fmt.Errorf("proxy accept: %v", err)
	}
	px.mu.Lock()
	f := px.failure
	px.mu.Unlock()
	if f != nil {
		rig.teardown()
		return nil, fmt.Errorf("proxy: %v", f)
	}
	return rig, nil
}

func (g *clientRig) closeClient() error {
	fin := make(chan struct{})
	go func() { _ = g.client.Close(); close(fin) }()
	return waitClosed(fin)
}

func (g *clientRig) teardown() {
	g.px.shutdown()
	g.srv.close()
}

func send(c *mtcp.MTCPClient, b bpv7.Bundle) (error, bool) {
	res := make(chan error, 1)
	go func() { res <- c.Send(b) }()
	select {
	case err := <-res:
		return err, true
	case <-time.After(watchdog):
		return nil, false
	}
}

func countDisappeared(msgs []cla.ConvergenceStatus) int {
	n := 0
	for _, m := range msgs {
		if m.MessageType == cla.PeerDisappeared {
			n++
		}
	}
	return n
}

// judgeWire: what the client wrote must be a sequence of byte strings, the non-empty ones being exactly the bundles.
func judgeWire(r *report.Run, rec []byte, sent []sentBundle, complete bool) {
	frames, rest, err := parseFrames(rec)
	wit := func() interface{} {
		return map[string]interface{}{"recorded": hx(rec), "recorded_len": len(rec), "sent": hexSent(sent)}
	}
	if err != nil {
		r.Violation("c12.mtcp.client.wire-framing", "the client's byte stream is not a sequence of byte strings: "+err.Error(), wit())
		return
	}
	if complete && len(rest) > 0 {
		r.Violation("c12.mtcp.client.wire-framing", fmt.Sprintf("the client's byte stream ends with %d bytes of an incomplete byte string", len(rest)), wit())
		return
	}
	i, ka := 0, 0
	for _, f := range frames {
		if len(f) == 0 {
			ka++
			continue
		}
		if i >= len(sent) || string(f) != string(sent[i].Bytes) {
			r.Violation("c12.mtcp.client.wire-content", fmt.Sprintf("message %d on the wire is not the serialisation of bundle %d", i, i), wit())
			return
		}
		i++
	}
	if complete && i != len(sent) {
		r.Violation("c12.mtcp.client.wire-content", fmt.Sprintf("%d bundles sent successfully, %d on the wire", len(sent), i), wit())
		return
	}
	r.Count("mtcp.client.wire_bundle_frames", i)
	r.Count("mtcp.client.wire_keepalive_frames", ka)
}

// mtcpClientFull: a whole sequence through the real client, orderly close; returns false when inconclusive.
func mtcpClientFull(r *report.Run, sent []sentBundle) bool {
	g, err := newClientRig()
	if err != nil {
		giveUp(r, "mtcp-client: rig", err)
		return false
	}
	defer g.teardown()
	for i, sb := range sent {
		err, ok := send(g.client, sb.B)
		if !ok {
			giveUp(r, "mtcp-client: Send", errWatchdog)
			return false
		}
		if err != nil {
			// no fault was injected; an error here is an environment effect (e.g. TCP user timeout on a starved box)
			giveUp(r, fmt.Sprintf("mtcp-client: Send %d/%d failed without an injected fault", i, len(sent)), err)
			return false
		}
		r.Count("mtcp.client.sends_ok", 1)
	}
	if err := g.col.sync(); err != nil {
		giveUp(r, "mtcp-client: sync client channel", err)
		return false
	}
	if n := countDisappeared(g.col.snapshot()); n > 0 {
		// not demanded by the statement (it speaks about sends on a broken connection only): informational
		r.Count("mtcp.client.peer_disappeared_without_fault(informational)", n)
	}
	if err := g.closeClient(); err != nil {
		giveUp(r, "mtcp-client: Close", err)
		return false
	}
	if err := waitClosed(g.px.srvDone); err != nil {
		giveUp(r, "mtcp-client: server side did not finish", err)
		return false
	}
	if err := g.srv.col.sync(); err != nil {
		giveUp(r, "mtcp-client: sync server channel", err)
		return false
	}
	got, others := bundlesOf(g.srv.col.snapshot())
	rec := g.px.recorded()
	wit := map[string]interface{}{"sent": hexSent(sent), "received": hexAll(got), "wire": hx(rec)}
	if others > 0 {
		r.Violation("c12.mtcp.server.unexpected-event:client", "event other than a received bundle on the server's channel", wit)
	}
	if at, same := sameSequence(sent, got); !same {
		cls := "missing"
		if len(got) > len(sent) {
			cls = "surplus-event"
		} else if at < len(got) {
			cls = "different-bundle"
		}
		r.Violation("c12.mtcp.client-to-server.sequence:"+cls, fmt.Sprintf("real client: %d bundles sent with success, %d received; first difference at position %d", len(sent), len(got), at), wit)
	} else {
		r.Count("mtcp.client.sequences_identical", 1)
	}
	judgeWire(r, rec, sent, true)
	r.Count("mtcp.client.bundles_received", len(got))
	return true
}

// mtcpClientBreak: j bundles, then the proxy resets the connection; once the kernel knows, Send must fail and report.
func mtcpClientBreak(r *report.Run, sent []sentBundle, j int) bool {
	ok, _ := mtcpClientBreakMode(r, sent, j, "reset", true)
	return ok
}

// mtcpClientClosed: like mtcpClientBreak, but the peer closes the connection in the orderly way (FIN). The sender's
// socket leaves ESTABLISHED (CLOSE_WAIT); the first write after that is still accepted by the kernel and answered with
// a reset, so an implementation only notices within the same Send if it looks at the connection again after writing the
// bundle. Whether the reset has been processed when it does is up to the kernel (on loopback it practically always
// has): a Send that succeeds is therefore only a violation if it does so in three independent attempts.
func mtcpClientClosed(r *report.Run, sent []sentBundle, j int) bool {
	for attempt := 0; attempt < 3; attempt++ {
		ok, apparent := mtcpClientBreakMode(r, sent, j, "close", attempt == 2)
		if !ok {
			return false
		}
		if !apparent {
			return true
		}
		r.Count("mtcp.client.orderly_close.send_succeeded_once", 1)
	}
	return true
}

// mtcpClientBreakMode returns (rig worked, Send succeeded although the connection was broken). With report == false an
// apparent violation is only returned, not recorded.
func mtcpClientBreakMode(r *report.Run, sent []sentBundle, j int, mode string, reportIt bool) (bool, bool) {
	ok, apparent := mtcpClientBreakInner(r, sent, j, mode, reportIt)
	return ok, apparent
}

func mtcpClientBreakInner(r *report.Run, sent []sentBundle, j int, mode string, reportIt bool) (okRig bool, apparent bool) {
	fail := func() (bool, bool) { return false, false }
	_ = fail
	g, err := newClientRig()
	if err != nil {
		giveUp(r, "mtcp-client-break: rig", err)
		return false, false
	}
	defer g.teardown()
	for i := 0; i < j; i++ {
		err, ok := send(g.client, sent[i].B)
		if !ok {
			giveUp(r, "mtcp-client-break: Send", errWatchdog)
			return false, false
		}
		if err != nil {
			giveUp(r, "mtcp-client-break: Send failed before the break", err)
			return false, false
		}
	}
	cport := g.px.clientPort()
	// the kernel's view must be readable before it is relied upon: the socket is listed as ESTABLISHED now
	if st, err := tcpState(cport, g.px.port); err != nil || st != "01" {
		giveUp(r, "mtcp-client-break: the client's socket is not visible as ESTABLISHED in /proc/net/tcp before the reset", fmt.Errorf("state %q, %v", st, err))
		return false, false
	}
	if mode == "close" {
		g.px.closeClientSide()
	} else {
		g.px.resetClient()
	}
	if err := waitNotEstablished(cport, g.px.port); err != nil {
		giveUp(r, "mtcp-client-break: socket state", err)
		return false, false
	}
	if err := g.col.sync(); err != nil {
		giveUp(r, "mtcp-client-break: sync", err)
		return false, false
	}
	before := countDisappeared(g.col.snapshot())
	sendErr, ok := send(g.client, sent[j].B)
	if !ok {
		giveUp(r, "mtcp-client-break: Send after the break", errWatchdog)
		return false, false
	}
	if err := g.col.sync(); err != nil {
		giveUp(r, "mtcp-client-break: sync", err)
		return false, false
	}
	reports := countDisappeared(g.col.snapshot())
	r.Count("mtcp.client.breaks."+mode, 1)
	r.Count("mtcp.client.breaks", 1)
	r.Evals(1)
	wit := map[string]interface{}{"bundles_before_break": j, "bundle_after_break": hx(sent[j].Bytes), "peer_disappeared_reports": reports,
		"peer_disappeared_before_send": before, "send_error": fmt.Sprint(sendErr)}
	cls := "small-bundle"
	if len(sent[j].Bytes) > 4096 {
		cls = "large-bundle"
	}
	if mode == "close" {
		cls += ":closed-by-peer"
		wit["attempts"] = "the same happened in three independent attempts (fresh connections)"
	}
	if sendErr == nil {
		apparent = true
		if reportIt {
			r.Violation("c12.mtcp.client.send-succeeds-on-broken-connection:"+cls, "the connection had been broken ("+mode+") and had left ESTABLISHED at the sender's kernel, yet Send returned nil", wit)
		}
	} else {
		r.Count("mtcp.client.send_errors_after_break", 1)
	}
	if reports == 0 {
		apparent = true
		if reportIt {
			r.Violation("c12.mtcp.client.no-peer-disappeared:"+cls, "Send on the broken connection ("+mode+") did not report the peer as gone", wit)
		}
	} else {
		r.Count("mtcp.client.peer_disappeared_reports", reports)
	}
	if err := g.closeClient(); err != nil {
		giveUp(r, "mtcp-client-break: Close", err)
		return false, false
	}
	if err := waitClosed(g.px.srvDone); err != nil {
		giveUp(r, "mtcp-client-break: server side did not finish", err)
		return false, false
	}
	if err := g.srv.col.sync(); err != nil {
		giveUp(r, "mtcp-client-break: sync server channel", err)
		return false, false
	}
	got, _ := bundlesOf(g.srv.col.snapshot())
	// what arrived is a prefix of what was sent before the break (bytes in flight may be lost with the reset)
	for i, b := range got {
		if i >= j || !sent[i].same(b) {
			r.Violation("c12.mtcp.client-to-server.break:bundle-that-was-not-sent", fmt.Sprintf("after a break behind bundle %d the server delivered something else at position %d", j, i),
				map[string]interface{}{"sent": hexSent(sent[:j]), "received": hexAll(got)})
			break
		}
	}
	r.Count("mtcp.client.bundles_received_before_break", len(got))
	if j == 1 {
		r.Sample(map[string]interface{}{"kind": "mtcp real client, proxy reset after 1 bundle, socket left ESTABLISHED, then Send", "send_error": fmt.Sprint(sendErr),
			"peer_disappeared_reports": reports, "bundles_at_server": len(got)})
	}
	judgeWire(r, g.px.recorded(), sent[:j], false)
	return true, apparent
}

func mtcpClientCase(r *report.Run, rng *report.Rand, breaks int) {
	sent := genMTCPBundles(rng, 1+rng.Intn(20), 1)
	if !mtcpClientFull(r, sent) {
		return
	}
	r.Nontrivial("mtcp-client", fmt.Sprint(hexSent(sent)))
	for b := 0; b < breaks; b++ {
		j := rng.Intn(len(sent)) // 0..n-1 bundles before the break, bundle j afterwards
		if !mtcpClientBreak(r, sent, j) {
			return
		}
	}
	// the peer closes in the orderly way; the next bundle is a small one (fits any write buffer) in two of three cases
	j := rng.Intn(len(sent))
	if rng.Intn(3) != 0 {
		small := genMTCPBundles(rng, 1, 0)
		sent = append(append([]sentBundle{}, sent[:j]...), small[0])
	}
	mtcpClientClosed(r, sent, j)
}

// mtcpTickerCase: the real client's own keep-alive ticker (5 s) fires on an idle connection; the frame is invisible.
func mtcpTickerCase(r *report.Run, rng *report.Rand) {
	sent := genMTCPBundles(rng, 2, 1)
	g, err := newClientRig()
	if err != nil {
		giveUp(r, "mtcp-ticker: rig", err)
		return
	}
	defer g.teardown()
	if err, ok := send(g.client, sent[0].B); !ok || err != nil {
		giveUp(r, "mtcp-ticker: first Send", fmt.Errorf("%v", err))
		return
	}
	// wait for a keep-alive that no Send wrote: more empty frames than the one probe of the first Send
	deadline := time.Now().Add(watchdog)
	for {
		frames, _, err := parseFrames(g.px.recorded())
		if err != nil {
			r.Violation("c12.mtcp.client.wire-framing", "the client's byte stream is not a sequence of byte strings: "+err.Error(), hx(g.px.recorded()))
			return
		}
		empty := 0
		for _, f := range frames {
			if len(f) == 0 {
				empty++
			}
		}
		if empty >= 2 {
			r.Count("mtcp.ticker.keepalive_frames_seen", empty-1)
			break
		}
		if time.Now().After(deadline) {
			giveUp(r, "mtcp-ticker: no keep-alive frame", errWatchdog)
			return
		}
		time.Sleep(50 * time.Millisecond)
	}
	if err, ok := send(g.client, sent[1].B); !ok || err != nil {
		giveUp(r, "mtcp-ticker: second Send", fmt.Errorf("%v", err))
		return
	}
	if err := g.closeClient(); err != nil {
		giveUp(r, "mtcp-ticker: Close", err)
		return
	}
	if err := waitClosed(g.px.srvDone); err != nil {
		giveUp(r, "mtcp-ticker: server side did not finish", err)
		return
	}
	if err := g.srv.col.sync(); err != nil {
		giveUp(r, "mtcp-ticker: sync", err)
		return
	}
	got, others := bundlesOf(g.srv.col.snapshot())
	rec := g.px.recorded()
	if _, same := sameSequence(sent, got); !same || others > 0 {
		r.Violation("c12.mtcp.client-to-server.sequence:around-ticker-keepalive", fmt.Sprintf("2 bundles around the ticker's keep-alive sent, %d bundles and %d other events received", len(got), others),
			map[string]interface{}{"sent": hexSent(sent), "received": hexAll(got), "wire": hx(rec)})
	} else {
		r.Count("mtcp.ticker.sequences_identical", 1)
	}
	judgeWire(r, rec, sent, true)
	r.Nontrivial("mtcp-ticker", rec)
}

// ---------------------------------------------------------------------------------------------

func TestCheck(t *testing.T) {
	bubble.Quiet()
	bubble.RegisterBlocks()
	r := report.Start(t, "C12")
	defer func() {
		r.Finish()
		if n := atomic.LoadInt64(&inconclusive); n > 0 {
			t.Errorf("INCONCLUSIVE: %d harness watchdog/environment failure(s), last: %v", n, inconclusiveWhy.Load())
		}
	}()

	timed := func(name string, f func()) {
		t0 := time.Now()
		f()
		r.Count("harness.wall_ms."+name, int(time.Since(t0)/time.Millisecond))
	}
	runtime.GOMAXPROCS(2) // 16 shards run side by side; more Ps per shard only add scheduler traffic
	timed("mtcp-ticker", func() {
		r.Group("mtcp-ticker", r.Pick(4, 32), func(i int, rng *report.Rand) { mtcpTickerCase(r, rng) })
	})
	timed("mtcp-raw", func() {
		r.Group("mtcp-raw", r.Pick(200, 2000), func(i int, rng *report.Rand) {
			mtcpRawCase(r, rng, 30)
			if i < 1 {
				r.Sample(map[string]interface{}{"kind": "mtcp raw sequence with keep-alives, then cut at 30 offsets", "case": i})
			}
		})
	})
	timed("mtcp-client", func() {
		r.Group("mtcp-client", r.Pick(200, 2000), func(i int, rng *report.Rand) { mtcpClientCase(r, rng, 3) })
	})
	runtime.GOMAXPROCS(1) // bubbles: goroutine hand-offs are cheapest on one P
	timed("bbc", func() { runBBC(t, r) })
}
