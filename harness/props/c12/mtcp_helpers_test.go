package c12

import (
	"bytes"
	"encoding/binary"
	"errors"
	"fmt"
	"io"
	"net"
	"os"
	"strings"
	"sync"
	"time"

	"github.com/dtn7/dtn7-go/pkg/bpv7"
	"github.com/dtn7/dtn7-go/pkg/cla"
	"github.com/dtn7/dtn7-go/pkg/cla/mtcp"
)

// watchdog bounds every wait on a real socket; its firing is inconclusive, never a violation.
const watchdog = 120 * time.Second

var errWatchdog = errors.New("watchdog")

// ---------------------------------------------------------------------------------------------
// MTCP framing written from the draft: every message is one definite-length CBOR byte string;
// an empty one is a keep-alive, any other one holds exactly one bundle.

func cborBstrHead(n int) []byte {
	switch {
	case n < 24:
		return []byte{0x40 | byte(n)}
	case n < 1<<8:
		return []byte{0x58, byte(n)}
	case n < 1<<16:
		b := []byte{0x59, 0, 0}
		binary.BigEndian.PutUint16(b[1:], uint16(n))
		return b
	default:
		b := []byte{0x5a, 0, 0, 0, 0}
		binary.BigEndian.PutUint32(b[1:], uint32(n))
		return b
	}
}

var keepAlive = []byte{0x40}

func frame(bundle []byte) []byte { return append(cborBstrHead(len(bundle)), bundle...) }

// parseFrames splits a recorded byte stream into byte strings; rest is an incomplete tail.
func parseFrames(b []byte) (frames [][]byte, rest []byte, err error) {
	for len(b) > 0 {
		h := b[0]
		if h>>5 != 2 {
			return frames, b, fmt.Errorf("byte 0x%02x at a message boundary is not a byte-string head", h)
		}
		var n uint64
		hl := 1
		switch ai := h & 0x1f; {
		case ai < 24:
			n = uint64(ai)
		case ai == 24:
			hl = 2
		case ai == 25:
			hl = 3
		case ai == 26:
			hl = 5
		case ai == 27:
			hl = 9
		default:
			return frames, b, fmt.Errorf("byte-string head 0x%02x is not of definite length", h)
		}
		if len(b) < hl {
			return frames, b, nil
		}
		for i := 1; i < hl; i++ {
			n = n<<8 | uint64(b[i])
		}
		if uint64(len(b)-hl) < n {
			return frames, b, nil
		}
		frames = append(frames, b[hl:hl+int(n)])
		b = b[hl+int(n):]
	}
	return frames, nil, nil
}

// ---------------------------------------------------------------------------------------------
// Collector: the only receiver of a convergence channel.  sync() pushes a marker through the same
// (unbuffered) channel: when it comes back, everything that was reported before has been recorded.

type collector struct {
	ch   chan cla.ConvergenceStatus
	mu   sync.Mutex
	msgs []cla.ConvergenceStatus
	ack  chan struct{}
	done chan struct{}
}

func collect(ch chan cla.ConvergenceStatus) *collector {
	c := &collector{ch: ch, ack: make(chan struct{}), done: make(chan struct{})}
	go func() {
		defer close(c.done)
		for st := range ch {
			if st.Sender == nil && st.MessageType == 0 {
				c.ack <- struct{}{}
				continue
			}
			c.mu.Lock()
			c.msgs = append(c.msgs, st)
			c.mu.Unlock()
		}
	}()
	return c
}

func (c *collector) sync() error {
	select {
	case c.ch <- cla.ConvergenceStatus{}:
	case <-time.After(watchdog):
		return errWatchdog
	}
	select {
	case <-c.ack:
		return nil
	case <-time.After(watchdog):
		return errWatchdog
	}
}

func (c *collector) snapshot() []cla.ConvergenceStatus {
	c.mu.Lock()
	defer c.mu.Unlock()
	return append([]cla.ConvergenceStatus(nil), c.msgs...)
}

func (c *collector) reset() {
	c.mu.Lock()
	c.msgs = nil
	c.mu.Unlock()
}

func bundlesOf(msgs []cla.ConvergenceStatus) (bs []*bpv7.Bundle, others int) {
	for _, m := range msgs {
		if m.MessageType == cla.ReceivedBundle {
			if rb, ok := m.Message.(cla.ConvergenceReceivedBundle); ok {
				bs = append(bs, rb.Bundle)
				continue
			}
		}
		others++
	}
	return
}

// ---------------------------------------------------------------------------------------------
// Real MTCP server on a free loopback port.

type testServer struct {
	serv *mtcp.MTCPServer
	addr string
	port int
	col  *collector
}

func freePort() (int, error) {
	l, err := net.Listen("tcp4", "127.0.0.1:0")
	if err != nil {
		return 0, err
	}
	p := l.Addr().(*net.TCPAddr).Port
	_ = l.Close()
	return p, nil
}

func startServer() (*testServer, error) {
	var last error
	for attempt := 0; attempt < 50; attempt++ {
		p, err := freePort()
		if err != nil {
			last = err
			continue
		}
		addr := fmt.Sprintf("127.0.0.1:%d", p)
		s := mtcp.NewMTCPServer(addr, bpv7.MustNewEndpointID("dtn://c12-server/"), false)
		if err, _ := s.Start(); err != nil {
			last = err
			continue
		}
		return &testServer{serv: s, addr: addr, port: p, col: collect(s.Channel())}, nil
	}
	return nil, fmt.Errorf("no MTCP server could be started: %v", last)
}

func (s *testServer) close() {
	fin := make(chan struct{})
	go func() { _ = s.serv.Close(); close(fin) }()
	select {
	case <-fin:
	case <-time.After(watchdog):
	}
}

// ---------------------------------------------------------------------------------------------
// Raw harness client: writes the given bytes in the given pieces, half-closes, and waits until the
// server has closed its side (its connection handler has returned, hence handed over every event).

func rawSession(addr string, pieces [][]byte, pause func(i int)) error {
	c, err := net.DialTimeout("tcp4", addr, 30*time.Second)
	if err != nil {
		return fmt.Errorf("dial: %v", err)
	}
	tc := c.(*net.TCPConn)
	defer tc.Close()
	_ = tc.SetDeadline(time.Now().Add(watchdog))
	for i, p := range pieces {
		if len(p) == 0 {
			continue
		}
		if _, err := tc.Write(p); err != nil {
			return fmt.Errorf("write: %v", err)
		}
		if pause != nil {
			pause(i)
		}
	}
	if err := tc.CloseWrite(); err != nil {
		return fmt.Errorf("closewrite: %v", err)
	}
	buf := make([]byte, 64)
	for {
		_, err := tc.Read(buf)
		if err == io.EOF {
			return nil
		}
		if err != nil {
			if ne, ok := err.(net.Error); ok && ne.Timeout() {
				return errWatchdog
			}
			// a reset also means the server side is gone
			return nil
		}
	}
}

// ---------------------------------------------------------------------------------------------
// TCP proxy between the real client and the real server: records what the client wrote and can
// reset the client's connection.

type proxy struct {
	ln         *net.TCPListener
	port       int
	serverAddr string

	mu       sync.Mutex
	rec      []byte
	cconn    *net.TCPConn
	sconn    *net.TCPConn
	accepted chan struct{} // closed when the client's connection is there
	srvDone  chan struct{} // closed when the server closed its side (or the proxy failed)
	failure  error
}

func startProxy(serverAddr string) (*proxy, error) {
	l, err := net.Listen("tcp4", "127.0.0.1:0")
	if err != nil {
		return nil, err
	}
	p := &proxy{ln: l.(*net.TCPListener), port: l.Addr().(*net.TCPAddr).Port, serverAddr: serverAddr,
		accepted: make(chan struct{}), srvDone: make(chan struct{})}
	go p.run()
	return p, nil
}

func (p *proxy) addr() string { return fmt.Sprintf("127.0.0.1:%d", p.port) }

func (p *proxy) run() {
	_ = p.ln.SetDeadline(time.Now().Add(watchdog))
	c, err := p.ln.AcceptTCP()
	_ = p.ln.Close()
	if err != nil {
		p.mu.Lock()
		p.failure = err
		p.mu.Unlock()
		close(p.accepted)
		close(p.srvDone)
		return
	}
	s, err := net.DialTimeout("tcp4", p.serverAddr, 30*time.Second)
	if err != nil {
		p.mu.Lock()
		p.failure = err
		p.cconn = c
		p.mu.Unlock()
		close(p.accepted)
		close(p.srvDone)
		return
	}
	p.mu.Lock()
	p.cconn, p.sconn = c, s.(*net.TCPConn)
	p.mu.Unlock()
	close(p.accepted)
	go func() { // server -> nobody: only to learn when the server has closed
		buf := make([]byte, 64)
		for {
			if _, err := p.sconn.Read(buf); err != nil {
				close(p.srvDone)
				return
			}
		}
	}()
	buf := make([]byte, 32*1024)
	serverGone := false
	for {
		n, err := c.Read(buf)
		if n > 0 {
			p.mu.Lock()
			p.rec = append(p.rec, buf[:n]...)
			p.mu.Unlock()
			if !serverGone {
				if _, werr := p.sconn.Write(buf[:n]); werr != nil {
					// the server hung up early; keep recording what the client writes
					serverGone = true
					_ = p.sconn.Close()
				}
			}
		}
		if err != nil {
			if !serverGone {
				_ = p.sconn.CloseWrite()
			}
			return
		}
	}
}

func (p *proxy) recorded() []byte {
	p.mu.Lock()
	defer p.mu.Unlock()
	return append([]byte(nil), p.rec...)
}

// clientPort is the local port of the client's socket.
func (p *proxy) clientPort() int {
	p.mu.Lock()
	defer p.mu.Unlock()
	if p.cconn == nil {
		return 0
	}
	return p.cconn.RemoteAddr().(*net.TCPAddr).Port
}

// resetClient aborts the client's connection (RST instead of FIN).
func (p *proxy) resetClient() {
	p.mu.Lock()
	c := p.cconn
	p.mu.Unlock()
	if c != nil {
		_ = c.SetLinger(0)
		_ = c.Close()
	}
}

// closeClientSide closes the proxy's end of the client's connection in the orderly way (FIN, no reset): the client's
// socket goes to CLOSE_WAIT, which is what a peer that shuts down or restarts cleanly leaves behind.
func (p *proxy) closeClientSide() {
	p.mu.Lock()
	c := p.cconn
	p.mu.Unlock()
	if c != nil {
		_ = c.Close()
	}
}

func (p *proxy) shutdown() {
	_ = p.ln.Close()
	p.mu.Lock()
	c, s := p.cconn, p.sconn
	p.mu.Unlock()
	if c != nil {
		_ = c.Close()
	}
	if s != nil {
		_ = s.Close()
	}
}

func waitClosed(ch <-chan struct{}) error {
	select {
	case <-ch:
		return nil
	case <-time.After(watchdog):
		return errWatchdog
	}
}

// ---------------------------------------------------------------------------------------------
// Kernel view of a loopback socket: state of the entry local 127.0.0.1:lport -> 127.0.0.1:rport in
// /proc/net/tcp ("" when there is no such entry any more).

func tcpState(lport, rport int) (string, error) {
	b, err := os.ReadFile("/proc/net/tcp")
	if err != nil {
		return "", err
	}
	l := fmt.Sprintf("0100007F:%04X", lport)
	rm := fmt.Sprintf("0100007F:%04X", rport)
	for _, ln := range strings.Split(string(b), "\n") {
		f := strings.Fields(ln)
		if len(f) > 3 && f[1] == l && f[2] == rm {
			return f[3], nil
		}
	}
	return "", nil
}

// waitNotEstablished returns once the kernel no longer lists the socket as ESTABLISHED (01).
func waitNotEstablished(lport, rport int) error {
	deadline := time.Now().Add(watchdog)
	for {
		st, err := tcpState(lport, rport)
		if err != nil {
			return err
		}
		if st != "01" {
			return nil
		}
		if time.Now().After(deadline) {
			return errWatchdog
		}
		time.Sleep(200 * time.Microsecond)
	}
}

// ---------------------------------------------------------------------------------------------

func marshalBundle(b *bpv7.Bundle) ([]byte, error) { return bundleBytes(b) }

func sameSequence(sent []sentBundle, got []*bpv7.Bundle) (int, bool) {
	for i := range got {
		if i >= len(sent) || !sent[i].same(got[i]) {
			return i, false
		}
	}
	if len(got) != len(sent) {
		return len(got), false
	}
	return 0, true
}

func hexAll(bs []*bpv7.Bundle) []string {
	out := []string{}
	for _, b := range bs {
		x, err := marshalBundle(b)
		if err != nil {
			out = append(out, "unserialisable: "+err.Error())
		} else {
			out = append(out, hx(x))
		}
	}
	return out
}

func hexSent(bs []sentBundle) []string {
	out := []string{}
	for _, b := range bs {
		out = append(out, hx(b.Bytes))
	}
	return out
}

var _ = bytes.Equal
