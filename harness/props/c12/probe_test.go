package c12

import (
	"bytes"
	"testing"
	"time"

	"github.com/ulikunitz/xz"
)

func TestProbe(t *testing.T) {
	data := bytes.Repeat([]byte{1, 2, 3, 4, 5, 6, 7, 8, 9}, 20)
	t0 := time.Now()
	var n int
	for i := 0; i < 50; i++ {
		var buf bytes.Buffer
		w, _ := xz.NewWriter(&buf)
		w.Write(data)
		w.Close()
		n = buf.Len()
	}
	t.Logf("compress: %v each, %d bytes", time.Since(t0)/50, n)
}
