package c13

import (
	"bytes"
	"sync/atomic"
	"fmt"
	"sort"
	"testing"
	"time"

	"github.com/dtn7/dtn7-go/pkg/bpv7"

	"verifh/internal/bubble"
	"verifh/internal/model"
	"verifh/internal/nodesim"
	"verifh/internal/report"
)

const (
	evSubmit = iota
	evRxFromA // bundle received from peer A (previous node A)
	evRxFromB
	evUpA
	evUpB
	evUpC
	evDown
	evToggleFail
	evTick
	evRestart
	evUpDest
	evRxNoPrev
	evRxDuplicate // the most recently received bundle arrives once more, from another connected peer
	evFailOne     // only the first connected peer fails / works again
	evOwnBack     // a copy of a locally submitted bundle the node transmitted is handed back by a connected peer
	evLinkA2      // a second convergence layer (other address, same peer endpoint ID) towards peer A comes up
	evRxLinkState // a DTLSR link-state broadcast of a third node arrives through a connected peer; timestamps come out of order
	nEvents
)

var evNames = []string{"submit", "rx_from_a", "rx_from_b", "up_a", "up_b", "up_c", "down", "toggle_fail", "retry_tick", "restart", "up_dest", "rx_without_previous_node", "rx_duplicate", "toggle_fail_first_peer", "own_bundle_comes_back", "second_link_to_a", "rx_link_state_broadcast"}

type tracked struct {
	id       string // bundle ID on the wire
	pid      string
	prev     string // previous node as received ("" if none)
	dest     string
	okTo     map[string]int64 // peer -> RetNo of a successful transmission (while held)
	failedTo map[string]bool  // peers whose latest transmission failed and that were not served since
	broadcast bool
}

type scenario struct {
	r       *report.Run
	algo    string
	s       *nodesim.Sim
	up      map[string]bool
	failing bool
	byPID   map[string]*tracked
	byID    map[string]*tracked
	n       int
	hist    []string
	viol    bool
	seenSends int
	lastWire  []byte
	lastFrom  string
	failOne   map[string]bool
	lsN        int  // link-state broadcasts received so far
	persistent bool // sent-memory is kept in the store
	v3      bool   // a failed peer must be retried at the next opportunity
}

func (sc *scenario) violation(sig, msg string) {
	if sc.viol {
		return
	}
	sc.viol = true
	var sends []string
	for _, x := range sc.s.Sends() {
		sends = append(sends, fmt.Sprintf("step=%d call=%d ret=%d peer=%s id=%s ok=%v", x.Step, x.CallNo, x.RetNo, x.Peer, x.ID, x.OK))
	}
	sc.r.Violation(sig, msg, map[string]interface{}{"algorithm": sc.algo, "history": sc.hist, "trace": sc.s.TraceStrings(), "sends": sends})
}

func (sc *scenario) firstUp() string {
	var names []string
	for n, u := range sc.up {
		if u {
			names = append(names, n)
		}
	}
	sort.Strings(names)
	if len(names) == 0 {
		return ""
	}
	return names[0]
}

func (sc *scenario) peerUp(name string) bool {
	if sc.up[name] {
		return false
	}
	sc.up[name] = true
	sc.s.PeerUpWith(name, func(p *nodesim.Peer) {
		if sc.failing || sc.failOne[name] {
			p.Fail()
		}
	})
	if sc.algo == "prophet" && name != "far" {
		// the peer advertises a high predictability for the destination, so that it stays an attractive relay
		m := model.Bundle{Version: 7, CRC: 2, Flags: model.FNoFragment, Dst: model.Dtn("node", ""), Src: model.Dtn(name, ""), Rpt: model.Dtn(name, ""),
			Time: bubble.NowMs(), Seq: uint64(1000 + sc.n), Lifetime: 60000,
			Blocks: []model.Block{{Type: model.TProphet, Num: 2, Preds: []model.PeerPred{{Peer: model.Dtn("far", "in"), Bits: 0x3fefffffffffffff}}},
				{Type: model.TPayload, Num: 1, Data: []byte{1}}}}
		sc.n++
		wire, _ := m.Encode(nil)
		_ = sc.s.Deliver(name, wire)
	}
	return true
}

func (sc *scenario) rx(from string, withPrev bool) {
	if !sc.up[from] {
		return
	}
	sc.n++
	pid := fmt.Sprintf("x%d", sc.n)
	m := model.Bundle{Version: 7, CRC: 2, Dst: model.Dtn("far", "in"), Src: model.Dtn("origin", "app"), Rpt: model.Dtn("origin", "app"),
		Time: bubble.NowMs() - 1000, Seq: uint64(sc.n), Lifetime: 86_400_000}
	if withPrev {
		m.Blocks = append(m.Blocks, model.Block{Type: model.TPrevNode, Num: 2, Node: model.Dtn(from, "")})
	}
	if sc.algo == "binary_spray" {
		m.Blocks = append(m.Blocks, model.Block{Type: model.TSpray, Num: 3, U: 8})
	}
	m.Blocks = append(m.Blocks, model.Block{Type: model.TPayload, Num: 1, CRC: 2, Data: nodesim.Payload(pid, 4)})
	wire, _ := m.Encode(nil)
	tr := &tracked{pid: pid, dest: "far", okTo: map[string]int64{}, failedTo: map[string]bool{}}
	if withPrev {
		tr.prev = from
	}
	sc.byPID[pid] = tr
	if err := sc.s.Deliver(from, wire); err != nil {
		delete(sc.byPID, pid)
		return
	}
	sc.lastWire, sc.lastFrom = wire, from
}

// rxLinkState: node o1's link-state broadcast reaches this node through a connected peer (which is its previous node).
// The link-state timestamps arrive out of order and repeat (300, 200, 300, 400, 100 ...), as they do when broadcasts
// travel along different paths; each broadcast is a bundle of its own.
func (sc *scenario) rxLinkState() {
	from := "a"
	if !sc.up[from] {
		from = sc.firstUp()
	}
	if from == "" {
		return
	}
	stamps := []uint64{300, 200, 300, 400, 100}
	ts := stamps[sc.lsN%len(stamps)]
	sc.lsN++
	sc.n++
	m := model.Bundle{Version: 7, CRC: 2, Flags: model.FNoFragment, Dst: model.Dtn("routing", "dtlsr/broadcast/"), Src: model.Dtn("o1", ""), Rpt: model.Dtn("o1", ""),
		Time: bubble.NowMs() - 500, Seq: uint64(5000 + sc.n), Lifetime: 3_600_000,
		Blocks: []model.Block{
			{Type: model.TPrevNode, Num: 3, Node: model.Dtn(from, "")},
			{Type: model.TDTLSR, Num: 2, Node: model.Dtn("o1", ""), U: ts, Peers: []model.PeerTime{{Peer: model.Dtn("o2", ""), Time: 0}}},
			{Type: model.TPayload, Num: 1, Data: []byte{1}}}}
	wire, _ := m.Encode(nil)
	b, err := bpv7.ParseBundle(bytes.NewReader(wire))
	if err != nil {
		sc.r.Count("harness.link_state_rejected", 1)
		return
	}
	id := b.ID().String()
	sc.byID[id] = &tracked{id: id, prev: from, dest: "", okTo: map[string]int64{}, failedTo: map[string]bool{}, broadcast: true}
	if err := sc.s.Deliver(from, wire); err != nil {
		delete(sc.byID, id)
		return
	}
	sc.r.Count("link_state_broadcasts.received", 1)
}

func (sc *scenario) submit() {
	sc.n++
	pid := fmt.Sprintf("x%d", sc.n)
	b, err := bpv7.Builder().CRC(bpv7.CRC32).Source("dtn://node/app").Destination("dtn://far/in").CreationTimestampNow().Lifetime("24h").
		PayloadBlock(nodesim.Payload(pid, 4)).Build()
	if err != nil {
		panic(err)
	}
	sc.byPID[pid] = &tracked{pid: pid, dest: "far", okTo: map[string]int64{}, failedTo: map[string]bool{}}
	sc.s.Submit(b)
}

func (sc *scenario) apply(ev int) {
	sc.hist = append(sc.hist, evNames[ev])
	opportunity := false
	switch ev {
	case evSubmit:
		sc.submit()
	case evRxFromA:
		sc.rx("a", true)
	case evRxFromB:
		sc.rx("b", true)
	case evRxNoPrev:
		sc.rx(sc.firstUp(), false)
	case evRxDuplicate:
		if sc.lastWire != nil {
			for _, n := range []string{"c", "b", "a"} {
				if sc.up[n] && n != sc.lastFrom {
					_ = sc.s.Deliver(n, sc.lastWire)
					break
				}
			}
		}
	case evOwnBack:
		for _, rec := range sc.s.Sends() {
			tr := sc.byPID[rec.PID]
			if tr == nil || tr.prev != "" || rec.ParseErr != "" || !sc.held(tr) {
				continue
			}
			if rec.Bundle.Src != model.Dtn("node", "app") {
				continue
			}
			for _, n := range []string{"c", "b", "a"} {
				if sc.up[n] {
					_ = sc.s.Deliver(n, rec.Bytes)
					break
				}
			}
			break
		}
	case evLinkA2:
		if sc.up["a"] && len(sc.s.Links("a")) == 0 {
			sc.s.PeerUpLink("a", 2, func(p *nodesim.Peer) {
				if sc.failing || sc.failOne["a"] {
					p.Fail()
				}
			})
			opportunity = true
		}
	case evRxLinkState:
		sc.rxLinkState()
	case evFailOne:
		if n := sc.firstUp(); n != "" {
			if sc.failOne == nil {
				sc.failOne = map[string]bool{}
			}
			sc.failOne[n] = !sc.failOne[n]
			for _, p := range append(sc.s.Links(n), sc.s.Peer(n)) {
				if p == nil {
					continue
				}
				if sc.failOne[n] || sc.failing {
					p.Fail()
				} else {
					p.OK()
				}
			}
		}
	case evUpA:
		opportunity = sc.peerUp("a")
	case evUpB:
		opportunity = sc.peerUp("b")
	case evUpC:
		opportunity = sc.peerUp("c")
	case evUpDest:
		opportunity = sc.peerUp("far")
	case evDown:
		if n := sc.firstUp(); n != "" {
			sc.s.PeerDown(n)
			sc.up[n] = false
		}
	case evToggleFail:
		sc.failing = !sc.failing
		for n, u := range sc.up {
			for _, p := range append(sc.s.Links(n), sc.s.Peer(n)) {
				if !u || p == nil {
					continue
				}
				if sc.failing || sc.failOne[n] {
					p.Fail()
				} else {
					p.OK()
				}
			}
		}
	case evTick:
		sc.s.Tick(10 * time.Second)
		opportunity = true
	case evRestart:
		if err := sc.s.Restart(); err != nil {
			sc.violation("c13.restart-failed", err.Error())
			return
		}
		sc.up = map[string]bool{}
		if !sc.persistent {
			for _, tr := range sc.byPID {
				tr.okTo = map[string]int64{}
				tr.failedTo = map[string]bool{}
			}
		}
	}
	if sc.algo == "prophet" && ev != evTick {
		// a peer only becomes an attractive relay again once its summary vector has arrived, which the harness
		// delivers right after the appearance: the next retry tick is the opportunity that counts
		opportunity = false
	}
	sc.check(opportunity)
}

func (sc *scenario) lookup(rec nodesim.SendRec) *tracked {
	if rec.PID != "" {
		return sc.byPID[rec.PID]
	}
	// DTLSR link-state broadcasts made by this or other nodes are tracked by their ID
	if tr := sc.byID[rec.ID]; tr != nil {
		return tr
	}
	if sc.algo == "dtlsr" && rec.Bundle.Dst == model.Dtn("routing", "dtlsr/broadcast/") {
		tr := sc.byID[rec.ID]
		if tr == nil {
			tr = &tracked{id: rec.ID, dest: "", okTo: map[string]int64{}, failedTo: map[string]bool{}, broadcast: true}
			sc.byID[rec.ID] = tr
		}
		return tr
	}
	return nil
}

func (sc *scenario) check(opportunity bool) {
	if sc.viol {
		return
	}
	all := sc.s.Sends()
	fresh := all[sc.seenSends:]
	sc.seenSends = len(all)
	sort.Slice(fresh, func(i, j int) bool { return fresh[i].CallNo < fresh[j].CallNo })
	attempted := map[*tracked]map[string]bool{}
	for _, rec := range fresh {
		if rec.ParseErr != "" {
			sc.violation("c13.emitted-unparseable", rec.ParseErr)
			return
		}
		tr := sc.lookup(rec)
		if tr == nil {
			continue
		}
		if tr.id == "" {
			tr.id = rec.ID
		}
		if attempted[tr] == nil {
			attempted[tr] = map[string]bool{}
		}
		attempted[tr][rec.Peer] = true
		direct := rec.Peer == tr.dest
		sc.r.Count("sends.checked", 1)
		if !direct {
			if tr.prev != "" && rec.Peer == tr.prev {
				sc.violation("c13.sent-back-to-previous-node:"+sc.algo, fmt.Sprintf("bundle %s was offered to %s, the node named in its previous-node block", rec.ID, rec.Peer))
				return
			}
			if ret, ok := tr.okTo[rec.Peer]; ok && rec.CallNo > ret {
				cls := "later-step"
				for _, o := range fresh {
					if o.Peer == rec.Peer && o.ID == rec.ID && o.OK && o.RetNo == ret && o.Step == rec.Step {
						cls = "same-step"
					}
				}
				sc.violation("c13.sent-twice:"+sc.algo+":"+cls, fmt.Sprintf("bundle %s was transmitted to %s again after a successful transmission to that peer (the node still holds the bundle)", rec.ID, rec.Peer))
				return
			}
		}
		if rec.OK {
			if _, ok := tr.okTo[rec.Peer]; ok && !direct {
				// a second successful transmission to the peer whose call overlapped with the first one (e.g. over two
				// convergence layers chosen in one decision)
				sc.violation("c13.sent-twice:"+sc.algo+":overlapping", fmt.Sprintf("bundle %s was transmitted successfully to %s twice while the node held it (overlapping transmissions)", rec.ID, rec.Peer))
				return
			}
			if _, ok := tr.okTo[rec.Peer]; !ok || direct {
				tr.okTo[rec.Peer] = rec.RetNo
			}
			delete(tr.failedTo, rec.Peer)
		} else {
			tr.failedTo[rec.Peer] = true
		}
	}
	// a reported failure makes exactly that peer eligible again: at the next opportunity it is attempted
	if opportunity && sc.v3 {
		for _, tr := range sc.byPID {
			sc.checkRetry(tr, attempted[tr])
		}
		for _, tr := range sc.byID {
			sc.checkRetry(tr, attempted[tr])
		}
	}
	// forget bundles the node no longer holds
	for _, tr := range sc.byPID {
		if tr.id == "" {
			continue
		}
		if !sc.held(tr) {
			tr.okTo = map[string]int64{}
			tr.failedTo = map[string]bool{}
		}
	}
}

func (sc *scenario) held(tr *tracked) bool {
	pend, err := sc.s.Pending()
	if err != nil {
		return true
	}
	for _, it := range pend {
		for _, p := range it.PIDs {
			if p == tr.pid {
				return true
			}
		}
	}
	return false
}

func (sc *scenario) checkRetry(tr *tracked, attempted map[string]bool) {
	if sc.viol || tr.id == "" {
		return
	}
	if !tr.broadcast && (sc.up[tr.dest] || !sc.held(tr)) {
		return // with the destination connected the node transmits to the destination only
	}
	for p := range tr.failedTo {
		if !sc.up[p] || p == tr.prev {
			continue
		}
		sc.r.Count("retries.checked", 1)
		if !attempted[p] {
			sc.violation("c13.failed-peer-not-retried:"+sc.algo, fmt.Sprintf("the transmission of %s to %s failed, %s is still connected, but it was not attempted again at the next retry opportunity", tr.id, p, p))
			return
		}
	}
}

func runHistory(r *report.Run, algo string, evs []int) error {
	return bubble.Run(nil, func(t *testing.T) {
		conf := nodesim.RoutingConf(algo)
		conf.SprayConf.Multiplicity = 6
		if algo == "sensor-mule" {
			conf.SensorMuleConf.SensorNodeRegex = "^dtn://c/$" // peer c is a sensor node
		}
		s, err := nodesim.New(nodesim.Config{Routing: conf})
		if err != nil {
			r.Violation("c13.open-failed", err.Error(), nil)
			return
		}
		defer s.Close()
		sc := &scenario{r: r, algo: algo, s: s, up: map[string]bool{}, byPID: map[string]*tracked{}, byID: map[string]*tracked{}}
		sc.persistent = algo == "epidemic" || algo == "prophet" || algo == "dtlsr" || algo == "sensor-mule"
		sc.v3 = algo == "epidemic" || algo == "spray" || algo == "prophet" || algo == "dtlsr"
		for _, ev := range evs {
			sc.apply(ev)
			if sc.viol {
				return
			}
		}
		multi := 0
		for _, tr := range sc.byPID {
			if len(tr.okTo)+len(tr.failedTo) > 0 {
				multi++
			}
		}
		for _, tr := range sc.byID {
			if len(tr.okTo)+len(tr.failedTo) > 0 {
				multi++
			}
		}
		if multi > 0 {
			r.Nontrivial(algo, fmt.Sprint(evs))
			r.Count("histories.with_transmissions."+algo, 1)
		}
	})
}

// coincidence: a peer appears at exactly the virtual instant of the 10 s retry tick.
func coincidence(r *report.Run, algo string, i int) error {
	return bubble.Run(nil, func(t *testing.T) {
		s, err := nodesim.New(nodesim.Config{Routing: nodesim.RoutingConf(algo)})
		if err != nil {
			return
		}
		defer s.Close()
		sc := &scenario{r: r, algo: algo, s: s, up: map[string]bool{}, byPID: map[string]*tracked{}, byID: map[string]*tracked{}}
		sc.hist = []string{"submit x3", "sleep to 1 ns before the retry tick", "peer appears together with the tick"}
		for k := 0; k < 3; k++ {
			sc.submit()
		}
		// the retry job fires on the cron's 1 s ticker at +10 s; the peer announces itself at the same instant
		time.Sleep(10*time.Second - time.Nanosecond)
		s.Wait()
		s.Step("peer_up_at_tick", "a")
		go func() {
			time.Sleep(time.Nanosecond)
			sc.up["a"] = true
			s.PeerUpNoWait("a")
		}()
		time.Sleep(time.Nanosecond)
		s.Wait()
		time.Sleep(2 * time.Second)
		s.Wait()
		sc.check(false)
		if !sc.viol {
			r.Nontrivial("coincidence", algo, i)
			r.Count("coincidence.runs", 1)
		}
	})
}

// coincidenceSubmit: while the first forwarding of a freshly submitted bundle is choosing its peers (the peers answer
// the question for their endpoint ID slowly - yielding, never blocking - and the first such question triggers the
// event), another peer appears and makes the node go over its pending bundles: two selections for one bundle overlap.
// Variant: the submissions coincide with the 10 s retry job instead. No bundle may reach a peer twice.
func coincidenceSubmit(r *report.Run, algo string, i int) error {
	return bubble.Run(nil, func(t *testing.T) {
		s, err := nodesim.New(nodesim.Config{Routing: nodesim.RoutingConf(algo)})
		if err != nil {
			return
		}
		defer s.Close()
		sc := &scenario{r: r, algo: algo, s: s, up: map[string]bool{}, byPID: map[string]*tracked{}, byID: map[string]*tracked{}}
		sc.peerUp("a")
		sc.peerUp("b")
		sc.check(false)
		atTick := i%3 == 2
		var armed int32
		for _, n := range []string{"a", "b"} {
			if p := s.Peer(n); p != nil {
				p.IDSpin = 300 + 200*(i%5)
				if !atTick {
					p.OnIDLookup = func() {
						if atomic.CompareAndSwapInt32(&armed, 1, 0) {
							sc.up["c"] = true
							go s.PeerUpNoWait("c")
						}
					}
				}
			}
		}
		if atTick {
			sc.hist = []string{"up_a", "up_b", "sleep to 1 ns before the retry tick", "submit x3 from three goroutines together with the tick"}
			time.Sleep(10*time.Second - time.Nanosecond)
			s.Wait()
		} else {
			sc.hist = []string{"up_a", "up_b", "submit x3", "peer c appears while the first selection of peers is under way"}
		}
		s.Step("submit_burst", fmt.Sprintf("at_tick=%v", atTick))
		atomic.StoreInt32(&armed, 1)
		for k := 0; k < 3; k++ {
			sc.n++
			pid := fmt.Sprintf("x%d", sc.n)
			b, err := bpv7.Builder().CRC(bpv7.CRC32).Source("dtn://node/app").Destination("dtn://far/in").CreationTimestampNow().Lifetime("24h").
				PayloadBlock(nodesim.Payload(pid, 4)).Build()
			if err != nil {
				panic(err)
			}
			sc.byPID[pid] = &tracked{pid: pid, dest: "far", okTo: map[string]int64{}, failedTo: map[string]bool{}}
			go func() {
				if atTick {
					time.Sleep(time.Nanosecond)
				}
				s.Core.SendBundle(&b)
			}()
		}
		if atTick {
			time.Sleep(time.Nanosecond)
		}
		s.Wait()
		time.Sleep(2 * time.Second)
		s.Wait()
		sc.check(false)
		s.Tick(10 * time.Second)
		sc.check(false)
		if !sc.viol {
			r.Nontrivial("coincidence-submit", algo, i)
			r.Count("coincidence.submit_runs", 1)
			if !atTick && atomic.LoadInt32(&armed) == 0 {
				r.Count("coincidence.peer_appeared_during_selection", 1)
			}
		}
	})
}

var algos = []string{"epidemic", "spray", "binary_spray", "prophet", "dtlsr", "sensor-mule"}

func TestCheck(t *testing.T) {
	bubble.Quiet()
	bubble.SetT(t)
	r := report.Start(t, "C13")
	defer r.Finish()
	bubble.WatchDeadlocks(3, func(frame, dump string) { r.DeadlockVerdict("c13", frame, dump) })

	run := func(algo string, evs []int) {
		if err := runHistory(r, algo, evs); err != nil {
			names := make([]string, len(evs))
			for i, e := range evs {
				names[i] = evNames[e]
			}
			r.Violation("c13.node-deadlock-or-panic", err.Error(), map[string]interface{}{"algorithm": algo, "history": names})
		}
	}

	// bounded-exhaustive: [up_a, rx_from_a | submit] followed by every history of the given depth
	alpha := []int{evSubmit, evRxFromA, evUpA, evUpB, evDown, evToggleFail, evTick, evRestart, evUpDest}
	enumerate := func(group, algo string, prefix []int, depth int) {
		n := 1
		for i := 0; i < depth; i++ {
			n *= len(alpha)
		}
		r.Group(group, n, func(i int, rng *report.Rand) {
			evs := append([]int{}, prefix...)
			x := i
			for k := 0; k < depth; k++ {
				evs = append(evs, alpha[x%len(alpha)])
				x /= len(alpha)
			}
			run(algo, evs)
		})
	}
	d := r.Pick(3, 4)
	enumerate("exh-epidemic-rx", "epidemic", []int{evUpA, evRxFromA}, d)
	enumerate("exh-epidemic-submit", "epidemic", []int{evSubmit}, d-1)
	if r.Thorough() {
		for _, a := range algos[1:] {
			enumerate("exh-"+a+"-rx", a, []int{evUpA, evRxFromA}, 3)
			enumerate("exh-"+a+"-submit", a, []int{evSubmit}, 3)
		}
	}
	r.Exhaustive("histories of the stated depth behind a reception / a submission (epidemic)")

	for _, a := range algos {
		a := a
		r.Group("random-"+a, r.Pick(80, 1000), func(i int, rng *report.Rand) {
			n := 6 + rng.Intn(20)
			evs := make([]int, n)
			for k := range evs {
				evs[k] = rng.Intn(nEvents)
			}
			run(a, evs)
			if i == 0 {
				names := make([]string, len(evs))
				for k, e := range evs {
					names[k] = evNames[e]
				}
				r.Sample(map[string]interface{}{"algorithm": a, "history": names})
			}
		})
	}

	// scripted duplicate receptions: the node holds a bundle it already handed on and receives it once more
	scripts := [][]int{
		{evUpA, evRxFromA, evUpB, evUpC, evRxDuplicate, evTick, evTick},
		{evUpA, evUpB, evSubmit, evUpC, evOwnBack, evTick, evTick},
		{evUpA, evRxFromA, evUpB, evRxDuplicate, evTick, evUpC, evTick},
		{evUpA, evUpB, evSubmit, evOwnBack, evUpC, evTick, evRxDuplicate, evTick},
		{evUpA, evUpB, evUpC, evRxFromB, evRxDuplicate, evDown, evUpA, evTick},
		{evUpA, evSubmit, evUpB, evOwnBack, evTick, evOwnBack, evUpC, evTick},
	}
	scripts = append(scripts,
		// two convergence layers towards one peer
		[]int{evUpA, evLinkA2, evSubmit, evTick, evUpB, evTick},
		[]int{evUpA, evLinkA2, evUpB, evRxFromB, evTick, evTick},
		[]int{evUpA, evSubmit, evLinkA2, evTick, evToggleFail, evSubmit, evToggleFail, evTick, evTick},
		[]int{evToggleFail, evUpA, evLinkA2, evSubmit, evToggleFail, evTick, evTick},
		[]int{evUpA, evLinkA2, evRxLinkState, evUpB, evTick, evRxLinkState, evTick},
		// link-state broadcasts of a third node arriving out of order through peer a
		[]int{evUpA, evUpB, evRxLinkState, evRxLinkState, evTick, evTick},
		[]int{evUpA, evUpB, evUpC, evRxLinkState, evRxLinkState, evRxLinkState, evTick, evRxLinkState, evRxLinkState, evTick},
		[]int{evUpA, evRxLinkState, evRxLinkState, evUpB, evTick, evRestart, evUpA, evUpB, evTick},
		[]int{evUpA, evUpB, evToggleFail, evRxLinkState, evRxLinkState, evToggleFail, evTick, evTick},
	)
	r.Group("duplicates", len(scripts)*len(algos), func(i int, rng *report.Rand) {
		run(algos[i%len(algos)], scripts[i/len(algos)])
	})

	for _, a := range []string{"epidemic", "prophet", "spray"} {
		a := a
		r.Group("coincidence-submit-"+a, r.Pick(36, 200), func(i int, rng *report.Rand) {
			if err := coincidenceSubmit(r, a, i); err != nil {
				r.Violation("c13.node-deadlock-or-panic", err.Error(), map[string]interface{}{"algorithm": a, "workload": "coincidence-submit"})
			}
		})
	}
	for _, a := range []string{"epidemic", "prophet", "spray"} {
		a := a
		r.Group("coincidence-"+a, r.Pick(60, 400), func(i int, rng *report.Rand) {
			if err := coincidence(r, a, i); err != nil {
				r.Violation("c13.node-deadlock-or-panic", err.Error(), map[string]interface{}{"algorithm": a, "workload": "coincidence"})
			}
		})
	}
}
