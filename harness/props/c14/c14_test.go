package c14

import (
	"runtime"
	"bytes"
	"crypto/sha256"
	"fmt"
	"sync"
	"testing"
	"time"

	"github.com/dtn7/dtn7-go/pkg/agent"
	"github.com/dtn7/dtn7-go/pkg/bpv7"
	"github.com/dtn7/dtn7-go/pkg/routing"

	"verifh/internal/bubble"
	"verifh/internal/model"
	"verifh/internal/nodesim"
	"verifh/internal/report"
)

// contentKey identifies "which bundle this is" independently of its ID.
func contentKey(m model.Bundle) string {
	if pid := nodesim.PIDOf(m.Payload()); pid != "" {
		return "pid:" + pid
	}
	// node-made bundles: destination + payload (+ metadata block content)
	h := sha256.New()
	h.Write([]byte(m.Dst.String()))
	h.Write([]byte{0})
	h.Write(m.Payload())
	for _, b := range m.Blocks {
		if b.Type == model.TProphet || b.Type == model.TDTLSR {
			h.Write([]byte(b.Canon()))
		}
	}
	return fmt.Sprintf("node:%s:%x", m.Dst, h.Sum(nil)[:6])
}

type obs struct {
	r     *report.Run
	s     *nodesim.Sim
	label string
	desc  map[string]interface{}
	bad   bool
}

func (o *obs) violation(sig, msg string) {
	if o.bad {
		return
	}
	o.bad = true
	o.desc["trace"] = o.s.TraceStrings()
	var sends []string
	for _, x := range o.s.Sends() {
		sends = append(sends, fmt.Sprintf("step=%d peer=%s id=%s key=%s ok=%v", x.Step, x.Peer, x.ID, contentKey(x.Bundle), x.OK))
	}
	o.desc["sends"] = sends
	o.r.Violation(sig, msg, o.desc)
}

// storeView returns id -> content key for every record reachable through QueryPending plus the given ids.
func (o *obs) storeView() (map[string]string, map[string]uint64) {
	view := map[string]string{}
	seqs := map[string]uint64{}
	bis, err := o.s.Store().QueryPending()
	if err != nil {
		o.violation("c14.query-pending", err.Error())
		return view, seqs
	}
	for _, bi := range bis {
		for _, part := range bi.Parts {
			b, err := part.Load()
			if err != nil {
				o.violation("c14.store-load", "stored bundle cannot be loaded: "+err.Error())
				continue
			}
			m := model.FromBpv7(b)
			view[bi.Id] = contentKey(m)
			seqs[bi.Id] = m.Seq
			if b.ID().Scrub().String() != bi.Id {
				o.violation("c14.store-key-differs-from-content:"+o.label,
					fmt.Sprintf("record filed under %s holds a bundle whose own ID is %s", bi.Id, b.ID()))
			}
		}
	}
	return view, seqs
}

// checkAll: wire injectivity, store injectivity, store = wire.
func (o *obs) checkAll(expected []string) {
	wire := map[string]string{} // id -> content key
	idOf := map[string]string{} // content key -> id on the wire
	for _, x := range o.s.Sends() {
		if x.ParseErr != "" {
			o.violation("c14.emitted-unparseable", x.ParseErr)
			return
		}
		k := contentKey(x.Bundle)
		if prev, ok := wire[x.ID]; ok && prev != k {
			o.violation("c14.wire-id-collision:"+o.label, fmt.Sprintf("two distinct bundles (%s, %s) left the node under the same ID %s", prev, k, x.ID))
			return
		}
		wire[x.ID] = k
		if prev, ok := idOf[k]; ok && prev != x.ID {
			o.violation("c14.wire-id-unstable:"+o.label, fmt.Sprintf("bundle %s left the node under two IDs: %s and %s", k, prev, x.ID))
			return
		}
		idOf[k] = x.ID
	}
	view, _ := o.storeView()
	inStore := map[string]string{} // key -> id
	for id, k := range view {
		if prev, ok := inStore[k]; ok && prev != id {
			o.violation("c14.store-duplicate:"+o.label, fmt.Sprintf("bundle %s is filed twice: %s and %s", k, prev, id))
			return
		}
		inStore[k] = id
	}
	for _, k := range expected {
		id, ok := inStore[k]
		if !ok {
			o.violation("c14.not-filed:"+o.label, fmt.Sprintf("submitted bundle %s should wait in the store but no pending record holds it (a record of another bundle with the same ID took its place?)", k))
			return
		}
		if wid, sent := idOf[k]; sent && wid != id {
			o.violation("c14.store-id-differs-from-wire:"+o.label, fmt.Sprintf("bundle %s is stored under %s but was transmitted as %s", k, id, wid))
			return
		}
	}
	o.r.Count("checked.ids_on_wire", len(wire))
	o.r.Count("checked.records_in_store", len(view))
}

func mkBundle(pid, src string, mode int, now time.Time) bpv7.Bundle {
	bl := bpv7.Builder().CRC(bpv7.CRC32).Source(src).Destination("dtn://far/in").Lifetime("24h")
	switch mode {
	case 0:
		bl = bl.CreationTimestampNow()
	case 1:
		bl = bl.CreationTimestampEpoch().BundleAgeBlock(uint64(10))
	case 2:
		bl = bl.CreationTimestampTime(now.Add(-2 * time.Minute))
	}
	b, err := bl.PayloadBlock(nodesim.Payload(pid, 6)).Build()
	if err != nil {
		panic(err)
	}
	return b
}

var modeNames = []string{"now", "zero-time", "two-minutes-ago"}

// submissions: n bundles with coinciding source and creation time through one path.
func submissions(r *report.Run, rng *report.Rand, idx int, algo string, path int, n int, mode int, withPeer bool, concurrent bool) {
	submissionsK(r, rng, idx, algo, path, n, mode, withPeer, concurrent, 0)
}

// submissionsK: with workers > 0 the n bundles are submitted by that many goroutines, each looping over its share (many
// back-to-back calls per goroutine: the counter updates of different goroutines then overlap at arbitrary phases).
func submissionsK(r *report.Run, rng *report.Rand, idx int, algo string, path int, n int, mode int, withPeer bool, concurrent bool, workers int) {
	label := fmt.Sprintf("%s:%s", []string{"SendBundle", "agent"}[path], modeNames[mode])
	if concurrent {
		label += ":concurrent"
	}
	err := bubble.Run(nil, func(t *testing.T) {
		s, err := nodesim.New(nodesim.Config{Routing: nodesim.RoutingConf(algo)})
		if err != nil {
			r.Violation("c14.open-failed", err.Error(), nil)
			return
		}
		defer s.Close()
		o := &obs{r: r, s: s, label: label, desc: map[string]interface{}{"algorithm": algo, "path": label, "group": n, "peer_connected": withPeer}}
		if withPeer {
			s.PeerUp("r1")
		}
		var ag *nodesim.Agent
		src := "dtn://node/app"
		if path == 1 {
			ag = s.AddAgent("app", src)
		}
		now := time.Now()
		var keys []string
		var bs []bpv7.Bundle
		for i := 0; i < n; i++ {
			pid := fmt.Sprintf("g%d-%d", idx, i)
			keys = append(keys, "pid:"+pid)
			bs = append(bs, mkBundle(pid, src, mode, now))
		}
		s.Step("submit_group", fmt.Sprintf("%d via %s", n, label))
		if concurrent && workers > 0 {
			var wg sync.WaitGroup
			start := make(chan struct{})
			for w := 0; w < workers; w++ {
				wg.Add(1)
				go func(w int) {
					defer wg.Done()
					<-start
					for i := w; i < len(bs); i += workers {
						if path == 1 {
							ag.MessageSender() <- agent.BundleMessage{Bundle: bs[i]}
						} else {
							b := bs[i]
							s.Core.SendBundle(&b)
						}
					}
				}(w)
			}
			// two more goroutines draw numbers for the same (source, creation time) from the node's own keeper all the
			// while (numbers that are simply used up): the submitters' updates now overlap with other updates at
			// arbitrary phases instead of marching in step behind the store's mutex
			stop := make(chan struct{})
			var hw sync.WaitGroup
			for h := 0; h < 2; h++ {
				hw.Add(1)
				go func() {
					defer hw.Done()
					drawn := 0
					defer func() { r.Count("conc_race.numbers_drawn_alongside", drawn) }()
					hb := mkBundle("hammer", src, mode, now)
					for {
						select {
						case <-stop:
							return
						default:
						}
						s.Core.VerifAssignSequenceNumber(&hb)
						drawn++
						if drawn%64 == 0 {
							runtime.Gosched()
						}
					}
				}()
			}
			close(start)
			wg.Wait()
			close(stop)
			hw.Wait()
			s.Wait()
		} else if concurrent {
			var wg sync.WaitGroup
			for i := range bs {
				wg.Add(1)
				go func(b bpv7.Bundle) {
					defer wg.Done()
					if path == 1 {
						ag.MessageSender() <- agent.BundleMessage{Bundle: b}
					} else {
						s.Core.SendBundle(&b)
					}
				}(bs[i])
			}
			wg.Wait()
			s.Wait()
		} else {
			for i := range bs {
				if path == 1 {
					ag.MessageSender() <- agent.BundleMessage{Bundle: bs[i]}
				} else {
					b := bs[i]
					s.Core.SendBundle(&b)
				}
			}
			s.Wait()
		}
		// everything still waits for its destination: each must be filed
		o.checkAll(keys)
		// a further peer shows the IDs under which the stored bundles leave the node
		s.PeerUp("r2")
		o.checkAll(keys)
		s.Tick(10 * time.Second)
		o.checkAll(keys)
		// every submitted bundle must have been seen on the wire by now, under distinct IDs
		seen := map[string]bool{}
		for _, x := range s.Sends() {
			seen[contentKey(x.Bundle)] = true
		}
		for _, k := range keys {
			if !seen[k] && algo != "epidemic" {
				// only epidemic routing must offer every bundle to every new peer; the others may legitimately wait
				// for a route / a better carrier - then there is no wire ID to compare for this bundle
				r.Count("not_transmitted_by_choice_of."+algo, 1)
				continue
			}
			if !seen[k] {
				o.violation("c14.never-transmitted:"+label, fmt.Sprintf("bundle %s was never handed to a convergence layer although peers were connected", k))
			}
		}
		if !o.bad && n > 1 {
			r.Nontrivial(algo, label, n, withPeer)
			r.Count("groups."+label, 1)
		}
	})
	if err != nil {
		r.Violation("c14.node-deadlock-or-panic", err.Error(), map[string]interface{}{"path": label})
	}
}

// nodeMade: status reports, pongs and routing metadata generated by the node itself in one frozen millisecond.
func nodeMade(r *report.Run, rng *report.Rand, idx int, kind int, n int) {
	label := []string{"status-reports", "pongs", "prophet-metadata", "dtlsr-metadata"}[kind]
	algo := []string{"epidemic", "epidemic", "prophet", "dtlsr"}[kind]
	err := bubble.Run(nil, func(t *testing.T) {
		s, err := nodesim.New(nodesim.Config{Routing: nodesim.RoutingConf(algo)})
		if err != nil {
			r.Violation("c14.open-failed", err.Error(), nil)
			return
		}
		defer s.Close()
		o := &obs{r: r, s: s, label: label, desc: map[string]interface{}{"kind": label, "n": n}}
		switch kind {
		case 0: // reception reports for n bundles received in one step
			s.PeerUp("p")
			for i := 0; i < n; i++ {
				m := model.Bundle{Version: 7, CRC: 2, Flags: model.FReqRecv, Dst: model.Dtn("far", "in"), Src: model.Dtn("remote", "app"),
					Rpt: model.Dtn("rpt", fmt.Sprintf("x%d", i%2)), Time: bubble.NowMs() - 5, Seq: uint64(i), Lifetime: 3_600_000,
					Blocks: []model.Block{{Type: model.TPrevNode, Num: 2, Node: model.Dtn("p", "")}, {Type: model.TPayload, Num: 1, Data: nodesim.Payload(fmt.Sprintf("rx%d-%d", idx, i), 4)}}}
				wire, _ := m.Encode(nil)
				b, _ := bpv7.ParseBundle(bytes.NewReader(wire))
				s.Step("rx", b.ID().String())
				s.Peer("p").Inject(&b)
			}
			s.Wait()
		case 1: // pongs
			png := agent.NewPing(bpv7.MustNewEndpointID("dtn://node/ping"))
			s.Core.RegisterApplicationAgent(png)
			s.PeerUp("p")
			for i := 0; i < n; i++ {
				m := model.Bundle{Version: 7, CRC: 2, Dst: model.Dtn("node", "ping"), Src: model.Dtn("remote", "app"),
					Rpt: model.Dtn("pinger", fmt.Sprintf("x%d", i)), Time: bubble.NowMs() - 5, Seq: uint64(i), Lifetime: 3_600_000,
					Blocks: []model.Block{{Type: model.TPayload, Num: 1, Data: nodesim.Payload(fmt.Sprintf("ping%d-%d", idx, i), 4)}}}
				wire, _ := m.Encode(nil)
				b, _ := bpv7.ParseBundle(bytes.NewReader(wire))
				s.Step("rx", b.ID().String())
				s.Peer("p").Inject(&b)
			}
			s.Wait()
		case 2, 3: // metadata for n peers appearing in one millisecond
			for i := 0; i < n; i++ {
				s.PeerUpNoWait(fmt.Sprintf("m%d", i))
			}
			s.Wait()
			if kind == 3 {
				s.Tick(7 * time.Second) // broadcast job
				s.PeerUp("late")
				s.Tick(7 * time.Second)
			}
		}
		o.checkAll(nil)
		s.Tick(10 * time.Second)
		o.checkAll(nil)
		// count distinct node-made bundles seen
		keys := map[string]bool{}
		for _, x := range s.Sends() {
			if x.Bundle.Src == model.Dtn("node", "") || x.Bundle.Src == model.Dtn("node", "ping") {
				keys[contentKey(x.Bundle)] = true
			}
		}
		r.Count("node_made."+label+".distinct_bundles_seen", len(keys))
		if !o.bad && len(keys) > 1 {
			r.Nontrivial(label, n, len(keys))
		}
	})
	if err != nil {
		r.Violation("c14.node-deadlock-or-panic", err.Error(), map[string]interface{}{"kind": label})
	}
}

// restartGaps: clock-less (and same-millisecond) bundles of one application, some of which leave the node before a
// restart, so that the IDs left in the store have gaps; further submissions after each restart must still get IDs
// that are distinct from everything stored or transmitted.
func restartGaps(r *report.Run, rng *report.Rand, idx int) {
	label := "restart:zero-time"
	mode := 1
	if idx%3 == 2 {
		label, mode = "restart:now", 0
	}
	err := bubble.Run(nil, func(t *testing.T) {
		s, err := nodesim.New(nodesim.Config{Routing: nodesim.RoutingConf("epidemic")})
		if err != nil {
			r.Violation("c14.open-failed", err.Error(), nil)
			return
		}
		defer s.Close()
		o := &obs{r: r, s: s, label: label, desc: map[string]interface{}{"workload": label}}
		n := 0
		waiting := map[string]bool{} // content keys that must still be in the store
		submit := func(dest string) {
			n++
			pid := fmt.Sprintf("rg%d-%d", idx, n)
			bl := bpv7.Builder().CRC(bpv7.CRC32).Source("dtn://node/app").Destination("dtn://" + dest + "/in").Lifetime("24h")
			if mode == 1 {
				bl = bl.CreationTimestampEpoch().BundleAgeBlock(uint64(10))
			} else {
				bl = bl.CreationTimestampNow() // frozen within a round: same millisecond
			}
			b, err := bl.PayloadBlock(nodesim.Payload(pid, 6)).Build()
			if err != nil {
				panic(err)
			}
			s.Submit(b)
			connected := false
			for _, p := range s.PeersUp() {
				if p == dest {
					connected = true
				}
			}
			if !connected {
				waiting["pid:"+pid] = true
			}
		}
		keys := func() []string {
			var ks []string
			for k := range waiting {
				ks = append(ks, k)
			}
			return ks
		}
		for round := 0; round < 3 && !o.bad; round++ {
			// dB is connected: bundles for dB leave the node and the store at once, the others wait
			s.PeerUp("dB")
			k := 2 + rng.Intn(4)
			for i := 0; i < k; i++ {
				if rng.Intn(3) == 0 {
					submit("dB")
				} else {
					submit([]string{"dA", "dC"}[rng.Intn(2)])
				}
			}
			o.checkAll(keys())
			if err := s.Restart(); err != nil {
				o.violation("c14.restart-failed", err.Error())
				return
			}
			time.Sleep(1500 * time.Millisecond) // a restart takes time: the next round has another millisecond
			s.Wait()
		}
		// finally the other destinations appear: every waiting bundle leaves under its own ID
		s.PeerUp("dA")
		s.PeerUp("dC")
		s.Tick(10 * time.Second)
		o.checkAll(nil)
		seen := map[string]bool{}
		for _, x := range s.Sends() {
			seen[contentKey(x.Bundle)] = true
		}
		for i := 1; i <= n; i++ {
			k := fmt.Sprintf("pid:rg%d-%d", idx, i)
			if !seen[k] {
				o.violation("c14.never-transmitted:"+label, fmt.Sprintf("bundle %s never left the node although its destination was connected (another bundle took its ID?)", k))
			}
		}
		if !o.bad {
			r.Nontrivial(label, idx, n)
			r.Count("groups."+label, 1)
		}
	})
	if err != nil {
		r.Violation("c14.node-deadlock-or-panic", err.Error(), map[string]interface{}{"workload": label})
	}
}

func TestCheck(t *testing.T) {
	bubble.Quiet()
	bubble.SetT(t)
	r := report.Start(t, "C14")
	defer r.Finish()
	bubble.WatchDeadlocks(3, func(frame, dump string) { r.DeadlockVerdict("c14", frame, dump) })

	// groups of 1..6 x 2 paths x 3 creation-time modes x with/without peer x sequential/concurrent
	type gc struct {
		path, n, mode int
		peer, conc    bool
	}
	var cases []gc
	for path := 0; path < 2; path++ {
		for n := 1; n <= 6; n++ {
			for mode := 0; mode < 3; mode++ {
				for _, peer := range []bool{false, true} {
					for _, conc := range []bool{false, true} {
						if conc && n < 2 {
							continue
						}
						cases = append(cases, gc{path, n, mode, peer, conc})
					}
				}
			}
		}
	}
	reps := r.Pick(1, 20)
	r.Group("groups", len(cases)*reps, func(i int, rng *report.Rand) {
		c := cases[i%len(cases)]
		algo := []string{"epidemic", "spray", "prophet", "dtlsr", "binary_spray"}[(i/len(cases))%5]
		submissions(r, rng, i, algo, c.path, c.n, c.mode, c.peer, c.conc)
		if i == 7 {
			r.Sample(map[string]interface{}{"group": fmt.Sprintf("%+v", c), "algorithm": algo})
		}
	})
	r.Exhaustive("group size 1..6 x {SendBundle, agent manager} x {now, zero time, two minutes ago} x {no peer, peer} x {sequential, concurrent}")

	// larger concurrent groups; in the quick tier this group (only) runs under the race detector: an unsynchronised
	// access to the counters is reported for any two overlapping submissions, whether or not the tiny window in which
	// two bundles would actually get the same number is hit in this run
	r.Group("conc-race", r.Pick(16, 96), func(i int, rng *report.Rand) {
		algo := []string{"epidemic", "spray", "prophet", "dtlsr", "binary_spray"}[i%5]
		workers := 3 + i%6
		path := 0
		if i%8 == 7 {
			path = 1 // the agent manager serialises submissions; mostly the direct path is stressed
		}
		submissionsK(r, rng, 100000+i, algo, path, workers*r.Pick(4, 8), i%3, i%4 < 2, true, workers)
		r.Count("conc_race.groups", 1)
	})

	// the keeper alone under contention: W goroutines number bundles of the same few (source, creation time) tuples;
	// every (tuple, sequence number) pair may be given out once. Runs in the plain and in the race-instrumented pass.
	for _, g := range []string{"idkeeper-stress", "conc-race-idkeeper"} {
		r.Group(g, r.Pick(16, 64), func(i int, rng *report.Rand) { keeperStress(r, rng, i) })
	}

	r.Group("restart-gaps", r.Pick(48, 600), func(i int, rng *report.Rand) {
		restartGaps(r, rng, i)
	})

	r.Group("node-made", 4*r.Pick(5, 50), func(i int, rng *report.Rand) {
		nodeMade(r, rng, i, i%4, 2+(i/4)%5)
		if i < 4 {
			r.Sample(map[string]interface{}{"node_made": []string{"status-reports", "pongs", "prophet-metadata", "dtlsr-metadata"}[i%4], "n": 2 + (i/4)%5})
		}
	})
}

// keeperStress hammers one IdKeeper from several goroutines.
func keeperStress(r *report.Run, rng *report.Rand, idx int) {
	k := routing.VerifNewIdKeeper()
	workers := 2 + idx%7
	per := 4000
	now := time.Now()
	protos := []bpv7.Bundle{mkBundle("k", "dtn://node/app", 1, now), mkBundle("k", "dtn://node/app", 0, now), mkBundle("k", "dtn://node/other", 1, now)}
	ntuples := 1 + idx%3
	type got struct {
		tuple int
		seq   uint64
	}
	res := make([][]got, workers)
	var wg sync.WaitGroup
	start := make(chan struct{})
	for w := 0; w < workers; w++ {
		wg.Add(1)
		go func(w int) {
			defer wg.Done()
			<-start
			out := make([]got, 0, per)
			for j := 0; j < per; j++ {
				t := (w + j) % ntuples
				b := protos[t]
				k.Update(&b)
				out = append(out, got{t, b.PrimaryBlock.CreationTimestamp.SequenceNumber()})
			}
			res[w] = out
		}(w)
	}
	close(start)
	wg.Wait()
	seen := map[got]int{}
	for _, out := range res {
		for _, g := range out {
			seen[g]++
		}
	}
	r.Evals(workers * per)
	for g, c := range seen {
		if c > 1 {
			r.Violation("c14.keeper-number-given-twice:concurrent", fmt.Sprintf("sequence number %d of one (source, creation time) was assigned %d times by concurrent updates (%d goroutines)", g.seq, c, workers),
				map[string]interface{}{"workers": workers, "updates_per_worker": per, "tuples": ntuples})
			return
		}
	}
	r.Count("keeper_stress.numbers_assigned_distinct", len(seen))
	r.Nontrivial("keeper", idx, workers, ntuples)
}
