package c15

import (
	"strings"
	"bytes"
	"fmt"
	"testing"
	"time"

	"github.com/dtn7/dtn7-go/pkg/bpv7"

	"verifh/internal/bubble"
	"verifh/internal/model"
	"verifh/internal/nodesim"
	"verifh/internal/report"
)

const (
	outDelivered = iota
	outNoAgent
	outForwarded
	outAllFailed
	outExpired
	outHopLimit
	outUnknownReport
	outUnknownDelete
	outUnknownRemove
	outNoAgentNodeID // destination is the bare node ID (dtn://node/), for which no agent is registered either
	outForwardedLater // nobody to forward to at reception; the relay appears later and the bundle is forwarded from the store
	outFailedThenForwarded // the first attempt fails, the retry from the store succeeds
	nOutcomes
)

var outNames = []string{"delivered-to-agent", "addressed-to-node-without-agent", "forwarded", "all-sends-failed", "lifetime-expired", "hop-limit-exceeded",
	"unknown-block-report-flag", "unknown-block-delete-flag", "unknown-block-remove-flag", "addressed-to-bare-node-id-without-agent", "forwarded-later-from-the-store", "failed-then-forwarded-on-retry"}

var rptNames = []string{"other-node", "this-node", "dtn:none"}

type tcase struct {
	flags    uint64 // request flags + time flag (+ admin flag)
	fragment bool
	rpt      int
	outcome  int
}

func (c tcase) String() string {
	return fmt.Sprintf("flags=%#x fragment=%v report-to=%s outcome=%s", c.flags, c.fragment, rptNames[c.rpt], outNames[c.outcome])
}

type observed struct {
	rec    nodesim.SendRec
	sr     *bpv7.StatusReport
	raw    []byte
}

// reportsIn extracts the administrative-record bundles among send records / deliveries.
func decode(b model.Bundle) (*bpv7.StatusReport, error) {
	ar, err := bpv7.NewAdministrativeRecordFromCbor(b.Payload())
	if err != nil {
		return nil, err
	}
	sr, ok := ar.(*bpv7.StatusReport)
	if !ok {
		return nil, fmt.Errorf("administrative record is not a status report")
	}
	return sr, nil
}

func run(r *report.Run, c tcase, idx int) error {
	return bubble.Run(nil, func(t *testing.T) {
		s, err := nodesim.New(nodesim.Config{Routing: nodesim.RoutingConf("epidemic")})
		if err != nil {
			r.Violation("c15.open-failed", err.Error(), nil)
			return
		}
		defer s.Close()
		app := s.AddAgent("app", "dtn://node/app")
		_ = app
		rptAgent := s.AddAgent("rptagent", "dtn://node/reports")
		_ = rptAgent
		p := s.PeerUp("p") // delivers the bundle and sees the node's epidemic copies of everything
		_ = p

		now := bubble.NowMs()
		pid := fmt.Sprintf("t%d", idx)
		m := model.Bundle{Version: 7, CRC: 2, Flags: c.flags, Src: model.Dtn("origin", "app"), Time: now - 500, Seq: uint64(idx), Lifetime: 86_400_000}
		switch c.rpt {
		case 0:
			m.Rpt = model.Dtn("rpt", "x")
		case 1:
			m.Rpt = model.Dtn("node", "reports")
		case 2:
			m.Rpt = model.DtnNone()
		}
		m.Dst = model.Dtn("far", "in")
		var blocks []model.Block
		blocks = append(blocks, model.Block{Type: model.TPrevNode, Num: 2, Node: model.Dtn("p", "")})
		unknownReport := false
		switch c.outcome {
		case outDelivered:
			m.Dst = model.Dtn("node", "app")
		case outNoAgent:
			m.Dst = model.Dtn("node", "nobody")
		case outNoAgentNodeID:
			m.Dst = model.Dtn("node", "")
		case outExpired:
			m.Lifetime = 500 + 3000 // ends 3 s after reception
		case outHopLimit:
			blocks = append(blocks, model.Block{Type: model.THopCount, Num: 3, Limit: 4, Count: 4})
		case outUnknownReport:
			blocks = append(blocks, model.Block{Type: 230, Num: 4, Flags: model.BReport, Data: []byte("?")})
			unknownReport = true
		case outUnknownDelete:
			blocks = append(blocks, model.Block{Type: 231, Num: 4, Flags: model.BDelete, Data: []byte("?")})
		case outUnknownRemove:
			blocks = append(blocks, model.Block{Type: 232, Num: 4, Flags: model.BRemove, Data: []byte("?")})
		}
		payload := nodesim.Payload(pid, 6)
		if c.fragment {
			m.Flags |= model.FIsFragment
			m.FragOff, m.Total = 7, 7+uint64(len(payload))+5
		}
		m.Blocks = append(blocks, model.Block{Type: model.TPayload, Num: 1, CRC: 1, Data: payload})
		if bad := m.Invalid(now); len(bad) > 0 {
			r.Count("harness.case_not_wellformed", 1)
			return
		}
		wire, _ := m.Encode(nil)
		refID := m.Src.String() + fmt.Sprintf("-%d-%d", m.Time, m.Seq)
		refBase := refID
		if c.fragment {
			refID += fmt.Sprintf("-%d-%d", m.FragOff, m.Total)
		}

		// scripted environment per outcome
		switch c.outcome {
		case outForwarded, outUnknownReport, outUnknownRemove:
			s.PeerUp("r")
		case outFailedThenForwarded:
			s.PeerUpWith("r", func(q *nodesim.Peer) { q.Fail() })
		case outAllFailed:
			s.PeerUpWith("r", func(q *nodesim.Peer) { q.Fail() })
			s.Peer("p").Fail()
		}
		if err := s.Deliver("p", wire); err != nil {
			r.Count("harness.rx_rejected", 1)
			return
		}
		if c.outcome == outExpired {
			s.Tick(10 * time.Second) // retry after the lifetime has ended
		}
		if c.outcome == outForwardedLater {
			s.Tick(3 * time.Second)
			s.PeerUp("r") // the waiting bundle is forwarded from the store
		}
		if c.outcome == outFailedThenForwarded {
			s.Peer("r").OK() // the next retry succeeds
		}
		s.Tick(10 * time.Second)
		r.Evals(1)

		wit := func() interface{} {
			var sends []string
			for _, x := range s.Sends() {
				sends = append(sends, fmt.Sprintf("step=%d call=%d peer=%s id=%s pid=%s ok=%v admin=%v", x.Step, x.CallNo, x.Peer, x.ID, x.PID, x.OK, x.Bundle.Flags&model.FAdminRecord != 0))
			}
			return map[string]interface{}{"case": c.String(), "bundle": fmt.Sprintf("%x", wire), "trace": s.TraceStrings(), "sends": sends}
		}

		// ground truth
		forwardedAt := int64(-1)
		for _, x := range s.Sends() {
			if x.PID == pid && x.OK && (forwardedAt < 0 || x.RetNo < forwardedAt) {
				forwardedAt = x.RetNo
			}
		}
		deliveredToAgent := false
		for _, d := range s.Deliveries() {
			if d.PID == pid {
				deliveredToAgent = true
			}
		}
		deletedForCause := c.outcome == outExpired || c.outcome == outHopLimit || c.outcome == outUnknownDelete

		// observed reports (de-duplicated by the report bundle's ID: epidemic copies go to several peers)
		seen := map[string]bool{}
		var reports []observed
		check := func(b model.Bundle, raw []byte, callNo int64, where string) bool {
			if b.Flags&model.FAdminRecord == 0 {
				return true
			}
			if b.Src == m.Src && nodesim.PIDOf(b.Payload()) == pid {
				return true // the scenario's own bundle (an administrative record by flag), merely forwarded
			}
			sr, err := decode(b)
			if err != nil {
				r.Violation("c15.report-undecodable", "administrative-record bundle emitted by the node cannot be decoded: "+err.Error(), wit())
				return false
			}
			if got := sr.RefBundle.String(); got != refID {
				// same source, creation time and sequence number but other fragment data: a report about the scenario's
				// bundle that does not name its exact ID
				if got == refBase || strings.HasPrefix(got, refBase+"-") {
					r.Violation("c15.report-wrong-fragment-reference", fmt.Sprintf("report references %s, the bundle is %s", got, refID), wit())
					return false
				}
				return true // about another bundle (e.g. fed-back reports); handled by the cascade check
			}
			key := fmt.Sprintf("%s-%d-%d", b.Src, b.Time, b.Seq)
			if seen[key] {
				return true
			}
			seen[key] = true
			r.Count("reports.observed", 1)
			// addressing and form
			if b.Flags&model.FReqAny != 0 {
				r.Violation("c15.report-requests-reports", "status report carries report-request flags", wit())
				return false
			}
			if b.Dst != m.Rpt {
				r.Violation("c15.report-wrong-destination", fmt.Sprintf("status report is addressed to %s, the bundle's report-to is %s", b.Dst, m.Rpt), wit())
				return false
			}
			if b.Src.Scheme != 1 || b.Src.Node != "node" {
				r.Violation("c15.report-wrong-source", "status report's source is not an endpoint of this node: "+b.Src.String(), wit())
				return false
			}
			if bad := b.Invalid(bubble.NowMs()); len(bad) > 0 {
				r.Violation("c15.report-malformed:"+bad[0], fmt.Sprintf("status report bundle breaks %v", bad), wit())
				return false
			}
			// never about administrative records or bundles reporting to this node
			if m.Flags&model.FAdminRecord != 0 {
				r.Violation("c15.report-about-admin-record", "a status report was generated about an administrative record", wit())
				return false
			}
			if c.rpt == 1 {
				r.Violation("c15.report-to-own-endpoint", "a status report was generated although the bundle's report-to endpoint is an endpoint of this node", wit())
				return false
			}
			if c.rpt == 2 {
				r.Count("reports.to_dtn_none_(informational)", 1)
			}
			// exact reference
			rb := sr.RefBundle
			if rb.IsFragment != c.fragment || (c.fragment && (rb.FragmentOffset != m.FragOff || rb.TotalDataLength != m.Total)) {
				r.Violation("c15.report-wrong-fragment-reference", fmt.Sprintf("report references %v, the bundle is %s", rb, refID), wit())
				return false
			}
			// truthfulness per asserted item
			for pos, it := range sr.StatusInformation {
				if !it.Asserted {
					continue
				}
				kind := []string{"received", "forwarded", "delivered", "deleted"}
				if pos > 3 {
					r.Violation("c15.report-unknown-item", fmt.Sprintf("status item %d asserted", pos), wit())
					return false
				}
				r.Count("items."+kind[pos], 1)
				requested := []uint64{model.FReqRecv, model.FReqFwd, model.FReqDeliv, model.FReqDel}[pos]
				asked := m.Flags&requested != 0
				if pos == 0 && unknownReport {
					asked = true
				}
				if !asked {
					r.Violation("c15.not-requested:"+kind[pos], fmt.Sprintf("a %q report was generated although the bundle did not request it", kind[pos]), wit())
					return false
				}
				happened := true
				switch pos {
				case 1:
					happened = forwardedAt >= 0 && (callNo < 0 || forwardedAt < callNo)
				case 2:
					happened = deliveredToAgent
				case 3:
					happened = deletedForCause
				}
				if !happened {
					r.Violation("c15.untruthful:"+kind[pos]+":"+outNames[c.outcome], fmt.Sprintf("a %q report was generated but that did not happen to the bundle at this node (%s)", kind[pos], outNames[c.outcome]), wit())
					return false
				}
				if it.StatusRequested && m.Flags&model.FStatusTime == 0 {
					r.Violation("c15.time-not-requested", "status report carries a time although the bundle did not ask for times", wit())
					return false
				}
				if !it.StatusRequested && m.Flags&model.FStatusTime != 0 {
					r.Count("items.without_time_although_requested_(informational)", 1)
				}
			}
			reports = append(reports, observed{sr: sr, raw: raw})
			return true
		}
		for _, x := range s.Sends() {
			if x.ParseErr != "" {
				r.Violation("c15.emitted-unparseable", x.ParseErr, wit())
				return
			}
			if !check(x.Bundle, x.Bytes, x.CallNo, "cla") {
				return
			}
		}
		for _, d := range s.Deliveries() {
			if !check(d.Bundle, d.Bytes, -1, "agent") {
				return
			}
		}
		// converse, informational: requested and happened => some report seen
		if len(reports) > 0 {
			r.Count("scenarios.with_reports", 1)
			r.Count("scenarios.with_reports."+outNames[c.outcome], 1)
			r.Nontrivial(c.String())
		} else {
			r.Count("scenarios.without_reports", 1)
		}

		// cascade: feeding the node its own reports (and a foreign report addressed to this node) produces no report
		admBefore := countAdmin(s)
		for i, o := range reports {
			if i >= 2 {
				break
			}
			_ = s.Deliver("p", o.raw)
		}
		refB, _ := bpv7.Builder().CRC(bpv7.CRC32).Source("dtn://node/reports").Destination("dtn://other/x").CreationTimestampNow().Lifetime("1h").
			PayloadBlock([]byte("ref")).Build()
		foreign, _ := bpv7.Builder().CRC(bpv7.CRC32).Source("dtn://other/").Destination("dtn://node/reports").CreationTimestampNow().Lifetime("1h").
			StatusReport(refB, bpv7.DeliveredBundle, bpv7.NoInformation).Build()
		var fb bytes.Buffer
		_ = foreign.WriteBundle(&fb)
		_ = s.Deliver("p", fb.Bytes())
		s.Tick(10 * time.Second)
		admAfter := countAdmin(s)
		r.Count("cascade.reports_fed_back", len(reports)+1)
		if admAfter != admBefore {
			r.Violation("c15.cascade", fmt.Sprintf("feeding status reports to the node produced %d further administrative-record bundle(s)", admAfter-admBefore), wit())
		}
	})
}

// countAdmin counts distinct administrative-record bundles originated by this node.
func countAdmin(s *nodesim.Sim) int {
	ids := map[string]bool{}
	for _, x := range s.Sends() {
		if x.Bundle.Flags&model.FAdminRecord != 0 && x.Bundle.Src.Node == "node" {
			ids[x.ID] = true
		}
	}
	for _, d := range s.Deliveries() {
		if d.Bundle.Flags&model.FAdminRecord != 0 && d.Bundle.Src.Node == "node" {
			ids[d.ID] = true
		}
	}
	return len(ids)
}

func TestCheck(t *testing.T) {
	bubble.Quiet()
	bubble.SetT(t)
	r := report.Start(t, "C15")
	defer r.Finish()
	bubble.WatchDeadlocks(3, func(frame, dump string) { r.DeadlockVerdict("c15", frame, dump) })

	var cases []tcase
	reqs := []uint64{model.FReqRecv, model.FReqFwd, model.FReqDeliv, model.FReqDel}
	for mask := 0; mask < 32; mask++ {
		var f uint64
		for i, q := range reqs {
			if mask>>uint(i)&1 == 1 {
				f |= q
			}
		}
		if mask>>4&1 == 1 {
			f |= model.FStatusTime
		}
		for _, frag := range []bool{false, true} {
			for rpt := 0; rpt < 3; rpt++ {
				for out := 0; out < nOutcomes; out++ {
					cases = append(cases, tcase{f, frag, rpt, out})
				}
			}
		}
	}
	// administrative records can request nothing; they must never be reported about
	for out := 0; out < nOutcomes; out++ {
		if out == outUnknownReport {
			continue
		}
		for _, tf := range []uint64{0, model.FStatusTime} {
			cases = append(cases, tcase{model.FAdminRecord | tf, false, 0, out})
		}
	}
	stride := 1
	if !r.Thorough() {
		stride = 1
	}
	r.Group("table", len(cases)/stride, func(i int, rng *report.Rand) {
		c := cases[i*stride]
		if err := run(r, c, i); err != nil {
			r.Violation("c15.node-deadlock-or-panic", err.Error(), map[string]interface{}{"case": c.String()})
		}
		if i%577 == 0 {
			r.Sample(c.String())
		}
	})
	r.Exhaustive("request flags x time flag x fragment x report-to x outcome (full table), plus administrative records per outcome")
}
