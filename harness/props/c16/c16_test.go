package c16

import (
	"fmt"
	"os"
	"regexp"
	"runtime"
	"sort"
	"strings"
	"sync/atomic"
	"testing"
	"time"

	"github.com/dtn7/dtn7-go/pkg/cla"

	"verifh/internal/bubble"
	"verifh/internal/report"
)

// C16: the CLA manager reports an adapter active exactly while it is started.
//
// Every trace is replayed against the real cla.Manager (NewManagerVerif: retry budget and retry interval
// as parameters) inside a testing/synctest bubble.  After every step the bubble is brought to quiescence
// (bubble.Wait) and two oracles are applied:
//
//	R1 (no model)  an adapter is contained in Sender()/Receiver() (according to its role, exactly once)
//	               iff its most recent Start returned nil and it was not closed since  -- read off the
//	               call log of the scripted adapters; another instance with the same address is never
//	               started and never listed
//	R2 (model)     the Start/Close calls made during the step are those the reference state machine
//	               (model_test.go) admits for the event
//
// plus: Manager.Close stops every started adapter exactly once and returns (a bubble whose goroutines all
// block is a deadlock decided by the runtime), nothing panics.

const retryInterval = 10 * time.Second

type tev struct {
	Ev   event
	Addr uint8
}

type spec struct {
	Budget   int
	Perm     []bool
	Role     []int
	Events   []tev
	Epilogue bool
}

func (sp spec) canon() string {
	var b strings.Builder
	fmt.Fprintf(&b, "B%d", sp.Budget)
	for i := range sp.Perm {
		fmt.Fprintf(&b, "/p%v.r%d", sp.Perm[i], sp.Role[i])
	}
	for _, e := range sp.Events {
		fmt.Fprintf(&b, " %d.%d", e.Ev, e.Addr)
	}
	return b.String()
}

func (sp spec) describe(extra []tev) map[string]interface{} {
	ads := []map[string]interface{}{}
	for i := range sp.Perm {
		ads = append(ads, map[string]interface{}{"address": i, "permanent": sp.Perm[i], "role": roleNames[sp.Role[i]]})
	}
	evs := []string{}
	for i, e := range append(append([]tev{}, sp.Events...), extra...) {
		tag := ""
		if i >= len(sp.Events) {
			tag = " (epilogue)"
		}
		if e.Ev == evTick {
			evs = append(evs, fmt.Sprintf("%d: %s%s", i, e.Ev, tag))
		} else {
			evs = append(evs, fmt.Sprintf("%d: %s @%d%s", i, e.Ev, e.Addr, tag))
		}
	}
	evs = append(evs, fmt.Sprintf("%d: close", len(evs)))
	return map[string]interface{}{"retry_budget": sp.Budget, "retry_interval": retryInterval.String(), "adapters": ads,
		"events": evs}
}

type violation struct {
	sig, msg string
	witness  interface{}
}

// progress is written by the trace goroutine and read after a bubble died (deadlock).
type progress struct {
	step  int
	ev    event
	state string
	extra []tev
	log   []call
}

type counters map[string]int

func permName(p bool) string {
	if p {
		return "permanent"
	}
	return "non-permanent"
}

var digits = regexp.MustCompile(`[0-9]+`)

func errClass(s string) string {
	s = digits.ReplaceAllString(s, "N")
	s = strings.Join(strings.Fields(s), " ")
	if len(s) > 100 {
		s = s[:100]
	}
	return s
}

// runTrace replays one trace inside a bubble. It returns nil if both oracles held at every step.
// On a violation the trace is abandoned at once (the manager may be corrupt; closing it could kill the process).
func runTrace(sp spec, cnt counters, pr *progress) *violation {
	n := len(sp.Perm)
	rec := &recorder{out: make([]outcome, n)}
	mgr := cla.NewManagerVerif(int32(sp.Budget), retryInterval)
	var forwarded int64
	go func() {
		for range mgr.Channel() {
			atomic.AddInt64(&forwarded, 1)
		}
	}()
	// all events happen half an interval away from the manager's ticker: a tick step spans exactly one firing
	time.Sleep(retryInterval / 2)
	bubble.Wait()

	conv := make([]cla.Convergence, n)
	prim := make([]*base, n)
	twinConv := make([]cla.Convergence, n)
	for i := 0; i < n; i++ {
		conv[i], prim[i] = newAdapter(rec, i, false, sp.Perm[i], sp.Role[i])
		twinConv[i], _ = newAdapter(rec, i, true, sp.Perm[i], sp.Role[i])
	}
	cs := make([]cands, n)
	started := make([]bool, n)
	lastCall := make([]string, n)
	for i := range cs {
		cs[i] = cands{stAbsent}
		lastCall[i] = "none"
	}
	var extra []tev

	witness := func(stepNo int, more map[string]interface{}) map[string]interface{} {
		w := sp.describe(extra)
		w["failing_step"] = stepNo
		rec.mu.Lock()
		w["call_log"] = append([]call{}, rec.log...)
		rec.mu.Unlock()
		for k, v := range more {
			w[k] = v
		}
		return w
	}

	// callMgr runs a call into the manager on a goroutine of its own and waits for it in VIRTUAL time: the
	// timer can only fire when every goroutine of the bubble is durably blocked and 1000 retry ticks went by
	// without the call returning, i.e. the call is stuck for good (the manager's ticker keeps the bubble's
	// clock running, so the runtime's own "all goroutines are blocked" report never comes while it is armed).
	callMgr := func(f func()) (pan interface{}, hung bool) {
		done := make(chan interface{}, 1)
		go func() {
			defer func() { done <- recover() }()
			f()
		}()
		tm := time.NewTimer(1000 * retryInterval)
		defer tm.Stop()
		select {
		case p := <-done:
			return p, false
		case <-tm.C:
			return nil, true
		}
	}

	doStep := func(stepNo int, e tev, epilogue bool) *violation {
		rec.mu.Lock()
		rec.step = stepNo
		before := len(rec.log)
		rec.mu.Unlock()
		pr.step, pr.ev, pr.state, pr.extra = stepNo, e.Ev, cs[e.Addr].String()+":"+permName(sp.Perm[e.Addr]), extra
		cnt["events."+e.Ev.String()]++
		var pan interface{}
		hung := false
		a := int(e.Addr)
		switch e.Ev {
		case evSetOK, evSetFailRetry, evSetFailNoRetry:
			rec.mu.Lock()
			rec.out[a] = outcome(e.Ev)
			rec.mu.Unlock()
		case evTick:
			time.Sleep(retryInterval)
		case evLost:
			select {
			case prim[a].ch <- cla.NewConvergencePeerDisappeared(conv[a], prim[a].peer):
			default:
				return &violation{"c16.harness:status-channel-full", "harness: status channel of the adapter is full", witness(stepNo, nil)}
			}
		case evReg:
			pan, hung = callMgr(func() { mgr.Register(conv[a]) })
		case evRegTwin:
			pan, hung = callMgr(func() { mgr.Register(twinConv[a]) })
		case evUnreg:
			pan, hung = callMgr(func() { mgr.Unregister(conv[a]) })
		case evRestart:
			pan, hung = callMgr(func() { mgr.Restart(conv[a]) })
		case evClose:
			pan, hung = callMgr(func() { _ = mgr.Close() })
		}
		if pan != nil {
			return &violation{"c16.panic:" + e.Ev.String() + ":" + errClass(fmt.Sprint(pan)),
				fmt.Sprintf("step %d (%s): panic: %v", stepNo, e.Ev, pan), witness(stepNo, nil)}
		}
		if hung {
			return &violation{"c16.deadlock:" + e.Ev.String() + ":" + cs[a].String() + ":" + permName(sp.Perm[a]),
				fmt.Sprintf("step %d (%s, model state %s): the call into the manager did not return although every goroutine was blocked for 1000 retry intervals of virtual time (deadlock)", stepNo, e.Ev, cs[a]),
				witness(stepNo, nil)}
		}
		bubble.Wait()

		// calls of this step, per address
		got := make([]string, n)
		rec.mu.Lock()
		newCalls := append([]call{}, rec.log[before:]...)
		pr.log = append(pr.log[:0], rec.log...)
		rec.mu.Unlock()
		for _, c := range newCalls {
			if c.Twin {
				return &violation{"c16.duplicate-instance:" + c.What + ":" + e.Ev.String(),
					fmt.Sprintf("step %d (%s): %s was called on a second instance registered under an address that is already known", stepNo, e.Ev, c.What),
					witness(stepNo, nil)}
			}
			cnt["calls."+c.What]++
			lastCall[c.Addr] = c.What
			switch c.What {
			case "start-ok":
				got[c.Addr] += "S"
				started[c.Addr] = true
			case "close":
				got[c.Addr] += "C"
				started[c.Addr] = false
			default:
				got[c.Addr] += "S"
			}
		}

		// R2: the reference machine admits the calls
		for i := 0; i < n; i++ {
			ev := evNone
			if i == a || e.Ev == evTick || e.Ev == evClose {
				ev = e.Ev
			}
			rec.mu.Lock()
			out := rec.out[i]
			rec.mu.Unlock()
			next, want := cs[i].filter(ev, out, sp.Perm[i], sp.Budget, got[i])
			if len(next) == 0 {
				sort.Strings(want)
				q := func(s string) string {
					if s == "" {
						return "none"
					}
					return s
				}
				ws := []string{}
				for _, w := range want {
					ws = append(ws, q(w))
				}
				evn := ev.String()
				if ev == evNone {
					evn = "other-address-" + e.Ev.String()
				}
				// the scripted outcome belongs to the class of the failing history only if a Start is involved
				oc := ""
				if strings.Contains(got[i]+strings.Join(want, ""), "S") {
					oc = ":next-start-" + out.String()
				}
				sig := fmt.Sprintf("c16.calls:%s:%s:%s%s:want=%s:got=%s", evn, cs[i], permName(sp.Perm[i]), oc,
					strings.Join(ws, "|"), q(got[i]))
				return &violation{sig, fmt.Sprintf("step %d (%s): address %d (%s, model state %s, scripted outcome %s): the manager made the calls [%s] on the adapter, the reference machine admits %v (S=Start, C=Close)",
					stepNo, e.Ev, i, permName(sp.Perm[i]), cs[i], out, q(got[i]), ws),
					witness(stepNo, map[string]interface{}{"model_states_before": fmt.Sprint(cs[i]), "admitted_calls": ws, "observed_calls": q(got[i])})}
			}
			// event statistics
			switch {
			case ev == evTick && strings.Contains(got[i], "S"):
				cnt["retries.attempted_on_tick"]++
				if epilogue && sp.Perm[i] {
					cnt["forever.ticks_with_attempt_after_budget"]++
				}
			case ev == evTick && !sp.Perm[i] && cs[i].has(stInactive(0, false)) && got[i] == "":
				cnt["forgotten.nonpermanent_after_budget"]++
			case ev == evLost && strings.HasPrefix(got[i], "C"):
				cnt["peer_loss.restarts"]++
			case ev == evRegTwin:
				cnt["duplicate_registration.refused"]++
			case ev == evReg && cs[i].all(active):
				cnt["duplicate_registration.same_instance_ignored"]++
			case ev == evRestart && strings.HasPrefix(got[i], "C"):
				cnt["restart.stopped_and_started_again"]++
			case ev == evUnreg && got[i] == "C":
				cnt["unregister.stopped"]++
			case ev == evClose && got[i] == "C":
				cnt["close.adapters_stopped"]++
			}
			if len(cs[i]) > 1 && len(next) == 1 {
				cnt["model.ambiguity_resolved_by_observation"]++
			}
			cs[i] = next
		}

		// R1: listed iff started
		var sl []cla.ConvergenceSender
		var rl []cla.ConvergenceReceiver
		if p, _ := callMgr(func() { sl, rl = mgr.Sender(), mgr.Receiver() }); p != nil {
			return &violation{"c16.panic:listing:" + errClass(fmt.Sprint(p)), fmt.Sprintf("step %d: Sender()/Receiver() panicked: %v", stepNo, p), witness(stepNo, nil)}
		}
		inS := make([]int, n)
		inR := make([]int, n)
		for _, s := range sl {
			known := false
			for i := 0; i < n; i++ {
				if cla.Convergence(s) == conv[i] {
					inS[i]++
					known = true
				}
			}
			if !known {
				return &violation{"c16.listing:unexpected-sender", fmt.Sprintf("step %d: Sender() lists %v which is not a registered primary instance", stepNo, s), witness(stepNo, nil)}
			}
		}
		for _, s := range rl {
			known := false
			for i := 0; i < n; i++ {
				if cla.Convergence(s) == conv[i] {
					inR[i]++
					known = true
				}
			}
			if !known {
				return &violation{"c16.listing:unexpected-receiver", fmt.Sprintf("step %d: Receiver() lists %v which is not a registered primary instance", stepNo, s), witness(stepNo, nil)}
			}
		}
		for i := 0; i < n; i++ {
			wantS, wantR := 0, 0
			if started[i] && sp.Role[i] != roleReceiver {
				wantS = 1
			}
			if started[i] && sp.Role[i] != roleSender {
				wantR = 1
			}
			if inS[i] == wantS && inR[i] == wantR {
				if started[i] {
					cnt["listing.checked_active"]++
				} else {
					cnt["listing.checked_not_active"]++
				}
				continue
			}
			rule := "started-not-listed"
			if inS[i] > wantS || inR[i] > wantR {
				rule = "listed-not-started"
				if started[i] {
					rule = "listed-more-than-once"
				}
			}
			sig := fmt.Sprintf("c16.%s:last-call-%s:%s", rule, lastCall[i], permName(sp.Perm[i]))
			return &violation{sig, fmt.Sprintf("step %d (%s): address %d (%s, role %s): started=%v (last call on the adapter: %s) but it is contained %d time(s) in Sender() and %d time(s) in Receiver()",
				stepNo, e.Ev, i, permName(sp.Perm[i]), roleNames[sp.Role[i]], started[i], lastCall[i], inS[i], inR[i]),
				witness(stepNo, map[string]interface{}{"started_per_call_log": started[i], "in_sender_list": inS[i], "in_receiver_list": inR[i]})}
		}
		return nil
	}

	// diagnostic only (VERIF_C16_CLOSE_ANYWAY=1): close the manager after a violation to see what the
	// corrupt state leads to; a panic on the manager's goroutine then kills the process (driver: crash:...).
	fail := func(v *violation) *violation {
		if os.Getenv("VERIF_C16_CLOSE_ANYWAY") != "" {
			callMgr(func() { _ = mgr.Close() })
		}
		return v
	}

	stepNo := 0
	for _, e := range sp.Events {
		if v := doStep(stepNo, e, false); v != nil {
			return fail(v)
		}
		stepNo++
	}

	// epilogue: bounded form of "retried for ever" / "only for its budget, then forgotten"
	if sp.Epilogue {
		ticks := 0
		for i := 0; i < n; i++ {
			if len(cs[i]) != 1 || cs[i][0].k != inactive {
				continue
			}
			if rec.out[i] != outFailRetry {
				extra = append(extra, tev{evSetFailRetry, uint8(i)})
			}
			t := int(cs[i][0].left) + 2
			if sp.Perm[i] {
				t = 3*sp.Budget + 5
			}
			if t > ticks {
				ticks = t
			}
		}
		for k := 0; k < ticks; k++ {
			extra = append(extra, tev{evTick, 0})
		}
		if ticks > 0 {
			cnt["epilogue.traces"]++
		}
		for _, e := range append([]tev{}, extra...) {
			if v := doStep(stepNo, e, true); v != nil {
				return fail(v)
			}
			stepNo++
		}
	}

	// closing the manager stops every started adapter exactly once
	if v := doStep(stepNo, tev{evClose, 0}, false); v != nil {
		return v
	}
	rec.mu.Lock()
	defer rec.mu.Unlock()
	for i := 0; i < n; i++ {
		ok, cl := 0, 0
		for _, c := range rec.log {
			if c.Addr == i && !c.Twin {
				switch c.What {
				case "start-ok":
					ok++
				case "close":
					cl++
				}
			}
		}
		if ok != cl {
			return &violation{"c16.close-balance:" + permName(sp.Perm[i]), fmt.Sprintf("after Close: address %d was started %d time(s) and closed %d time(s)", i, ok, cl),
				sp.describe(extra)}
		}
	}
	cnt["status_messages.forwarded"] += int(atomic.LoadInt64(&forwarded))
	cnt["steps"] += stepNo + 1
	return nil
}

// replay runs one trace in a bubble of its own.
func replay(t *testing.T, sp spec, cnt counters) *violation {
	var v *violation
	pr := &progress{}
	finished := false
	err := bubble.Run(t, func(t *testing.T) {
		v = runTrace(sp, cnt, pr)
		finished = true
	})
	if v != nil {
		return v // the bubble was abandoned with the manager still running; its end-of-bubble report is expected
	}
	if err != nil {
		cls := errClass(err.Error())
		kindOf := "bubble-panic"
		if strings.Contains(err.Error(), "deadlock") {
			kindOf = "deadlock"
		}
		w := sp.describe(pr.extra)
		w["failing_step"] = pr.step
		w["call_log"] = pr.log
		w["trace_function_returned"] = finished
		return &violation{fmt.Sprintf("c16.%s:%s:%s:%s", kindOf, pr.ev, pr.state, cls),
			fmt.Sprintf("step %d (%s, model state %s): %v", pr.step, pr.ev, pr.state, err), w}
	}
	return nil
}

// ---------------------------------------------------------------------------------------------------------
// exhaustive enumeration (one address)

type enode struct {
	evs     []event
	cs      cands
	cur     outcome
	prevSet bool
}

func (n enode) child(ev event, perm bool, budget int) enode {
	c := enode{evs: append(append([]event{}, n.evs...), ev), cur: n.cur}
	switch ev {
	case evSetOK, evSetFailRetry, evSetFailNoRetry:
		c.cur = outcome(ev)
		c.prevSet = true
		c.cs = n.cs
	default:
		c.cs = n.cs.advance(ev, n.cur, perm, budget)
	}
	return c
}

// walk visits every trace (node) of the tree below n, n included, down to length limit; maxLen is the
// length of the longest traces of the tier (an outcome event in that last position would be unobservable).
func walk(n enode, perm bool, budget, limit, maxLen int, visit func(enode)) {
	visit(n)
	if len(n.evs) >= limit {
		return
	}
	for ev := event(0); int(ev) < numChoices; ev++ {
		if enabled(n.cs, ev, n.cur, n.prevSet, len(n.evs)+1 == maxLen) {
			walk(n.child(ev, perm, budget), perm, budget, limit, maxLen, visit)
		}
	}
}

type batch struct {
	perm    bool
	budget  int
	root    enode
	shallow bool // all traces shorter than the batch depth (root = empty trace)
}

func makeBatches(maxLen, depth int) (bs []batch) {
	for _, perm := range []bool{false, true} {
		for budget := 0; budget <= 3; budget++ {
			root := enode{cs: cands{stAbsent}, cur: outOK}
			bs = append(bs, batch{perm, budget, root, true})
			walk(root, perm, budget, depth, maxLen, func(n enode) {
				if len(n.evs) == depth {
					bs = append(bs, batch{perm, budget, n, false})
				}
			})
		}
	}
	return
}

func toSpec(perm bool, budget int, role int, evs []event) spec {
	sp := spec{Budget: budget, Perm: []bool{perm}, Role: []int{role}, Epilogue: true}
	for _, e := range evs {
		sp.Events = append(sp.Events, tev{e, 0})
	}
	return sp
}

// ---------------------------------------------------------------------------------------------------------
// seeded walks over several addresses

func genMulti(rng *report.Rand) spec {
	n := 2 + rng.Intn(3)
	sp := spec{Budget: rng.Intn(4), Epilogue: rng.Intn(4) == 0}
	for i := 0; i < n; i++ {
		sp.Perm = append(sp.Perm, rng.Bool())
		sp.Role = append(sp.Role, rng.Intn(3))
	}
	length := 6 + rng.Intn(35)
	cs := make([]cands, n)
	cur := make([]outcome, n)
	for i := range cs {
		cs[i] = cands{stAbsent}
	}
	prevSetAddr := -1
	for len(sp.Events) < length {
		type choice struct {
			ev event
			a  int
		}
		var opts []choice
		last := len(sp.Events)+1 == length
		for a := 0; a < n; a++ {
			for ev := event(0); int(ev) < numChoices; ev++ {
				if ev == evTick {
					continue
				}
				if enabled(cs[a], ev, cur[a], prevSetAddr == a, last) {
					opts = append(opts, choice{ev, a})
				}
			}
		}
		// ticks are as likely as all events of one address together
		var c choice
		if rng.Intn(n+1) == 0 || len(opts) == 0 {
			c = choice{evTick, 0}
		} else {
			c = opts[rng.Intn(len(opts))]
		}
		sp.Events = append(sp.Events, tev{c.ev, uint8(c.a)})
		prevSetAddr = -1
		switch c.ev {
		case evSetOK, evSetFailRetry, evSetFailNoRetry:
			cur[c.a] = outcome(c.ev)
			prevSetAddr = c.a
		case evTick:
			for a := 0; a < n; a++ {
				cs[a] = cs[a].advance(evTick, cur[a], sp.Perm[a], sp.Budget)
			}
		default:
			cs[c.a] = cs[c.a].advance(c.ev, cur[c.a], sp.Perm[c.a], sp.Budget)
		}
	}
	return sp
}

// ---------------------------------------------------------------------------------------------------------

const abandonCap = 150 // abandoned bubbles leak the goroutines of a possibly corrupt manager; bound them per process

func TestCheck(t *testing.T) {
	bubble.Quiet()
	// a trace is a chain of goroutine hand-overs inside one bubble; with one P these are plain run-queue
	// switches (4-5x faster than futex wake-ups across Ps), and the driver runs one shard process per core
	runtime.GOMAXPROCS(1)
	r := report.Start(t, "C16")
	defer r.Finish()

	bubble.SetT(t)
	stressGroups(r)

	abandoned := 0
	samples := 0
	runOne := func(sp spec, cnt counters, sampleIt bool) {
		if abandoned >= abandonCap {
			cnt["traces.skipped_after_violation_cap"]++
			return
		}
		v := replay(t, sp, cnt)
		cnt["traces"]++
		if v != nil {
			abandoned++
			r.Violation(v.sig, v.msg, v.witness)
			return
		}
		failed := false
		for _, e := range sp.Events {
			if e.Ev == evSetFailRetry || e.Ev == evSetFailNoRetry {
				failed = true
			}
		}
		if failed {
			cnt["traces.with_failing_start"]++
			// thorough: the distinct-case hashes are a 1-in-8 sample (the driver holds them all in memory)
			if !r.Thorough() || cnt["traces.with_failing_start"]%8 == 0 {
				r.Nontrivial(sp.canon())
			}
			if sampleIt && samples < 2 {
				samples++
				r.Sample(sp.describe(nil))
			}
		}
	}
	flush := func(cnt counters) {
		ev := 0
		for k, v := range cnt {
			r.Count(k, v)
			if k == "steps" {
				ev = v
			}
		}
		if ev > 0 {
			r.Evals(ev)
		}
	}

	// (1) all event sequences up to maxLen for one address x permanent/non-permanent x budget 0..3
	maxLen := r.Pick(6, 8)
	bs := makeBatches(maxLen, maxLen-3)
	r.Group("exh", len(bs), func(i int, rng *report.Rand) {
		b := bs[i]
		cnt := counters{}
		k := 0
		limit := maxLen
		if b.shallow {
			limit = maxLen - 3 - 1
		}
		walk(b.root, b.perm, b.budget, limit, maxLen, func(n enode) {
			role := (i + k) % 3
			k++
			runOne(toSpec(b.perm, b.budget, role, n.evs), cnt, len(n.evs) == maxLen && i%97 == 0 && k%5 == 0)
		})
		flush(cnt)
	})
	if abandoned < abandonCap {
		r.Exhaustive(fmt.Sprintf("all enabled event sequences up to length %d (plus final close) for one address x permanent/non-permanent x retry budget 0..3", maxLen))
	}

	// (2) seeded walks over 2..4 addresses (tick and close act on several adapters at once)
	nMulti := r.Pick(20000, 200000)
	per := 50
	r.Group("multi", (nMulti+per-1)/per, func(i int, rng *report.Rand) {
		cnt := counters{}
		for k := 0; k < per; k++ {
			sp := genMulti(rng)
			cnt["multi.traces"]++
			runOne(sp, cnt, i < 2 && k == 0)
		}
		flush(cnt)
	})
}
