package c16

import (
	"errors"
	"fmt"
	"sync"

	"github.com/dtn7/dtn7-go/pkg/bpv7"
	"github.com/dtn7/dtn7-go/pkg/cla"
)

// call is one entry of the Start/Close call log of the scripted adapters.
type call struct {
	Step int    `json:"step"`
	Addr int    `json:"address"`
	Twin bool   `json:"twin_instance,omitempty"`
	What string `json:"call"` // start-ok, start-fail-retry, start-fail-noretry, close
}

// recorder is shared by all adapters of one trace.
type recorder struct {
	mu   sync.Mutex
	step int
	log  []call
	out  []outcome // scripted outcome per address (sticky)
}

var errStart = errors.New("scripted start failure")

// base is a scripted convergence adapter: Start returns the scripted outcome, every Start/Close is logged.
type base struct {
	rec  *recorder
	idx  int
	twin bool
	addr string
	perm bool
	ch   chan cla.ConvergenceStatus
	eid  bpv7.EndpointID
	peer bpv7.EndpointID
}

func (b *base) Start() (error, bool) {
	b.rec.mu.Lock()
	defer b.rec.mu.Unlock()
	o := outOK
	if !b.twin {
		o = b.rec.out[b.idx]
	}
	b.rec.log = append(b.rec.log, call{b.rec.step, b.idx, b.twin, "start-" + o.String()})
	switch o {
	case outOK:
		return nil, false
	case outFailRetry:
		return errStart, true
	default:
		return errStart, false
	}
}

func (b *base) Close() error {
	b.rec.mu.Lock()
	defer b.rec.mu.Unlock()
	b.rec.log = append(b.rec.log, call{b.rec.step, b.idx, b.twin, "close"})
	return nil
}

func (b *base) Channel() chan cla.ConvergenceStatus { return b.ch }
func (b *base) Address() string                     { return b.addr }
func (b *base) IsPermanent() bool                   { return b.perm }
func (b *base) String() string {
	return fmt.Sprintf("scripted(%s,twin=%v)", b.addr, b.twin)
}

type senderAd struct{ base }

func (s *senderAd) Send(bpv7.Bundle) error             { return nil }
func (s *senderAd) GetPeerEndpointID() bpv7.EndpointID { return s.peer }

type recvAd struct{ base }

func (r *recvAd) GetEndpointID() bpv7.EndpointID { return r.eid }

type bothAd struct{ base }

func (s *bothAd) Send(bpv7.Bundle) error             { return nil }
func (s *bothAd) GetPeerEndpointID() bpv7.EndpointID { return s.peer }
func (s *bothAd) GetEndpointID() bpv7.EndpointID     { return s.eid }

const (
	roleBoth = iota
	roleSender
	roleReceiver
)

var roleNames = [...]string{"sender+receiver", "sender", "receiver"}

// endpoint IDs: all distinct, so that the manager's "sender towards a registered receiver" rule never applies.
var eidTable [8][2][2]bpv7.EndpointID

func init() {
	for a := range eidTable {
		for tw := 0; tw < 2; tw++ {
			eidTable[a][tw][0] = bpv7.MustNewEndpointID(fmt.Sprintf("dtn://c16-own-%d-%d/", a, tw))
			eidTable[a][tw][1] = bpv7.MustNewEndpointID(fmt.Sprintf("dtn://c16-peer-%d-%d/", a, tw))
		}
	}
}

func newAdapter(rec *recorder, idx int, twin bool, perm bool, role int) (cla.Convergence, *base) {
	tw := 0
	if twin {
		tw = 1
	}
	b := base{rec: rec, idx: idx, twin: twin, addr: fmt.Sprintf("scripted://adapter-%d", idx), perm: perm,
		ch: make(chan cla.ConvergenceStatus, 4), eid: eidTable[idx][tw][0], peer: eidTable[idx][tw][1]}
	switch role {
	case roleSender:
		a := &senderAd{b}
		return a, &a.base
	case roleReceiver:
		a := &recvAd{b}
		return a, &a.base
	default:
		a := &bothAd{b}
		return a, &a.base
	}
}
