package c16

// Reference state machine for C16, written from the property statement (not from pkg/cla).
//
// Per address the manager is in one of {absent, inactive(left), active}:
//
//	absent        the manager does not know the address (never registered, unregistered, forgotten)
//	inactive(n)   known, not started; a non-permanent adapter has n start attempts left (its retry budget);
//	              for a permanent adapter the budget is irrelevant (it is retried for ever) and not tracked
//	active        the most recent Start returned nil and the adapter was not stopped since
//
// A transition names the calls the manager has to make on the adapter during the step ("S" = one Start,
// "C" = one Close, in this order) and the next state.  Where the statement is silent the machine is
// nondeterministic (several alternatives); the replay keeps the set of states that are consistent with the
// calls actually observed.  The silent points are:
//
//	N1  WHEN an adapter whose budget is used up / that asked for no retry is forgotten: at once or at the next
//	    retry tick (nothing may be started in between either way)
//	N2  a permanent adapter whose Start fails with "do not retry": forgotten (the flag wins) or kept and
//	    retried for ever (permanence wins)
//	N3  whether registering a known, not started adapter again triggers an immediate start attempt
//
// The retry budget is the number of start attempts a non-permanent adapter gets (the registration attempt
// included; properties.jsonl: "remaining start attempts, decremented on every failed retryable start").

type kind uint8

const (
	absent kind = iota
	inactive
	active
)

func (k kind) String() string { return [...]string{"absent", "inactive", "active"}[k] }

type mstate struct {
	k    kind
	left int8 // remaining start attempts; only meaningful for inactive && !permanent, otherwise -1
}

var (
	stAbsent = mstate{absent, -1}
	stActive = mstate{active, -1}
)

func stInactive(left int, perm bool) mstate {
	if perm {
		return mstate{inactive, -1}
	}
	return mstate{inactive, int8(left)}
}

type outcome uint8

const (
	outOK outcome = iota
	outFailRetry
	outFailNoRetry
)

func (o outcome) String() string { return [...]string{"ok", "fail-retry", "fail-noretry"}[o] }

type event uint8

const (
	evSetOK event = iota // scripted outcome of the following Start calls
	evSetFailRetry
	evSetFailNoRetry
	evTick     // one retry interval passes
	evLost     // the started adapter reports PeerDisappeared
	evReg      // Manager.Register(adapter)
	evRegTwin  // Manager.Register(another instance with the same address)
	evUnreg    // Manager.Unregister(adapter)
	evRestart  // Manager.Restart(adapter)
	evClose    // Manager.Close()  (always the last step of a trace)
	evNone     // a step that concerns another address
	numChoices = int(evRestart) + 1
)

var evNames = [...]string{"start-succeeds", "start-fails-retry", "start-fails-noretry", "tick", "peer-lost", "register",
	"register-again", "unregister", "restart", "close", "-"}

func (e event) String() string { return evNames[e] }

type alt struct {
	calls string // calls on the adapter during the step: "", "S", "C", "CS"
	next  mstate
}

// attempt: the manager tries to start an adapter that has `left` attempts left.
// fresh = the address was absent before this registration.
func attempt(left int, fresh bool, out outcome, perm bool) []alt {
	if !perm && left <= 0 {
		// budget used up: no attempt, forgotten (N1)
		if fresh {
			return []alt{{"", stAbsent}}
		}
		return []alt{{"", stInactive(0, false)}, {"", stAbsent}}
	}
	switch out {
	case outOK:
		return []alt{{"S", stActive}}
	case outFailRetry:
		if perm {
			return []alt{{"S", stInactive(0, true)}}
		}
		if left-1 > 0 {
			return []alt{{"S", stInactive(left-1, false)}}
		}
		return []alt{{"S", stInactive(0, false)}, {"S", stAbsent}} // N1
	default: // outFailNoRetry
		if perm {
			return []alt{{"S", stAbsent}, {"S", stInactive(0, true)}} // N2
		}
		return []alt{{"S", stAbsent}, {"S", stInactive(0, false)}} // N1
	}
}

func prefix(p string, as []alt) []alt {
	out := make([]alt, len(as))
	for i, a := range as {
		out[i] = alt{p + a.calls, a.next}
	}
	return out
}

// step returns the admissible (calls, next state) pairs of one event for one address.
func step(s mstate, ev event, out outcome, perm bool, budget int) []alt {
	switch ev {
	case evTick:
		if s.k != inactive {
			return []alt{{"", s}}
		}
		if !perm && s.left <= 0 {
			return []alt{{"", stAbsent}} // forgotten at the latest now, without another Start
		}
		return attempt(int(s.left), false, out, perm)
	case evReg:
		switch s.k {
		case absent:
			return attempt(budget, true, out, perm)
		case active:
			return []alt{{"", s}}
		default:
			return append(attempt(int(s.left), false, out, perm), alt{"", s}) // N3
		}
	case evRegTwin:
		if s.k == active {
			return []alt{{"", s}} // single instance: nothing is started, nothing is stopped
		}
		return nil // not generated
	case evUnreg:
		if s.k == active {
			return []alt{{"C", stAbsent}}
		}
		return []alt{{"", stAbsent}}
	case evRestart:
		if s.k == active {
			return prefix("C", attempt(budget, true, out, perm))
		}
		return attempt(budget, true, out, perm)
	case evLost:
		if s.k == active {
			return prefix("C", attempt(budget, true, out, perm))
		}
		return nil // not generated: only a started adapter can report
	case evClose:
		if s.k == active {
			return []alt{{"C", stAbsent}}
		}
		return []alt{{"", stAbsent}}
	default: // evSet*, evNone
		return []alt{{"", s}}
	}
}

// cands is a small set of model states.
type cands []mstate

func (c cands) has(s mstate) bool {
	for _, x := range c {
		if x == s {
			return true
		}
	}
	return false
}

func (c cands) all(k kind) bool {
	for _, x := range c {
		if x.k != k {
			return false
		}
	}
	return len(c) > 0
}

func (c cands) anyKnown() bool {
	for _, x := range c {
		if x.k != absent {
			return true
		}
	}
	return false
}

func (c cands) String() string {
	// class only (no numbers): used in signatures
	seen := map[string]bool{}
	out := ""
	for _, k := range []kind{absent, inactive, active} {
		for _, x := range c {
			if x.k == k && !seen[k.String()] {
				seen[k.String()] = true
				if out != "" {
					out += "|"
				}
				out += k.String()
			}
		}
	}
	return out
}

// advance: all states reachable by the event (offline, no observation).
func (c cands) advance(ev event, out outcome, perm bool, budget int) cands {
	var n cands
	for _, s := range c {
		for _, a := range step(s, ev, out, perm, budget) {
			if !n.has(a.next) {
				n = append(n, a.next)
			}
		}
	}
	return n
}

// filter: states reachable by the event under the observed calls; want lists the admissible call strings.
func (c cands) filter(ev event, out outcome, perm bool, budget int, got string) (n cands, want []string) {
	for _, s := range c {
		for _, a := range step(s, ev, out, perm, budget) {
			dup := false
			for _, w := range want {
				if w == a.calls {
					dup = true
				}
			}
			if !dup {
				want = append(want, a.calls)
			}
			if a.calls == got && !n.has(a.next) {
				n = append(n, a.next)
			}
		}
	}
	return
}

// enabled decides (offline) whether an event is generated in a state set.
func enabled(c cands, ev event, cur outcome, prevWasSet, last bool) bool {
	switch ev {
	case evSetOK, evSetFailRetry, evSetFailNoRetry:
		// re-scripting is only observable through a later Start
		return !prevWasSet && !last && outcome(ev) != cur
	case evTick, evReg:
		return true
	case evLost, evRegTwin:
		return c.all(active)
	case evUnreg, evRestart:
		return c.anyKnown()
	}
	return false
}
