package c16

// Two scenario families that the step-by-step replay (one event, then quiescence) cannot produce:
//
//	S1  events that arrive while the manager is still busy with the previous one: an adapter whose Close takes
//	    (virtual) time reports its peer lost several times in a row, and Manager.Close is called while that is
//	    being worked on.  (Manager.Restart is only ever called by the manager's own goroutine in this code base;
//	    calling it from outside concurrently with a reported loss is not a history the property quantifies over -
//	    it was tried during bring-up and does dead-lock / double-close the unchanged manager.)  Oracle (from the statement, no model): the adapter's call log is
//	    start, close, start, close, ... - a started adapter is never started again without having been closed,
//	    never closed twice, every successful Start is matched by exactly one Close once the manager is closed -
//	    it is restarted once per reported loss when given the time, nothing panics, Close returns.
//	S2  status traffic: a healthy adapter reports received bundles several times per retry interval while other
//	    adapters keep failing.  Oracle: the failing adapters are attempted exactly as often as without the traffic
//	    ("retried at the retry interval" does not depend on what other adapters report): a permanent one once per
//	    interval for ever, a non-permanent one until its budget is used up, after which it is forgotten.

import (
	"fmt"
	"sync"
	"sync/atomic"
	"testing"
	"time"

	"github.com/dtn7/dtn7-go/pkg/bpv7"
	"github.com/dtn7/dtn7-go/pkg/cla"

	"verifh/internal/bubble"
	"verifh/internal/report"
)

// slowAd is a sender+receiver adapter whose Close takes closeDelay and whose Start outcome is scripted.
type slowAd struct {
	mu         sync.Mutex
	log        []string
	addr       string
	perm       bool
	fail       bool
	closeDelay time.Duration
	ch         chan cla.ConvergenceStatus
	eid, peer  bpv7.EndpointID
	inClose    int32
	overlap    int32
}

func (a *slowAd) note(s string) {
	a.mu.Lock()
	a.log = append(a.log, s)
	a.mu.Unlock()
}
func (a *slowAd) calls() []string {
	a.mu.Lock()
	defer a.mu.Unlock()
	return append([]string{}, a.log...)
}
func (a *slowAd) Start() (error, bool) {
	if atomic.LoadInt32(&a.inClose) > 0 {
		atomic.AddInt32(&a.overlap, 1)
	}
	a.mu.Lock()
	f := a.fail
	a.mu.Unlock()
	if f {
		a.note("start-fail")
		return errStart, true
	}
	a.note("start-ok")
	return nil, false
}
func (a *slowAd) Close() error {
	if atomic.AddInt32(&a.inClose, 1) > 1 {
		atomic.AddInt32(&a.overlap, 1)
	}
	a.note("close")
	if a.closeDelay > 0 {
		time.Sleep(a.closeDelay)
	}
	atomic.AddInt32(&a.inClose, -1)
	return nil
}
func (a *slowAd) Channel() chan cla.ConvergenceStatus { return a.ch }
func (a *slowAd) Address() string                     { return a.addr }
func (a *slowAd) IsPermanent() bool                   { return a.perm }
func (a *slowAd) String() string                      { return "slow(" + a.addr + ")" }
func (a *slowAd) Send(bpv7.Bundle) error              { return nil }
func (a *slowAd) GetPeerEndpointID() bpv7.EndpointID  { return a.peer }
func (a *slowAd) GetEndpointID() bpv7.EndpointID      { return a.eid }

func newSlow(i int, perm bool, d time.Duration) *slowAd {
	return &slowAd{addr: fmt.Sprintf("slow://adapter-%d", i), perm: perm, closeDelay: d, ch: make(chan cla.ConvergenceStatus, 16),
		eid: eidTable[i][0][0], peer: eidTable[i][0][1]}
}

type burstCase struct {
	losses     int           // peer-loss reports sent back to back
	closeDelay time.Duration // how long the adapter's Close takes
	gap        time.Duration // virtual time between the reports (0 = all queued at once)
	then       int           // 0: wait, then close the manager; 1: close the manager at once (while the losses are still being worked on)
	perm       bool
}

func (c burstCase) String() string {
	return fmt.Sprintf("losses=%d closeDelay=%s gap=%s then=%s permanent=%v", c.losses, c.closeDelay, c.gap,
		[]string{"wait+close", "close-at-once"}[c.then], c.perm)
}

// burst runs S1. A panic on the manager's own goroutine ends the process; the driver attributes it to the journalled case.
func burst(r *report.Run, c burstCase) {
	var log []string
	var overlap int32
	var closeReturned, listedAfter bool
	var restartsDone int
	err := bubble.Run(nil, func(t *testing.T) {
		mgr := cla.NewManagerVerif(3, retryInterval)
		go func() {
			for range mgr.Channel() {
			}
		}()
		time.Sleep(retryInterval / 2)
		bubble.Wait()
		a := newSlow(0, c.perm, c.closeDelay)
		mgr.Register(a)
		bubble.Wait()
		for i := 0; i < c.losses; i++ {
			a.ch <- cla.NewConvergencePeerDisappeared(a, a.peer)
			if c.gap > 0 {
				time.Sleep(c.gap)
			}
		}
		switch c.then {
		case 0:
			time.Sleep(time.Duration(c.losses+2)*c.closeDelay + time.Second)
			bubble.Wait()
		}
		if c.then != 1 {
			for _, s := range a.calls() {
				if s == "start-ok" {
					restartsDone++
				}
			}
			for _, s := range mgr.Sender() {
				if cla.Convergence(s) == cla.Convergence(a) {
					listedAfter = true
				}
			}
		}
		done := make(chan struct{})
		go func() { _ = mgr.Close(); close(done) }()
		tm := time.NewTimer(1000 * retryInterval)
		select {
		case <-done:
			closeReturned = true
		case <-tm.C:
		}
		tm.Stop()
		bubble.Wait()
		log = a.calls()
		overlap = atomic.LoadInt32(&a.overlap)
	})
	wit := map[string]interface{}{"case": c.String(), "call_log": log}
	if err != nil {
		r.Violation("c16.burst.bubble-panic:"+errClass(err.Error()), fmt.Sprintf("%s: %v", c, err), wit)
		return
	}
	if !closeReturned {
		r.Violation("c16.burst.close-does-not-return", fmt.Sprintf("%s: Manager.Close did not return within 1000 retry intervals of virtual time", c), wit)
		return
	}
	// alternating start-ok / close, beginning with a start, ending with a close
	for i, s := range log {
		want := "start-ok"
		if i%2 == 1 {
			want = "close"
		}
		if s != want {
			cls := "started-twice-without-close"
			if s == "close" {
				cls = "closed-twice"
			}
			r.Violation("c16.burst.calls-not-alternating:"+cls, fmt.Sprintf("%s: call %d on the adapter is %q where %q is due (a started adapter must be closed exactly once before it is started again)", c, i, s, want), wit)
			return
		}
	}
	if len(log)%2 != 0 {
		r.Violation("c16.burst.started-adapter-not-closed", fmt.Sprintf("%s: after Manager.Close the adapter's last successful Start has no matching Close", c), wit)
		return
	}
	if overlap > 0 {
		r.Violation("c16.burst.overlapping-start-close", fmt.Sprintf("%s: Start/Close of one adapter were called while another Close of it was still running (%d times)", c, overlap), wit)
		return
	}
	if c.then == 0 {
		// given the time, every reported loss restarts the adapter: 1 start at registration + one per loss
		if restartsDone != 1+c.losses {
			r.Violation("c16.burst.restarts-per-loss", fmt.Sprintf("%s: %d peer losses were reported, the adapter was started %d times in all (expected %d)", c, c.losses, restartsDone, 1+c.losses), wit)
			return
		}
		if !listedAfter {
			r.Violation("c16.burst.not-listed-after-restart", fmt.Sprintf("%s: the restarted adapter is not listed as an active sender", c), wit)
			return
		}
	}
	r.Count("burst.scenarios", 1)
	r.Count("burst.peer_losses_reported", c.losses)
	r.Count("burst.adapter_calls_checked", len(log))
	r.Nontrivial("burst", c.String())
}

type trafficCase struct {
	budget   int
	perSlot  int // status messages of the healthy adapter per retry interval
	slots    int // retry intervals observed
	traffic  bool
}

// retrySchedule runs S2 once and returns the number of Start calls on the permanent and the non-permanent failing
// adapter, and whether the non-permanent one is still known to the manager at the end.
func retrySchedule(c trafficCase) (permStarts, tempStarts int, tempListedOrRetried bool, msgs int, err error) {
	err = bubble.Run(nil, func(t *testing.T) {
		mgr := cla.NewManagerVerif(int32(c.budget), retryInterval)
		var fwd int64
		go func() {
			for range mgr.Channel() {
				atomic.AddInt64(&fwd, 1)
			}
		}()
		time.Sleep(retryInterval / 2)
		bubble.Wait()
		healthy := newSlow(0, false, 0)
		p := newSlow(1, true, 0)
		p.fail = true
		n := newSlow(2, false, 0)
		n.fail = true
		mgr.Register(healthy)
		mgr.Register(p)
		mgr.Register(n)
		bubble.Wait()
		b, _ := bpv7.Builder().CRC(bpv7.CRC32).Source("dtn://x/").Destination("dtn://y/").CreationTimestampNow().Lifetime("1h").PayloadBlock([]byte("t")).Build()
		for s := 0; s < c.slots; s++ {
			for k := 0; k < c.perSlot; k++ {
				if c.traffic {
					select {
					case healthy.ch <- cla.NewConvergenceReceivedBundle(healthy, healthy.eid, &b):
						msgs++
					default: // not started (cannot happen with a budget >= 1): never block the scenario
					}
				}
				time.Sleep(retryInterval / time.Duration(c.perSlot))
				bubble.Wait()
			}
		}
		before := len(n.calls())
		// two more quiet intervals: a forgotten adapter is not attempted any more
		time.Sleep(2 * retryInterval)
		bubble.Wait()
		tempListedOrRetried = len(n.calls()) != before
		for _, s := range p.calls()[:] {
			if s == "start-fail" {
				permStarts++
			}
		}
		for _, s := range n.calls()[:before] {
			if s == "start-fail" {
				tempStarts++
			}
		}
		// permanent adapter: count only the observed window (the two quiet intervals add two attempts)
		permStarts -= 2
		done := make(chan struct{})
		go func() { _ = mgr.Close(); close(done) }()
		<-done
		bubble.Wait()
	})
	return
}

func traffic(r *report.Run, c trafficCase) {
	quiet := c
	quiet.traffic = false
	p0, n0, late0, _, err0 := retrySchedule(quiet)
	p1, n1, late1, msgs, err1 := retrySchedule(c)
	wit := map[string]interface{}{"budget": c.budget, "status_messages_per_interval": c.perSlot, "intervals": c.slots,
		"starts_permanent_quiet": p0, "starts_permanent_with_traffic": p1, "starts_nonpermanent_quiet": n0, "starts_nonpermanent_with_traffic": n1}
	if err0 != nil || err1 != nil {
		r.Violation("c16.traffic.bubble-panic", fmt.Sprintf("%v / %v", err0, err1), wit)
		return
	}
	// expectations from the statement: registration attempt + one per interval (permanent); budget attempts (non-permanent)
	wantPerm := 1 + c.slots
	wantTemp := c.budget
	if wantTemp > 1+c.slots {
		wantTemp = 1 + c.slots
	}
	if p0 != wantPerm || n0 != wantTemp || late0 {
		// the quiet schedule is the replay workload's business; if it differs from the statement's numbers here, the
		// scenario arithmetic is off - do not judge
		r.Count("traffic.quiet_schedule_differs_from_expectation", 1)
		r.Note(fmt.Sprintf("traffic scenario arithmetic: quiet run gave permanent=%d (expected %d), non-permanent=%d (expected %d), late=%v", p0, wantPerm, n0, wantTemp, late0))
		return
	}
	if p1 != p0 {
		r.Violation("c16.traffic.permanent-retries-starved", fmt.Sprintf("with %d status messages per retry interval from another adapter the failing permanent adapter was attempted %d times in %d intervals, %d times without the traffic", c.perSlot, p1, c.slots, p0), wit)
		return
	}
	if n1 != n0 || late1 {
		r.Violation("c16.traffic.budget-not-consumed", fmt.Sprintf("with %d status messages per retry interval from another adapter the failing non-permanent adapter (budget %d) was attempted %d times (%d without the traffic), still retried afterwards: %v", c.perSlot, c.budget, n1, n0, late1), wit)
		return
	}
	r.Count("traffic.scenarios", 1)
	r.Count("traffic.status_messages_injected", msgs)
	r.Count("traffic.retry_attempts_compared", p1+n1)
	r.Nontrivial("traffic", fmt.Sprintf("%+v", c))
}

func stressGroups(r *report.Run) {
	var bursts []burstCase
	for losses := 1; losses <= 4; losses++ {
		for _, d := range []time.Duration{0, time.Millisecond, 300 * time.Millisecond, 3 * time.Second} {
			for _, gap := range []time.Duration{0, time.Millisecond, 500 * time.Millisecond} {
				for then := 0; then < 2; then++ {
					bursts = append(bursts, burstCase{losses, d, gap, then, (losses+then)%2 == 0})
				}
			}
		}
	}
	r.Group("burst", len(bursts), func(i int, rng *report.Rand) { burst(r, bursts[i]) })
	var tcs []trafficCase
	for budget := 1; budget <= 4; budget++ {
		for _, per := range []int{2, 5, 20} {
			tcs = append(tcs, trafficCase{budget: budget, perSlot: per, slots: 6, traffic: true})
		}
	}
	r.Group("traffic", len(tcs), func(i int, rng *report.Rand) { traffic(r, tcs[i]) })
}
