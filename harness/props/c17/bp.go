package c17

import (
	"bytes"
	"fmt"
	"io"

	"github.com/dtn7/dtn7-go/pkg/bpv7"

	"verifh/internal/model"
	"verifh/internal/report"
)

// ---- creation timestamps ----

func tsCanon(ts bpv7.CreationTimestamp) string {
	return fmt.Sprintf("ts(%d,%d)", uint64(ts.DtnTime()), ts.SequenceNumber())
}

func tsDecode(r io.Reader) (string, error) {
	var ts bpv7.CreationTimestamp
	if err := ts.UnmarshalCbor(r); err != nil {
		return "", err
	}
	return tsCanon(ts), nil
}

func (k *ck) checkTimestamp(t, seq uint64) {
	ts := bpv7.NewCreationTimestamp(bpv7.DtnTime(t), seq)
	var buf bytes.Buffer
	w := map[string]interface{}{"time": t, "sequence": seq}
	if err := ts.MarshalCbor(&buf); err != nil {
		k.r.Violation("c17.timestamp.encode:"+errClass(err), err.Error(), w)
		return
	}
	want := fmt.Sprintf("ts(%d,%d)", t, seq)
	k.roundtrip("timestamp", "value", want, buf.Bytes(), 1, tsDecode, w)
}

// ---- bundle IDs ----

// bid is the neutral description of a bundle ID.
type bid struct {
	Src   string `json:"source"` // URI
	Time  uint64 `json:"time"`
	Seq   uint64 `json:"seq"`
	Frag  bool   `json:"fragment"`
	Off   uint64 `json:"offset"`
	Total uint64 `json:"total"`
}

func genBid(rng *report.Rand) bid {
	b := bid{Src: genModelEID(rng, 300).String(), Time: genU64(rng), Seq: genU64(rng), Frag: rng.Bool()}
	if b.Frag {
		b.Off, b.Total = genU64(rng), genU64(rng)
	}
	return b
}

// primary builds a bundle whose ID() is the described one, the way the node obtains bundle IDs.
func (b bid) bundle(extraFlags bpv7.BundleControlFlags) (bpv7.Bundle, error) {
	src, err := bpv7.NewEndpointID(b.Src)
	if err != nil {
		return bpv7.Bundle{}, err
	}
	flags := extraFlags
	if b.Frag {
		flags |= bpv7.IsFragment
	}
	pb := bpv7.PrimaryBlock{
		Version: 7, BundleControlFlags: flags, Destination: bpv7.DtnNone(), SourceNode: src, ReportTo: src,
		CreationTimestamp: bpv7.NewCreationTimestamp(bpv7.DtnTime(b.Time), b.Seq), Lifetime: 1000,
		FragmentOffset: b.Off, TotalDataLength: b.Total,
	}
	return bpv7.Bundle{PrimaryBlock: pb}, nil
}

func (b bid) canon() string {
	m, _ := newEID(b.Src)
	s := fmt.Sprintf("bid(%s,%d,%d,frag=%t", eidCanon(m), b.Time, b.Seq, b.Frag)
	if b.Frag {
		s += fmt.Sprintf(",%d,%d", b.Off, b.Total)
	}
	return s + ")"
}

func bidCanon(b bpv7.BundleID) string {
	s := fmt.Sprintf("bid(%s,%d,%d,frag=%t", eidCanon(b.SourceNode), uint64(b.Timestamp.DtnTime()), b.Timestamp.SequenceNumber(), b.IsFragment)
	if b.IsFragment {
		s += fmt.Sprintf(",%d,%d", b.FragmentOffset, b.TotalDataLength)
	}
	return s + ")"
}

// bidDecoder: the fragment flag is not part of the encoding, it "MUST be set beforehand" (bundle_id.go).
func bidDecoder(frag bool) decoder {
	return func(r io.Reader) (string, error) {
		var b bpv7.BundleID
		b.IsFragment = frag
		if err := b.UnmarshalCbor(r); err != nil {
			return "", err
		}
		return bidCanon(b), nil
	}
}

func (k *ck) encodeBid(b bid) ([]byte, bool) {
	bndl, err := b.bundle(0)
	if err != nil {
		k.r.Violation("c17.harness.eid-generator", "generated source endpoint rejected: "+err.Error(), b)
		return nil, false
	}
	id := bndl.ID()
	var buf bytes.Buffer
	if err := id.MarshalCbor(&buf); err != nil {
		k.r.Violation("c17.bundle-id.encode:"+errClass(err), err.Error(), b)
		return nil, false
	}
	return buf.Bytes(), true
}

func (k *ck) checkBid(b bid) {
	enc, ok := k.encodeBid(b)
	if !ok {
		return
	}
	items := 2
	class := "whole-bundle"
	if b.Frag {
		items, class = 4, "fragment"
	}
	k.roundtrip("bundle-id", class, b.canon(), enc, items, bidDecoder(b.Frag), b)
}

// ---- status reports / administrative records ----

// sitem is a bundle status item: 0 = not asserted, 1 = asserted, 2 = asserted with time.
type sitem struct {
	Kind int    `json:"kind"`
	Time uint64 `json:"time,omitempty"`
}

func (s sitem) build() bpv7.BundleStatusItem {
	switch s.Kind {
	case 0:
		return bpv7.NewBundleStatusItem(false)
	case 1:
		return bpv7.NewBundleStatusItem(true)
	}
	return bpv7.NewTimeReportingBundleStatusItem(bpv7.DtnTime(s.Time))
}

func (s sitem) canon() string {
	switch s.Kind {
	case 0:
		return "item(asserted=false,time=0,requested=false)"
	case 1:
		return "item(asserted=true,time=0,requested=false)"
	}
	return fmt.Sprintf("item(asserted=true,time=%d,requested=true)", s.Time)
}

func itemCanon(i bpv7.BundleStatusItem) string {
	return fmt.Sprintf("item(asserted=%t,time=%d,requested=%t)", i.Asserted, uint64(i.Time), i.StatusRequested)
}

// srep is the neutral description of a status report.
type srep struct {
	Items  []sitem `json:"items"`
	Reason uint64  `json:"reason"`
	Ref    bid     `json:"ref"`
	// when Pos >= 0 the report is built by NewStatusReport(bundle, Pos, Reason, Time) instead of field by field
	Pos       int    `json:"pos"`
	Time      uint64 `json:"time"`
	TimeFlag  bool   `json:"time_flag"`
}

func (s srep) canon() string {
	out := "sr["
	for _, i := range s.Items {
		out += i.canon() + ";"
	}
	return out + fmt.Sprintf("] reason=%d %s", s.Reason, s.Ref.canon())
}

func srCanon(sr *bpv7.StatusReport) string {
	out := "sr["
	for _, i := range sr.StatusInformation {
		out += itemCanon(i) + ";"
	}
	return out + fmt.Sprintf("] reason=%d %s", uint64(sr.ReportReason), bidCanon(sr.RefBundle))
}

// build creates the repository's value through the public constructors.
func (s *srep) build() (*bpv7.StatusReport, error) {
	var flags bpv7.BundleControlFlags
	if s.TimeFlag {
		flags |= bpv7.RequestStatusTime
	}
	bndl, err := s.Ref.bundle(flags)
	if err != nil {
		return nil, err
	}
	if s.Pos >= 0 {
		sr := bpv7.NewStatusReport(bndl, bpv7.StatusInformationPos(s.Pos), bpv7.StatusReportReason(s.Reason), bpv7.DtnTime(s.Time))
		// what the constructor is documented to build, stated independently
		s.Items = make([]sitem, 4)
		for i := range s.Items {
			switch {
			case i == s.Pos && s.TimeFlag:
				s.Items[i] = sitem{Kind: 2, Time: s.Time}
			case i == s.Pos:
				s.Items[i] = sitem{Kind: 1}
			}
		}
		return sr, nil
	}
	sr := &bpv7.StatusReport{ReportReason: bpv7.StatusReportReason(s.Reason), RefBundle: bndl.ID()}
	for _, i := range s.Items {
		sr.StatusInformation = append(sr.StatusInformation, i.build())
	}
	return sr, nil
}

func genSrep(rng *report.Rand) srep {
	s := srep{Ref: genBid(rng), Pos: -1}
	switch rng.Intn(4) {
	case 0:
		s.Reason = uint64(rng.Intn(12))
	case 1:
		s.Reason = uint64(rng.Intn(256))
	default:
		s.Reason = genU64(rng)
	}
	if rng.Bool() {
		s.Pos = rng.Intn(4)
		s.Time = genU64(rng)
		s.TimeFlag = rng.Bool()
		return s
	}
	n := 4
	if rng.Chance(1, 6) {
		n = []int{0, 1, 3, 5, 23, 24, 255, 256}[rng.Intn(8)]
	}
	for i := 0; i < n; i++ {
		it := sitem{Kind: rng.Intn(3)}
		if it.Kind == 2 {
			it.Time = genU64(rng)
		}
		s.Items = append(s.Items, it)
	}
	return s
}

func srDecode(r io.Reader) (string, error) {
	var sr bpv7.StatusReport
	if err := sr.UnmarshalCbor(r); err != nil {
		return "", err
	}
	return srCanon(&sr), nil
}

// arDecode reads an administrative record the way Bundle.AdministrativeRecord does.
func arDecode(r io.Reader) (string, error) {
	ar, err := bpv7.GetAdministrativeRecordManager().ReadAdministrativeRecord(r)
	if err != nil {
		return "", err
	}
	sr, ok := ar.(*bpv7.StatusReport)
	if !ok {
		return fmt.Sprintf("record of type %T code %d", ar, ar.RecordTypeCode()), nil
	}
	return fmt.Sprintf("ar(%d) ", ar.RecordTypeCode()) + srCanon(sr), nil
}

// encodeSrep returns the bare status report and the administrative record around it.
func (k *ck) encodeSrep(s *srep) (bare, record []byte, sr *bpv7.StatusReport, ok bool) {
	sr, err := s.build()
	if err != nil {
		k.r.Violation("c17.harness.eid-generator", "generated source endpoint rejected: "+err.Error(), s)
		return nil, nil, nil, false
	}
	var b1, b2 bytes.Buffer
	if err := sr.MarshalCbor(&b1); err != nil {
		k.r.Violation("c17.status-report.encode:"+errClass(err), err.Error(), s)
		return nil, nil, nil, false
	}
	if err := bpv7.GetAdministrativeRecordManager().WriteAdministrativeRecord(sr, &b2); err != nil {
		k.r.Violation("c17.admin-record.encode:"+errClass(err), err.Error(), s)
		return nil, nil, nil, false
	}
	return b1.Bytes(), b2.Bytes(), sr, true
}

func (k *ck) checkSrep(s srep) {
	bare, record, sr, ok := k.encodeSrep(&s)
	if !ok {
		return
	}
	class := "whole-bundle"
	if s.Ref.Frag {
		class = "fragment"
	}
	if s.Pos >= 0 {
		class += "-constructor"
		// the constructor itself has to build what it documents
		if got := srCanon(sr); got != s.canon() {
			k.r.Violation("c17.status-report.constructor", "NewStatusReport built "+clip(got)+", documented "+clip(s.canon()), s)
			return
		}
	}
	want := s.canon()
	if !k.roundtrip("status-report", class, want, bare, 1, srDecode, s) {
		return
	}
	if !k.roundtrip("admin-record", class, "ar(1) "+want, record, 1, arDecode, s) {
		return
	}
	// the older pair of entry points: payload block of an administrative bundle and back
	blk, err := bpv7.AdministrativeRecordToCbor(sr)
	if err != nil {
		k.r.Violation("c17.admin-record.to-cbor:"+errClass(err), err.Error(), s)
		return
	}
	pl, ok := blk.Value.(*bpv7.PayloadBlock)
	if !ok {
		k.r.Violation("c17.admin-record.to-cbor:not-a-payload-block", fmt.Sprintf("%T", blk.Value), s)
		return
	}
	if !bytes.Equal(pl.Data(), record) {
		k.r.Violation("c17.admin-record.two-encoders-differ", "AdministrativeRecordToCbor and WriteAdministrativeRecord give different bytes",
			map[string]interface{}{"value": s, "a": hx(pl.Data()), "b": hx(record)})
		return
	}
	ar, err := bpv7.NewAdministrativeRecordFromCbor(pl.Data())
	if err != nil {
		k.r.Violation("c17.admin-record.from-cbor:"+errClass(err), err.Error(), s)
		return
	}
	if sr2, ok := ar.(*bpv7.StatusReport); !ok || srCanon(sr2) != want {
		k.r.Violation("c17.admin-record.roundtrip:from-cbor", "NewAdministrativeRecordFromCbor gives a different record", s)
		return
	}
	k.r.Evals(1)
}

// foreignRecord wraps a valid status-report body into [code, body] with the harness' own writer.
func foreignRecord(code uint64, body []byte) []byte {
	var e model.Enc
	e.Array(2, "")
	e.UInt(code)
	e.Raw(body)
	return e.B
}
