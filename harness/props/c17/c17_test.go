package c17

import (
	"bytes"
	"errors"
	"fmt"
	"io"
	"testing"

	"github.com/dtn7/dtn7-go/pkg/cla/bbc"

	"verifh/internal/bubble"
	"verifh/internal/model"
	"verifh/internal/report"
)

func TestCheck(t *testing.T) {
	bubble.Quiet()
	bubble.RegisterBlocks()
	r := report.Start(t, "C17")
	defer r.Finish()
	limitAddressSpace()
	k := &ck{r: r, fails: map[string]int{}}

	groupsTcpcl(k)
	groupsWam(t, k)
	groupsAnnouncement(k)
	groupsBbc(k)
	groupsTimestamp(k)
	groupsEid(k)
	groupsBundleID(k)
	groupsStatusReport(k)
}

// ------------------------------------------------------------------------------------------------
// TCPCLv4
// ------------------------------------------------------------------------------------------------

func groupsTcpcl(k *ck) {
	r := k.r

	// every value of every code / flag byte (exhaustive)
	type codeCase struct {
		kind, field string
	}
	codeFields := []codeCase{{"CH", "flags"}, {"SESS_TERM", "flags"}, {"SESS_TERM", "reason"}, {"XFER_SEGMENT", "flags"},
		{"XFER_ACK", "flags"}, {"XFER_REFUSE", "reason"}, {"MSG_REJECT", "reason"}, {"MSG_REJECT", "hdr"}}
	r.Group("tcpcl.codes", len(codeFields)*256, func(i int, rng *report.Rand) {
		c, v := codeFields[i/256], uint8(i%256)
		m := tmsg{Kind: c.kind, Tid: genU64(rng), AckLen: genU64(rng), Data: rng.Bytes(rng.Intn(20))}
		if c.kind == "MSG_REJECT" {
			m.Reason = 1
		}
		switch c.field {
		case "flags":
			m.Flags = v
		case "reason":
			m.Reason = v
		case "hdr":
			m.Hdr = v
		}
		k.checkTcpcl(m)
		if i%256 == 3 {
			r.Sample(map[string]interface{}{"kind": "tcpcl code value", "message": m.witness(), "valid": m.valid()})
		}
	})
	r.Exhaustive("tcpcl: all 256 values of every flag / reason-code / rejected-header byte")

	// all 256 values of the message type byte
	r.Group("tcpcl.type-byte", 256, func(i int, rng *report.Rand) {
		tb := uint8(i)
		known := ""
		for kind, code := range tcpclType {
			if code == tb {
				known = kind
			}
		}
		for _, kind := range tcpclKinds {
			if known != "" && kind != known {
				continue // a known type followed by another type's body: nothing is stated
			}
			body := tcpclBody(kind)
			enc := append([]byte{tb}, body...)
			if known != "" {
				m := tmsg{Kind: known, Flags: 1, Reason: 1, Hdr: 9, Keepalive: 30, SegMru: 1000, XferMru: 2000, Tid: 7, AckLen: 5, NodeID: "dtn://n/", Data: []byte("abc")}
				k.roundtrip("tcpcl", "type-byte-"+known, m.canon(), enc, 0, tcpclRead, map[string]interface{}{"type_byte": tb})
			} else {
				k.mustReject("tcpcl", "unknown-type-byte", enc, tcpclRead, map[string]interface{}{"type_byte": tb, "body_of": kind})
			}
		}
		// every decoder refuses another type's header byte
		for _, kind := range tcpclKinds {
			code := tcpclType[kind]
			if code == tb {
				continue
			}
			enc := append([]byte{tb}, tcpclBody(kind)...)
			k.mustReject("tcpcl", "wrong-header-byte-"+kind, enc, tcpclUnmarshalAs(code), map[string]interface{}{"header_byte": tb, "decoder": kind})
		}
	})
	r.Exhaustive("tcpcl: all 256 values of the message type byte")

	// all 256 values of each magic byte and of the version byte
	r.Group("tcpcl.magic", 5*256, func(i int, rng *report.Rand) {
		pos, v := i/256, byte(i%256)
		flags := byte(rng.Intn(256))
		hdr := []byte{'d', 't', 'n', '!', 4, flags}
		orig := hdr[pos]
		hdr[pos] = v
		class := "contact-header-magic"
		if pos == 4 {
			class = "contact-header-version"
		}
		w := map[string]interface{}{"position": pos, "value": v}
		if v == orig {
			want := tmsg{Kind: "CH", Flags: flags}.canon()
			k.roundtrip("tcpcl", "CH-bytes", want, hdr, 0, tcpclRead, w)
			return
		}
		k.mustReject("tcpcl", class, hdr, tcpclUnmarshalAs(0x64), w)
		if pos > 0 {
			k.mustReject("tcpcl", class, hdr, tcpclRead, w)
		}
	})
	r.Exhaustive("tcpcl: all 256 values of each contact-header magic byte and of the version byte")

	// every field at 0, 1, max; strings / data at the boundary lengths
	var fields []tmsg
	lens := lenBounds
	if r.Thorough() {
		lens = steppedLens(257)
	}
	for _, ka := range []uint16{0, 1, 65535} {
		for _, s := range []uint64{0, 1, 1<<64 - 1} {
			for _, x := range []uint64{0, 1, 1<<64 - 1} {
				for _, l := range lenBounds {
					fields = append(fields, tmsg{Kind: "SESS_INIT", Keepalive: ka, SegMru: s, XferMru: x, NodeIDLen: l})
				}
			}
		}
	}
	for _, l := range lens {
		fields = append(fields, tmsg{Kind: "SESS_INIT", Keepalive: 30, SegMru: 1 << 20, XferMru: 1 << 30, NodeIDLen: l})
		fields = append(fields, tmsg{Kind: "XFER_SEGMENT", Flags: 3, Tid: 1, DataLen: l})
	}
	for _, f := range []uint8{0, 1, 2, 3, 255} {
		for _, tid := range []uint64{0, 1, 1<<64 - 1} {
			for _, l := range lenBounds {
				fields = append(fields, tmsg{Kind: "XFER_SEGMENT", Flags: f, Tid: tid, DataLen: l})
			}
			for _, a := range []uint64{0, 1, 1<<64 - 1} {
				fields = append(fields, tmsg{Kind: "XFER_ACK", Flags: f, Tid: tid, AckLen: a})
			}
		}
	}
	for _, tid := range []uint64{0, 1, 1<<32 - 1, 1 << 32, 1<<64 - 1} {
		for rc := uint8(0); rc <= 6; rc++ {
			fields = append(fields, tmsg{Kind: "XFER_REFUSE", Reason: rc, Tid: tid})
		}
	}
	for _, f := range []uint8{0, 1, 255} {
		fields = append(fields, tmsg{Kind: "CH", Flags: f})
		for rc := uint8(0); rc <= 5; rc++ {
			fields = append(fields, tmsg{Kind: "SESS_TERM", Flags: f, Reason: rc})
		}
		for rc := uint8(1); rc <= 3; rc++ {
			fields = append(fields, tmsg{Kind: "MSG_REJECT", Reason: rc, Hdr: f})
		}
	}
	fields = append(fields, tmsg{Kind: "KEEPALIVE"})
	if r.Thorough() {
		fields = append(fields, tmsg{Kind: "XFER_SEGMENT", Flags: 1, Tid: 9, DataLen: 1 << 20}, tmsg{Kind: "XFER_SEGMENT", Flags: 1, Tid: 9, DataLen: 1<<20 + 1})
	}
	r.Group("tcpcl.fields", len(fields), func(i int, rng *report.Rand) {
		m := fields[i]
		if m.Kind == "SESS_INIT" {
			m.NodeID = genText(rng, m.NodeIDLen)
		}
		if m.Kind == "XFER_SEGMENT" {
			m.Data = rng.Bytes(m.DataLen)
		}
		k.checkTcpcl(m)
	})

	// random values per type
	nRand := r.Pick(5000, 100000)
	r.Group("tcpcl.random", len(tcpclKinds)*nRand, func(i int, rng *report.Rand) {
		m := genTcpcl(rng, tcpclKinds[i%len(tcpclKinds)], 4000)
		k.checkTcpcl(m)
		if i < 8 {
			enc, _ := tcpclMarshal(m.build())
			r.Sample(map[string]interface{}{"kind": "tcpcl message", "message": m.witness(), "encoding": hx(enc)})
		}
	})

	// random streams of 2..50 messages read back from one stream
	r.Group("tcpcl.streams", r.Pick(2000, 40000), func(i int, rng *report.Rand) {
		n := 2 + rng.Intn(49)
		var ms []tmsg
		var encs [][]byte
		var wants []string
		foreignExt := i%5 == 4 // peers may fill the extension-items field, which the decoder has to skip
		for j := 0; j < n; j++ {
			m := genTcpcl(rng, tcpclKinds[rng.Intn(len(tcpclKinds))], 600)
			var enc []byte
			if foreignExt {
				var ext []byte
				if rng.Bool() {
					ext = rng.Bytes(1 + rng.Intn(40))
				}
				enc = m.layout(ext)
			} else {
				var err error
				if enc, err = tcpclMarshal(m.build()); err != nil {
					r.Violation("c17.tcpcl.encode:"+m.Kind+":"+errClass(err), err.Error(), m.witness())
					return
				}
			}
			ms = append(ms, m.witness())
			encs = append(encs, enc)
			wants = append(wants, m.canon())
		}
		format := "tcpcl"
		if foreignExt {
			format = "tcpcl-foreign-extension-items"
		}
		if !k.stream(format, wants, encs, every(tcpclRead), false, ms) {
			return
		}
		if !k.stream(format, wants, encs, every(tcpclRead), true, ms) {
			return
		}
		// the node's reader: MessageSwitchReaderWriter (bufio.Reader + ReadMessage loop)
		if i%4 == 0 && !k.tripped("switch/"+format) {
			all := bytes.Join(encs, nil)
			got, end := tcpclSwitchRead(bytes.NewReader(all), n)
			w := map[string]interface{}{"messages": ms, "stream": hx(all), "end": fmt.Sprint(end)}
			if len(got) != n {
				k.violation("switch/"+format, "c17."+format+".switch-stream:count", fmt.Sprintf("the message switch delivered %d of %d messages, then: %v", len(got), n, end), w)
				return
			}
			for j := range got {
				if got[j] != wants[j] {
					w["index"], w["want"], w["got"] = j, wants[j], got[j]
					k.violation("switch/"+format, "c17."+format+".switch-stream:value", fmt.Sprintf("message %d delivered by the message switch differs", j), w)
					return
				}
			}
			if !errors.Is(end, io.EOF) || errors.Is(end, io.ErrUnexpectedEOF) {
				k.violation("switch/"+format, "c17."+format+".switch-stream:end", fmt.Sprintf("the stream did not end exactly after the last message: %v", end), w)
				return
			}
			r.Count("stream.tcpcl.via_message_switch", 1)
			r.Evals(n)
		}
		if i < 1 {
			r.Sample(map[string]interface{}{"kind": "tcpcl stream", "messages": len(ms), "bytes": len(bytes.Join(encs, nil)), "first": ms[0]})
		}
	})
}

// ------------------------------------------------------------------------------------------------
// WebSocket-agent messages
// ------------------------------------------------------------------------------------------------

func groupsWam(t *testing.T, k *ck) {
	r := k.r

	// all 256 one-byte type codes and the wider boundaries: only 0..4 are message types
	codes := make([]uint64, 0, 270)
	for c := uint64(0); c < 256; c++ {
		codes = append(codes, c)
	}
	codes = append(codes, 256, 65535, 65536, 1<<32-1, 1<<32, 1<<32+2, 1<<63, 1<<64-1)
	r.Group("wam.codes", len(codes), func(i int, rng *report.Rand) {
		c := codes[i]
		enc := foreignWam(c)
		if c <= 4 && c != 2 {
			want := wmsg{Code: c, Text: "text"}
			if c == 4 {
				want = wmsg{Code: 4, Text: "req", Response: []byte{1, 2}}
			}
			k.roundtrip("wam", "type-code-"+wamNames[c], want.canon(), enc, 1, wamDecode, map[string]interface{}{"code": c})
			return
		}
		if c == 2 {
			return // bundle messages: group wam.bundles
		}
		k.mustReject("wam", "unknown-type-code", enc, wamDecode, map[string]interface{}{"code": c})
	})
	r.Exhaustive("wam: all 256 one-byte type codes")

	// texts / byte strings at the boundary lengths
	lens := lenBounds
	if r.Thorough() {
		lens = steppedLens(257)
	}
	var fields []wmsg
	for _, l := range lens {
		for _, c := range []uint64{0, 1, 3} {
			fields = append(fields, wmsg{Code: c, TextLen: l})
		}
	}
	for _, l := range lenBounds {
		for _, l2 := range lenBounds {
			fields = append(fields, wmsg{Code: 4, TextLen: l, RespLen: l2})
		}
	}
	if r.Thorough() {
		for _, l := range lens {
			fields = append(fields, wmsg{Code: 4, TextLen: 3, RespLen: l})
		}
		fields = append(fields, wmsg{Code: 4, TextLen: 65536, RespLen: 1<<20 + 1})
	}
	r.Group("wam.fields", len(fields), func(i int, rng *report.Rand) {
		m := fields[i]
		m.Text = genText(rng, m.TextLen)
		m.Response = rng.Bytes(m.RespLen)
		k.checkWam(m)
	})

	r.Group("wam.random", r.Pick(20000, 400000), func(i int, rng *report.Rand) {
		m := genWam(rng, 3000, nil)
		k.checkWam(m)
		if i < 4 {
			enc, _ := wamEncode(m.build())
			r.Sample(map[string]interface{}{"kind": "websocket-agent message", "message": m.witness(), "encoding": hx(enc)})
		}
	})

	r.Group("wam.streams", r.Pick(2000, 40000), func(i int, rng *report.Rand) {
		n := 2 + rng.Intn(49)
		var ms []wmsg
		var encs [][]byte
		var wants []string
		for j := 0; j < n; j++ {
			m := genWam(rng, 400, nil)
			enc, ok := k.encodeWam(m)
			if !ok {
				return
			}
			ms = append(ms, m.witness())
			encs = append(encs, enc)
			wants = append(wants, m.canon())
		}
		k.stream("wam", wants, encs, every(wamDecode), false, ms)
	})

	// bundle messages: the bundle parser looks at the clock (lifetime), so these run under the frozen clock
	err := bubble.Run(t, func(t *testing.T) {
		opts := model.GenOpts{NowMs: bubble.NowMs(), MaxPayload: 400}
		gen := func(rng *report.Rand) model.Bundle {
			o := opts
			if rng.Bool() {
				o.SmallOnly = true
			}
			return model.GenBundle(rng, o)
		}
		r.Group("wam.bundles", r.Pick(1500, 30000), func(i int, rng *report.Rand) {
			b := gen(rng)
			k.checkWam(wmsg{Code: 2, Bundle: &b})
		})
		r.Group("wam.bundle-streams", r.Pick(300, 6000), func(i int, rng *report.Rand) {
			n := 2 + rng.Intn(20)
			var ms []wmsg
			var encs [][]byte
			var wants []string
			for j := 0; j < n; j++ {
				m := genWam(rng, 200, gen)
				enc, ok := k.encodeWam(m)
				if !ok {
					return
				}
				ms = append(ms, m.witness())
				encs = append(encs, enc)
				wants = append(wants, m.canon())
			}
			k.stream("wam", wants, encs, every(wamDecode), false, ms)
		})
	})
	if err != nil {
		r.Violation("c17.harness-panic", err.Error(), nil)
	}
}

// ------------------------------------------------------------------------------------------------
// discovery announcements
// ------------------------------------------------------------------------------------------------

func groupsAnnouncement(k *ck) {
	r := k.r

	types := make([]uint64, 0, 270)
	for c := uint64(0); c < 256; c++ {
		types = append(types, c)
	}
	types = append(types, 256, 266, 65535, 65536, 1<<32, 1<<32+10, 1<<64-1)
	r.Group("announcement.types", len(types), func(i int, rng *report.Rand) {
		tp := types[i]
		m := genModelEID(rng, 100)
		port := genU64(rng)
		enc := foreignAnn(tp, m, port)
		a := ann{Type: tp, EID: m.String(), Port: port}
		if validClaType(tp) {
			k.roundtrip("announcement", "type-code", a.canon(), enc, 1, annDecode, a)
			k.checkAnn(a)
			return
		}
		k.mustReject("announcement", "unknown-cla-type", enc, annDecode, a)
		// and inside a packet
		var e model.Enc
		e.Array(1, "")
		e.Raw(enc)
		k.mustReject("announcement", "unknown-cla-type-in-packet", e.B, annListDecode, a)
		// own encoder: either refuses or produces something the decoder refuses
		if v, err := a.build(); err == nil {
			var buf bytes.Buffer
			if err := v.MarshalCbor(&buf); err == nil {
				k.mustReject("announcement", "unknown-cla-type-own-encoding", buf.Bytes(), annDecode, a)
			}
		}
	})
	r.Exhaustive("announcement: all 256 one-byte CLA type codes")

	// every field at its boundaries
	var fields []ann
	for _, tp := range claTypes {
		for _, p := range u64Bounds {
			for _, e := range []string{"dtn:none", "dtn://n/", "ipn:1.1", "ipn:18446744073709551615.18446744073709551615"} {
				fields = append(fields, ann{Type: tp, EID: e, Port: p})
			}
		}
	}
	r.Group("announcement.fields", len(fields), func(i int, rng *report.Rand) { k.checkAnn(fields[i]) })

	r.Group("announcement.random", r.Pick(5000, 100000), func(i int, rng *report.Rand) {
		a := genAnn(rng)
		k.checkAnn(a)
		if i < 2 {
			enc, _ := k.encodeAnn(a)
			r.Sample(map[string]interface{}{"kind": "announcement", "value": a, "encoding": hx(enc)})
		}
	})

	// packets of 0..50 announcements (the list is also read back element by element from one stream)
	r.Group("announcement.lists", r.Pick(2000, 40000), func(i int, rng *report.Rand) {
		n := rng.Intn(51)
		if i < 30 {
			n = []int{0, 1, 2, 23, 24, 25}[i%6]
		}
		as := make([]ann, n)
		for j := range as {
			as[j] = genAnn(rng)
		}
		k.checkAnnList(as)
	})
}

// ------------------------------------------------------------------------------------------------
// BBC fragments
// ------------------------------------------------------------------------------------------------

func groupsBbc(k *ck) {
	r := k.r

	// the whole two-byte header space: 256 transmission ids x 32 sequence numbers x 8 flag combinations
	r.Group("bbc.header", 256, func(i int, rng *report.Rand) {
		tid := byte(i)
		payload := rng.Bytes(rng.Intn(6))
		for id := 0; id < 256; id++ {
			seq := byte(id >> 3)
			if !k.checkBbc(tid, seq, id&4 != 0, id&2 != 0, id&1 != 0, payload) {
				return
			}
			// and the decoder's side: every header byte pair parses and is written back unchanged
			raw := append([]byte{tid, byte(id)}, payload...)
			f, err := bbc.ParseFragment(raw)
			if err != nil || !bytes.Equal(f.Bytes(), raw) {
				r.Violation("c17.bbc.reencode", fmt.Sprintf("Bytes(ParseFragment(x)) != x (error %v)", err), map[string]interface{}{"bytes": hx(raw)})
				return
			}
		}
		r.Evals(511)
		r.Nontrivial("bbc-tid", tid)
	})
	r.Exhaustive("bbc: all 65536 values of the two header bytes")

	sizes := lenBounds
	if r.Thorough() {
		sizes = steppedLens(257)
	}
	r.Group("bbc.sizes", len(sizes), func(i int, rng *report.Rand) {
		p := rng.Bytes(sizes[i])
		if sizes[i] == 0 && rng.Bool() {
			p = nil
		}
		if k.checkBbc(byte(rng.Intn(256)), byte(rng.Intn(32)), rng.Bool(), rng.Bool(), rng.Bool(), p) {
			r.Nontrivial("bbc-size", sizes[i])
		}
	})

	r.Group("bbc.random", r.Pick(5000, 100000), func(i int, rng *report.Rand) {
		p := rng.Bytes(genLen(rng, 2000))
		tid, seq := byte(rng.Intn(256)), byte(rng.Intn(32))
		if k.checkBbc(tid, seq, rng.Bool(), rng.Bool(), rng.Bool(), p) {
			r.Nontrivial("bbc", tid, seq, p)
		}
		if i < 1 {
			r.Sample(map[string]interface{}{"kind": "bbc fragment", "tid": tid, "seq": seq, "encoding": hx(bbc.NewFragment(tid, seq, true, false, false, p).Bytes())})
		}
	})

	// shorter than a header: refused
	r.Group("bbc.short", 257, func(i int, rng *report.Rand) {
		var raw []byte
		if i > 0 {
			raw = []byte{byte(i - 1)}
		}
		if f, err := bbc.ParseFragment(raw); err == nil {
			r.Violation("c17.bbc.accepts-invalid:shorter-than-header", fmt.Sprintf("%d byte(s) parse as %v", len(raw), f), map[string]interface{}{"bytes": hx(raw)})
			return
		}
		r.Count("bbc.rejected_invalid", 1)
	})
}

// ------------------------------------------------------------------------------------------------
// creation timestamps
// ------------------------------------------------------------------------------------------------

func groupsTimestamp(k *ck) {
	r := k.r
	n := len(u64Bounds)
	r.Group("timestamp.bounds", n*n, func(i int, rng *report.Rand) { k.checkTimestamp(u64Bounds[i/n], u64Bounds[i%n]) })
	r.Group("timestamp.random", r.Pick(5000, 100000), func(i int, rng *report.Rand) {
		a, b := genU64(rng), genU64(rng)
		k.checkTimestamp(a, b)
		if i < 1 {
			r.Sample(map[string]interface{}{"kind": "creation timestamp", "time": a, "sequence": b})
		}
	})
	// wrong arity / element types
	r.Group("timestamp.malformed", 12, func(i int, rng *report.Rand) {
		var e model.Enc
		class := ""
		switch {
		case i < 6:
			n := []uint64{0, 1, 3, 4, 23, 24}[i]
			e.Array(n, "")
			for j := uint64(0); j < n; j++ {
				e.UInt(j)
			}
			class = "arity"
		case i < 8:
			e.Array(2, "")
			if i == 6 {
				e.Text("1", "")
				e.UInt(1)
			} else {
				e.UInt(1)
				e.Bytes([]byte{1}, "")
			}
			class = "element-type"
		case i < 10:
			if i == 8 {
				e.UInt(2)
			} else {
				e.Map(2, "")
			}
			e.UInt(1)
			e.UInt(1)
			e.UInt(1)
			e.UInt(1)
			class = "not-an-array"
		default:
			e.Array(2, "")
			e.UInt(5)
			if i == 11 {
				e.Raw([]byte{0x1b, 1, 2, 3}) // truncated 64-bit integer
			}
			k.mustReject("timestamp", "truncated", e.B, func(rd io.Reader) (string, error) {
				// no sentinel here: the stream really ends
				return tsDecode(io.LimitReader(rd, int64(len(e.B))))
			}, hx(e.B))
			return
		}
		k.mustReject("timestamp", class, e.B, tsDecode, hx(e.B))
	})
}

// ------------------------------------------------------------------------------------------------
// endpoint IDs
// ------------------------------------------------------------------------------------------------

func groupsEid(k *ck) {
	r := k.r

	// every byte value as the only / an inner / the last character of the node name, and inside an ipn number
	r.Group("eid.character", 256, func(i int, rng *report.Rand) {
		c := string([]byte{byte(i)})
		for _, s := range []string{"dtn://" + c + "/", "dtn://a" + c + "b/x", "dtn://ab" + c + "/", "dtn://" + c + "ab/x", "dtn://n/" + c, "dtn://n/x" + c + "y",
			"ipn:" + c + ".1", "ipn:1" + c + "2.3", "ipn:1." + c, "ipn:4.5" + c, "dtn:none" + c, c + "dtn:none", "dtn" + c + "//a/", "ipn" + c + "1.1", "dtn:" + c + "/a/", "dtn:/" + c + "a/"} {
			k.checkURI(s, "character")
		}
		r.Evals(15)
	})
	r.Exhaustive("eid: all 256 byte values at 16 positions of dtn / ipn URIs")

	r.Group("eid.near-miss-fixed", len(nearMisses), func(i int, rng *report.Rand) { k.checkURI(nearMisses[i], "near-miss-list") })

	// node-name and demux lengths at the boundaries
	lens := lenBounds
	if r.Thorough() {
		lens = steppedLens(509)
	}
	var sizes [][2]int
	for _, a := range lenBounds[1:] {
		for _, b := range lenBounds {
			sizes = append(sizes, [2]int{a, b})
		}
	}
	for _, a := range lens {
		sizes = append(sizes, [2]int{3, a}, [2]int{a + 1, 2})
	}
	r.Group("eid.sizes", len(sizes), func(i int, rng *report.Rand) {
		k.checkURI("dtn://"+genNodeName(rng, sizes[i][0])+"/"+genVchars(rng, sizes[i][1]), "sizes")
	})

	// ipn numbers at every width boundary
	nb := len(ipnBounds)
	r.Group("eid.ipn-bounds", nb*nb, func(i int, rng *report.Rand) {
		k.checkURI(fmt.Sprintf("ipn:%d.%d", ipnBounds[i/nb], ipnBounds[i%nb]), "ipn-bounds")
	})

	// strings of the grammars
	r.Group("eid.grammar", r.Pick(5000, 100000), func(i int, rng *report.Rand) {
		m := genModelEID(rng, 70000)
		k.checkURI(m.String(), "grammar")
		if i < 3 {
			r.Sample(map[string]interface{}{"kind": "endpoint URI of the grammar", "uri": clip(m.String()), "cbor": hx(cborEID(m))})
		}
	})

	// near-misses: one edit of a grammar string, judged by the independent reading of the grammars
	r.Group("eid.near-miss-random", r.Pick(3000, 60000), func(i int, rng *report.Rand) {
		s := genModelEID(rng, 40).String()
		n := 1
		if rng.Chance(1, 5) {
			n = 2
		}
		for j := 0; j < n; j++ {
			s = mutateURI(rng, s)
		}
		k.checkURI(s, "near-miss-mutant")
	})

	// CBOR form: all one-byte scheme numbers
	r.Group("eid.cbor-scheme", 256, func(i int, rng *report.Rand) {
		for variant := 0; variant < 3; variant++ {
			var e model.Enc
			e.Array(2, "")
			e.UInt(uint64(i))
			f := foreignEID{V: vInvalid, Class: "unknown-scheme-number", Desc: fmt.Sprintf("[%d, variant %d]", i, variant)}
			switch variant {
			case 0:
				e.UInt(0)
				if i == 1 {
					f.V, f.Want, f.Class = vValid, model.DtnNone(), "dtn-none"
				} else if i == 2 {
					f.Class = "ipn-ssp-type"
				}
			case 1:
				e.Text("//n/d", "")
				if i == 1 {
					f.V, f.Want, f.Class = vValid, model.Dtn("n", "d"), "dtn"
				} else if i == 2 {
					f.Class = "ipn-ssp-type"
				}
			case 2:
				e.Array(2, "")
				e.UInt(3)
				e.UInt(4)
				if i == 2 {
					f.V, f.Want, f.Class = vValid, model.Ipn(3, 4), "ipn"
				} else if i == 1 {
					f.Class = "dtn-ssp-type"
				}
			}
			f.Enc = e.B
			k.checkForeignEID(f)
		}
		r.Evals(2)
	})
	r.Exhaustive("eid: all 256 one-byte CBOR scheme numbers")

	// CBOR form: foreign encodings (valid ones in reference encoding, invalid field values, near-miss texts)
	r.Group("eid.cbor-foreign", r.Pick(5000, 100000), func(i int, rng *report.Rand) {
		k.checkForeignEID(genForeignEID(rng))
	})
}

// ------------------------------------------------------------------------------------------------
// bundle IDs
// ------------------------------------------------------------------------------------------------

func groupsBundleID(k *ck) {
	r := k.r
	var bounds []bid
	for _, src := range []string{"dtn:none", "dtn://n/", "ipn:1.1", "ipn:18446744073709551615.18446744073709551615"} {
		for _, a := range []uint64{0, 1, 1<<64 - 1} {
			for _, b := range []uint64{0, 1, 1<<64 - 1} {
				bounds = append(bounds, bid{Src: src, Time: a, Seq: b})
				for _, c := range []uint64{0, 1, 1<<64 - 1} {
					for _, d := range []uint64{0, 1, 1<<64 - 1} {
						bounds = append(bounds, bid{Src: src, Time: a, Seq: b, Frag: true, Off: c, Total: d})
					}
				}
			}
		}
	}
	r.Group("bundle-id.bounds", len(bounds), func(i int, rng *report.Rand) { k.checkBid(bounds[i]) })
	r.Group("bundle-id.random", r.Pick(5000, 100000), func(i int, rng *report.Rand) {
		b := genBid(rng)
		k.checkBid(b)
		if i < 2 {
			enc, _ := k.encodeBid(b)
			r.Sample(map[string]interface{}{"kind": "bundle id", "value": b, "encoding": hx(enc)})
		}
	})
	r.Group("bundle-id.streams", r.Pick(1000, 20000), func(i int, rng *report.Rand) {
		n := 2 + rng.Intn(49)
		var bs []bid
		var encs [][]byte
		var wants []string
		for j := 0; j < n; j++ {
			b := genBid(rng)
			enc, ok := k.encodeBid(b)
			if !ok {
				return
			}
			bs = append(bs, b)
			encs = append(encs, enc)
			wants = append(wants, b.canon())
		}
		k.stream("bundle-id", wants, encs, func(j int) decoder {
			if j < len(bs) {
				return bidDecoder(bs[j].Frag)
			}
			return bidDecoder(false)
		}, false, bs)
	})
}

// ------------------------------------------------------------------------------------------------
// status reports and the administrative-record wrapper
// ------------------------------------------------------------------------------------------------

func groupsStatusReport(k *ck) {
	r := k.r

	// all 256 one-byte reason codes (and wider values) through the constructor, whole bundles and fragments.
	// The repository defines no validity for status-report reasons (the registry is open): every value is a value.
	reasons := make([]uint64, 0, 270)
	for c := uint64(0); c < 256; c++ {
		reasons = append(reasons, c)
	}
	reasons = append(reasons, 256, 65535, 65536, 1<<32-1, 1<<32, 1<<63, 1<<64-1)
	r.Group("status-report.reasons", len(reasons)*2, func(i int, rng *report.Rand) {
		s := srep{Reason: reasons[i/2], Ref: genBid(rng), Pos: rng.Intn(4), Time: genU64(rng), TimeFlag: rng.Bool()}
		s.Ref.Frag = i%2 == 1
		if !s.Ref.Frag {
			s.Ref.Off, s.Ref.Total = 0, 0
		}
		k.checkSrep(s)
	})
	r.Exhaustive("status-report: all 256 one-byte reason codes")

	// every combination of the four status items x fragment, times at the boundaries
	r.Group("status-report.items", 81*2*3, func(i int, rng *report.Rand) {
		combo, frag, tm := i%81, (i/81)%2 == 1, []uint64{0, 1, 1<<64 - 1}[i/162]
		s := srep{Reason: uint64(rng.Intn(12)), Ref: genBid(rng), Pos: -1}
		s.Ref.Frag = frag
		if !frag {
			s.Ref.Off, s.Ref.Total = 0, 0
		}
		for j := 0; j < 4; j++ {
			it := sitem{Kind: combo % 3}
			combo /= 3
			if it.Kind == 2 {
				it.Time = tm
			}
			s.Items = append(s.Items, it)
		}
		k.checkSrep(s)
	})

	// the constructor: 4 positions x time flag x fragment x time boundaries
	r.Group("status-report.constructor", 4*2*2*len(u64Bounds), func(i int, rng *report.Rand) {
		s := srep{Reason: uint64(rng.Intn(12)), Ref: genBid(rng), Pos: i % 4, TimeFlag: (i/4)%2 == 1, Time: u64Bounds[i/16]}
		s.Ref.Frag = (i/8)%2 == 1
		if !s.Ref.Frag {
			s.Ref.Off, s.Ref.Total = 0, 0
		}
		k.checkSrep(s)
	})

	r.Group("status-report.random", r.Pick(5000, 100000), func(i int, rng *report.Rand) {
		s := genSrep(rng)
		k.checkSrep(s)
		if i < 2 {
			if _, rec, _, ok := k.encodeSrep(&s); ok {
				r.Sample(map[string]interface{}{"kind": "administrative record (status report)", "value": s, "encoding": hx(rec)})
			}
		}
	})

	// administrative-record type codes: only 1 (status report) is registered
	codes := make([]uint64, 0, 270)
	for c := uint64(0); c < 256; c++ {
		codes = append(codes, c)
	}
	codes = append(codes, 256, 257, 65535, 65536, 1<<32, 1<<32+1, 1<<64-1)
	r.Group("admin-record.types", len(codes), func(i int, rng *report.Rand) {
		s := genSrep(rng)
		bare, _, _, ok := k.encodeSrep(&s)
		if !ok {
			return
		}
		enc := foreignRecord(codes[i], bare)
		if codes[i] == 1 {
			k.roundtrip("admin-record", "type-code", "ar(1) "+s.canon(), enc, 1, arDecode, s)
			return
		}
		k.mustReject("admin-record", "unknown-record-type", enc, arDecode, map[string]interface{}{"code": codes[i]})
	})
	r.Exhaustive("admin-record: all 256 one-byte record type codes")

	// wrong array lengths of a status report
	r.Group("status-report.malformed", 40, func(i int, rng *report.Rand) {
		s := genSrep(rng)
		bare, _, _, ok := k.encodeSrep(&s)
		if !ok {
			return
		}
		// replace the outer array head (one byte: 0x84 or 0x86) by another length
		n := []byte{0, 1, 2, 3, 5, 7, 8, 23}[i%8]
		if bare[0] != 0x84 && bare[0] != 0x86 {
			r.Violation("c17.status-report.outer-array", fmt.Sprintf("status report starts with 0x%x", bare[0]), s)
			return
		}
		mut := append([]byte{0x80 | n}, bare[1:]...)
		k.mustReject("status-report", "outer-arity", mut, srDecode, map[string]interface{}{"arity": n, "bytes": hx(mut)})
	})

	r.Group("admin-record.streams", r.Pick(1000, 20000), func(i int, rng *report.Rand) {
		n := 2 + rng.Intn(49)
		var ss []srep
		var encs [][]byte
		var wants []string
		for j := 0; j < n; j++ {
			s := genSrep(rng)
			_, rec, _, ok := k.encodeSrep(&s)
			if !ok {
				return
			}
			ss = append(ss, s)
			encs = append(encs, rec)
			wants = append(wants, "ar(1) "+s.canon())
		}
		k.stream("admin-record", wants, encs, every(arDecode), false, ss)
	})
}
