package c17

import (
	"bytes"
	"fmt"
	"io"
	"strings"

	"github.com/dtn7/dtn7-go/pkg/bpv7"

	"verifh/internal/model"
	"verifh/internal/report"
)

// eidCanon reads an endpoint ID through its exported structure.
func eidCanon(e bpv7.EndpointID) string {
	switch t := e.EndpointType.(type) {
	case bpv7.DtnEndpoint:
		if t.IsDtnNone {
			// node name and demux are meaningless for the null endpoint, but they are part of the structure
			return fmt.Sprintf("dtn-none(%q,%q)", t.NodeName, t.Demux)
		}
		return fmt.Sprintf("dtn(%q,%q)", t.NodeName, t.Demux)
	case bpv7.IpnEndpoint:
		return fmt.Sprintf("ipn(%d,%d)", t.Node, t.Service)
	case nil:
		return "nil"
	}
	return fmt.Sprintf("other %T %v", e.EndpointType, e.EndpointType)
}

func modelCanon(e model.EID) string {
	switch {
	case e.Scheme == 1 && e.None:
		return `dtn-none("","")`
	case e.Scheme == 1:
		return fmt.Sprintf("dtn(%q,%q)", e.Node, e.Demux)
	case e.Scheme == 2:
		return fmt.Sprintf("ipn(%d,%d)", e.INode, e.IServ)
	}
	return "invalid"
}

// ---- the URI grammars, written from the documents (no regular expressions) ----

type verdict int

const (
	vValid   verdict = iota // in the dtn / ipn grammar: must be accepted with the expected structure
	vInvalid                // outside every reading of the grammars: must be rejected
	vFree                   // accepted or rejected by choice (documented); if accepted it has to round-trip
)

func isNodeChar(c byte) bool {
	return c >= 'a' && c <= 'z' || c >= 'A' && c <= 'Z' || c >= '0' && c <= '9' || c == '-' || c == '.' || c == '_'
}

func isVchar(c byte) bool { return c >= 0x21 && c <= 0x7e }

// parseDec parses ASCII digits into a uint64; ok=false for empty text, foreign characters or overflow.
func parseDec(s string) (v uint64, ok bool, overflow bool) {
	if s == "" {
		return 0, false, false
	}
	for i := 0; i < len(s); i++ {
		c := s[i]
		if c < '0' || c > '9' {
			return 0, false, false
		}
		d := uint64(c - '0')
		if v > (1<<64-1-d)/10 {
			return 0, false, true
		}
		v = v*10 + d
	}
	return v, true, false
}

// classifyURI is the independent reading of an endpoint URI:
//
//	dtn-uri = "dtn:none" / "dtn://" node-name "/" demux ; node-name = 1*(ALPHA / DIGIT / "-" / "." / "_") ; demux = *VCHAR
//	ipn-uri = "ipn:" node-nbr "." service-nbr          ; ASCII digits, 1 .. 2^64-1
//
// Choices of the implementation that are documented and therefore "free": demux characters outside VCHAR
// (space, non-ASCII, control characters other than LF), leading zeros of ipn numbers, upper-case scheme names.
func classifyURI(s string) (v verdict, want model.EID, class string) {
	if strings.Contains(s, "\n") {
		return vInvalid, want, "line-feed"
	}
	switch {
	case s == "dtn:none":
		return vValid, model.DtnNone(), "dtn-none"
	case strings.HasPrefix(s, "dtn://"):
		rest := s[len("dtn://"):]
		i := strings.IndexByte(rest, '/')
		if i < 0 {
			return vInvalid, want, "dtn-no-name-delimiter"
		}
		node, demux := rest[:i], rest[i+1:]
		if node == "" {
			return vInvalid, want, "dtn-empty-node-name"
		}
		for j := 0; j < len(node); j++ {
			if !isNodeChar(node[j]) {
				return vInvalid, want, "dtn-node-name-character"
			}
		}
		want = model.Dtn(node, demux)
		for j := 0; j < len(demux); j++ {
			if !isVchar(demux[j]) {
				return vFree, want, "dtn-demux-not-vchar"
			}
		}
		return vValid, want, "dtn"
	case strings.HasPrefix(s, "dtn:"):
		return vInvalid, want, "dtn-ssp"
	case strings.HasPrefix(s, "ipn:"):
		rest := s[len("ipn:"):]
		i := strings.IndexByte(rest, '.')
		if i < 0 {
			return vInvalid, want, "ipn-syntax"
		}
		a, b := rest[:i], rest[i+1:]
		n, ok1, of1 := parseDec(a)
		sv, ok2, of2 := parseDec(b)
		if of1 || of2 {
			return vInvalid, want, "ipn-out-of-range"
		}
		if !ok1 || !ok2 {
			return vInvalid, want, "ipn-syntax"
		}
		if n == 0 || sv == 0 {
			return vInvalid, want, "ipn-zero"
		}
		want = model.Ipn(n, sv)
		if (len(a) > 1 && a[0] == '0') || (len(b) > 1 && b[0] == '0') {
			return vFree, want, "ipn-leading-zero"
		}
		return vValid, want, "ipn"
	}
	// another scheme, or no scheme at all
	i := strings.IndexByte(s, ':')
	if i > 0 {
		sc := strings.ToLower(s[:i])
		if (sc == "dtn" || sc == "ipn") && sc != s[:i] {
			return vFree, want, "scheme-upper-case"
		}
	}
	return vInvalid, want, "unknown-scheme"
}

// ---- generators ----

const nodeAlphabet = "abcdefghijklmnopqrstuvwxyzABCDEFGHIJKLMNOPQRSTUVWXYZ0123456789-._"

func genNodeName(rng *report.Rand, n int) string {
	b := make([]byte, n)
	for i := range b {
		b[i] = nodeAlphabet[rng.Intn(len(nodeAlphabet))]
	}
	return string(b)
}

func genVchars(rng *report.Rand, n int) string {
	b := make([]byte, n)
	for i := range b {
		switch rng.Intn(8) {
		case 0:
			b[i] = '/'
		default:
			b[i] = byte(0x21 + rng.Intn(0x5e))
		}
	}
	return string(b)
}

var ipnBounds = []uint64{1, 2, 9, 10, 23, 24, 255, 256, 65535, 65536, 1<<32 - 1, 1 << 32, 1<<63 - 1, 1 << 63, 1<<64 - 2, 1<<64 - 1}

func genIpnNumber(rng *report.Rand) uint64 {
	switch rng.Intn(3) {
	case 0:
		return ipnBounds[rng.Intn(len(ipnBounds))]
	case 1:
		return 1 + uint64(rng.Intn(1000))
	}
	v := rng.Uint64() >> uint(rng.Intn(64))
	if v == 0 {
		v = 1
	}
	return v
}

// genModelEID draws an endpoint of the grammar (VCHAR demux, canonical numbers).
func genModelEID(rng *report.Rand, maxLen int) model.EID {
	switch k := rng.Intn(12); {
	case k == 0:
		return model.DtnNone()
	case k < 8:
		nl := 1 + rng.Intn(12)
		if rng.Chance(1, 10) {
			nl = lenBounds[1+rng.Intn(len(lenBounds)-1)]
		}
		if nl > maxLen {
			nl = maxLen
		}
		var demux string
		switch rng.Intn(8) {
		case 0:
			demux = ""
		case 1:
			demux = "~" + genVchars(rng, rng.Intn(8))
		case 2:
			l := lenBounds[rng.Intn(len(lenBounds))]
			if l > maxLen {
				l = maxLen
			}
			demux = genVchars(rng, l)
		case 3:
			demux = "a/b//" + genNodeName(rng, 3) + "/"
		case 4:
			demux = []string{"none", "/", "//", "dtn://x/", "~", "?q=1#frag", "%20", "..", ":"}[rng.Intn(9)]
		default:
			demux = genVchars(rng, 1+rng.Intn(12))
		}
		node := genNodeName(rng, nl)
		if rng.Chance(1, 12) {
			node = []string{"none", "-", ".", "_", "0", "..", "dtn", "a.b-c_d"}[rng.Intn(8)]
		}
		return model.Dtn(node, demux)
	default:
		return model.Ipn(genIpnNumber(rng), genIpnNumber(rng))
	}
}

// genURI draws the text of a grammar-conforming endpoint URI.
func genURI(rng *report.Rand) string { return genModelEID(rng, 300).String() }

// genValidEID draws an endpoint ID constructed through the public constructor.
func genValidEID(rng *report.Rand) bpv7.EndpointID {
	for {
		e, err := bpv7.NewEndpointID(genModelEID(rng, 300).String())
		if err == nil {
			return e
		}
	}
}

// fixed near-misses of the grammars
var nearMisses = []string{
	"", ":", "dtn", "dtn:", "dtn:/", "dtn://", "dtn:///", "dtn:////", "dtn:///x", "dtn://node", "dtn:node/", "dtn:/node/",
	"dtn:node", "dtn://no de/", "dtn://nöde/", "dtn://node!/x", "dtn://node:4556/", "dtn://user@node/", "dtn://[::1]/",
	"dtn://node\\/", "dtn://node?/", "dtn://%41/", "dtn://~node/", "dtn://node~/", "dtn:// node/", "dtn://node /",
	"dtn:none/", "dtn:nonex", "dtn:non", "dtn:None", "dtn:NONE", "dtn: none", " dtn:none", "dtn:none ", "dtn:none\t", "dtn::none", "dtn:none:",
	"dtn://a/b\n", "dtn://a/\nb", "\ndtn://a/b", "dtn:none\n", "\ndtn:none", "ipn:1.1\n", "\nipn:1.1", "dtn://a\n/b", "dtn:\n//a/b", "dtn://a/b\r\n",
	"dtn://a/b\nipn:1.1", "ipn:1.1\ndtn://a/",
	"dtn2://a/", "dt://a/", "dtnx:none", "ipn2:1.1", "ip:1.1", "x:1", "http://a/", "mailto:a@b", "urn:dtn:none", "//a/b", "a/b", "1.1", "none",
	"ipn:0.1", "ipn:1.0", "ipn:0.0", "ipn:00.1", "ipn:1.00", "ipn:000.000", "ipn:1", "ipn:1.", "ipn:.1", "ipn:.", "ipn:", "ipn:1.1.1", "ipn:1..1", "ipn:1,1",
	"ipn:-1.1", "ipn:+1.1", "ipn:1.-1", "ipn:1.+1", "ipn: 1.1", "ipn:1 .1", "ipn:1. 1", "ipn:1.1 ", "ipn:0x1.1", "ipn:1.0x1", "ipn:1e3.1", "ipn:1.1e3", "ipn:1_0.1",
	"ipn:18446744073709551616.1", "ipn:1.18446744073709551616", "ipn:18446744073709551616.18446744073709551616", "ipn:99999999999999999999999.1",
	"ipn:1.99999999999999999999999", "ipn:184467440737095516150.1", "ipn:28446744073709551615.1",
	"ipn:١.1", "ipn:1.١", "ipn:１.1", "ipn://1.1", "ipn:1.1/", "ipn:1/1", "ipn:a.b", "ipn:1.a", "ipn:a.1", "ipn:1.1a", "ipn:1.1.", "ipn:.1.1",
	"DTN://a/", "Dtn:none", "IPN:1.1", "Ipn:1.1",
	"ipn:01.1", "ipn:1.01", "ipn:0001.0001", "ipn:018446744073709551615.1",
	"dtn://a/b c", "dtn://a/ünï", "dtn://a/\t", "dtn://a/\r", "dtn://a/\x00", "dtn://a/\xff\xfe", "dtn://a/ ",
}

// mutateURI derives a near-miss from a grammar-conforming URI by one edit.
func mutateURI(rng *report.Rand, s string) string {
	b := []byte(s)
	junk := []byte{' ', '\n', '\t', '\r', 0, '!', '+', ',', ':', '@', '~', '/', '\\', '%', '#', '?', '*', '=', 0x7f, 0x80, 0xc3, 0xff, '.', '-', '0', 'x'}
	pos := func() int {
		// edits near the structural prefix are the interesting ones
		if rng.Bool() && len(b) > 0 {
			p := rng.Intn(12)
			if p >= len(b) {
				p = len(b) - 1
			}
			return p
		}
		if len(b) == 0 {
			return 0
		}
		return rng.Intn(len(b))
	}
	switch rng.Intn(7) {
	case 0: // delete one byte
		if len(b) > 0 {
			p := pos()
			b = append(b[:p:p], b[p+1:]...)
		}
	case 1: // insert a junk byte
		p := pos()
		if rng.Chance(1, 4) {
			p = len(b)
		}
		b = append(b[:p:p], append([]byte{junk[rng.Intn(len(junk))]}, b[p:]...)...)
	case 2: // replace one byte
		if len(b) > 0 {
			b[pos()] = junk[rng.Intn(len(junk))]
		}
	case 3: // replace one byte by an arbitrary one
		if len(b) > 0 {
			b[pos()] = byte(rng.Intn(256))
		}
	case 4: // swap neighbours
		if len(b) > 1 {
			p := pos()
			if p == len(b)-1 {
				p--
			}
			b[p], b[p+1] = b[p+1], b[p]
		}
	case 5: // numbers out of range / zero (ipn), duplicated delimiters (dtn)
		if strings.HasPrefix(s, "ipn:") {
			repl := []string{"0", "00", "18446744073709551616", "18446744073709551615", "-1", "", "1e1", "01", "99999999999999999999"}[rng.Intn(9)]
			parts := strings.SplitN(s[4:], ".", 2)
			if len(parts) == 2 {
				parts[rng.Intn(2)] = repl
				b = []byte("ipn:" + parts[0] + "." + parts[1])
			}
		} else {
			b = []byte(strings.Replace(s, "//", []string{"/", "///", "", "/ /"}[rng.Intn(4)], 1))
		}
	case 6: // scheme edits
		if i := strings.IndexByte(s, ':'); i > 0 {
			sc := []string{"DTN", "Dtn", "IPN", "dtn ", " dtn", "dtnn", "dt", "ipn6", "", "dtn:", "ipn:"}[rng.Intn(11)]
			b = []byte(sc + s[i:])
		}
	}
	return string(b)
}

// ---- oracles ----

func newEID(s string) (e bpv7.EndpointID, err error) {
	defer func() {
		if p := recover(); p != nil {
			err = fmt.Errorf("panic: %v", p)
		}
	}()
	return bpv7.NewEndpointID(s)
}

func eidEncode(e bpv7.EndpointID) (out []byte, err error) {
	defer func() {
		if p := recover(); p != nil {
			err = fmt.Errorf("panic: %v", p)
		}
	}()
	var buf bytes.Buffer
	err = e.MarshalCbor(&buf)
	return buf.Bytes(), err
}

func eidDecode(r io.Reader) (string, error) {
	var e bpv7.EndpointID
	if err := e.UnmarshalCbor(r); err != nil {
		return "", err
	}
	return eidCanon(e), nil
}

// uriFromCBOR reads the URI text off a CBOR endpoint encoding with the harness' own walker:
// [1, 0] -> dtn:none, [1, text] -> "dtn:" text, [2, [n, s]] -> "ipn:n.s".
func uriFromCBOR(enc []byte) (string, bool) {
	items, err := model.ArrayItems(enc, model.Span{Start: 0, End: len(enc)})
	if err != nil || len(items) != 2 {
		return "", false
	}
	scheme, ok := model.UIntAt(enc, items[0])
	if !ok {
		return "", false
	}
	switch scheme {
	case 1:
		if v, ok := model.UIntAt(enc, items[1]); ok {
			if v == 0 {
				return "dtn:none", true
			}
			return "", false
		}
		if enc[items[1].Start]>>5 != 3 {
			return "", false
		}
		// text string: strip the head
		hl := 1
		switch enc[items[1].Start] & 0x1f {
		case 24:
			hl = 2
		case 25:
			hl = 3
		case 26:
			hl = 5
		case 27:
			hl = 9
		}
		return "dtn:" + string(enc[items[1].Start+hl:items[1].End]), true
	case 2:
		in, err := model.ArrayItems(enc, items[1])
		if err != nil || len(in) != 2 {
			return "", false
		}
		a, ok1 := model.UIntAt(enc, in[0])
		b, ok2 := model.UIntAt(enc, in[1])
		if !ok1 || !ok2 {
			return "", false
		}
		return fmt.Sprintf("ipn:%d.%d", a, b), true
	}
	return "", false
}

// seenURI remembers String() -> structure for the injectivity rule (per process).
var seenURI = map[string]string{}

// checkAcceptedEID applies everything the property demands of an endpoint ID the node accepted (from URI text
// or from CBOR): its URI text parses back to the same structure, distinct structures have distinct texts, the
// CBOR form round-trips with exact consumption, and the CBOR form spells the same URI.
func (k *ck) checkAcceptedEID(e bpv7.EndpointID, origin, class string, witness interface{}) bool {
	c := eidCanon(e)
	s := e.String()
	w := map[string]interface{}{"origin": origin, "class": class, "input": witness, "structure": c, "string": s}
	e2, err := newEID(s)
	if err != nil {
		k.r.Violation("c17.eid.accepted-but-text-not-parsable:"+origin+":"+class,
			fmt.Sprintf("accepted endpoint %s prints as %q, which NewEndpointID refuses: %v", c, s, err), w)
		return false
	}
	if c2 := eidCanon(e2); c2 != c || e2 != e {
		w["reparsed"] = c2
		k.r.Violation("c17.eid.text-structure-mismatch:"+origin+":"+class,
			fmt.Sprintf("NewEndpointID(e.String()) != e: %s prints as %q, which parses to %s", c, s, c2), w)
		return false
	}
	if prev, ok := seenURI[s]; ok && prev != c {
		w["other_structure"] = prev
		k.r.Violation("c17.eid.string-not-injective:"+class, fmt.Sprintf("two structures %s and %s print as %q", prev, c, s), w)
		return false
	} else if !ok && len(seenURI) < 200000 && len(s) < 400 {
		seenURI[s] = c
	}
	enc, err := eidEncode(e)
	if err != nil {
		k.r.Violation("c17.eid.cbor-encode:"+origin+":"+class+":"+errClass(err), "an accepted endpoint cannot be written as CBOR: "+err.Error(), w)
		return false
	}
	if !k.roundtrip("eid-cbor", class, c, enc, 1, eidDecode, w) {
		return false
	}
	if u, ok := uriFromCBOR(enc); !ok || u != s {
		w["cbor"] = hx(enc)
		w["uri_read_from_cbor"] = u
		k.r.Violation("c17.eid.cbor-uri-inconsistent:"+class, fmt.Sprintf("the CBOR form spells %q (readable=%v), the URI form %q", u, ok, s), w)
		return false
	}
	if ref, _ := refEID(e); bytes.Equal(ref, enc) {
		k.r.Count("eid.cbor_equals_reference_encoding", 1)
	} else {
		k.r.Count("eid.cbor_differs_from_reference_encoding", 1)
	}
	k.r.Evals(3)
	return true
}

func refEID(e bpv7.EndpointID) ([]byte, bool) {
	m := model.EIDFromBpv7(e)
	if m.Scheme != 1 && m.Scheme != 2 {
		return nil, false
	}
	return cborEID(m), true
}

// cborEID is the reference CBOR encoding of an endpoint (own writer).
func cborEID(m model.EID) []byte {
	var e model.Enc
	e.Array(2, "eid")
	e.UInt(uint64(m.Scheme))
	switch {
	case m.Scheme == 1 && m.None:
		e.UInt(0)
	case m.Scheme == 1:
		e.Text("//"+m.Node+"/"+m.Demux, "ssp")
	default:
		e.Array(2, "ipn")
		e.UInt(m.INode)
		e.UInt(m.IServ)
	}
	return e.B
}

// checkURI judges NewEndpointID on one text against the independent reading of the grammars.
func (k *ck) checkURI(s string, origin string) {
	v, want, class := classifyURI(s)
	e, err := newEID(s)
	w := map[string]interface{}{"uri": s, "uri_hex": hx([]byte(s)), "class": class, "origin": origin}
	if isPanic(err) {
		k.r.Violation("c17.eid.uri-panic:"+class, err.Error(), w)
		return
	}
	switch v {
	case vInvalid:
		if err == nil {
			w["accepted_as"] = eidCanon(e)
			k.r.Violation("c17.eid.uri-accepts-invalid:"+class, fmt.Sprintf("the invalid endpoint URI %q is accepted as %s", s, eidCanon(e)), w)
			return
		}
		k.r.Count("eid.uri.rejected_invalid", 1)
		k.r.Count("eid.uri.rejected_invalid."+class, 1)
		return
	case vValid:
		if err != nil {
			k.r.Violation("c17.eid.uri-rejects-valid:"+class+":"+errClass(err), fmt.Sprintf("the endpoint URI %q of the grammar is rejected: %v", clip(s), err), w)
			return
		}
		if got := eidCanon(e); got != modelCanon(want) {
			w["got"], w["want"] = got, modelCanon(want)
			k.r.Violation("c17.eid.uri-structure:"+class, fmt.Sprintf("%q parses to %s, expected %s", clip(s), got, modelCanon(want)), w)
			return
		}
		if e.String() != s {
			w["string"] = e.String()
			k.r.Violation("c17.eid.uri-string:"+class, fmt.Sprintf("%q prints as %q", clip(s), clip(e.String())), w)
			return
		}
		k.r.Count("eid.uri.accepted_valid", 1)
	case vFree:
		if err != nil {
			k.r.Count("eid.uri.free_rejected."+class, 1)
			return
		}
		k.r.Count("eid.uri.free_accepted."+class, 1)
		if got := eidCanon(e); want.Scheme != 0 && got != modelCanon(want) {
			w["got"], w["want"] = got, modelCanon(want)
			k.r.Violation("c17.eid.uri-structure:"+class, fmt.Sprintf("%q parses to %s, expected %s", clip(s), got, modelCanon(want)), w)
			return
		}
	}
	if k.checkAcceptedEID(e, "uri", class, w) {
		k.r.Nontrivial("uri", s)
	}
}

// ---- foreign CBOR endpoint encodings ----

// foreignEID is a CBOR endpoint encoding built with the harness' own writer together with the verdict of the
// BPv7 document: scheme 1 carries the unsigned integer 0 (dtn:none) or the text "//node/demux"; scheme 2
// carries [node, service] with both numbers >= 1; everything else is invalid.
type foreignEID struct {
	Enc   []byte
	V     verdict
	Want  model.EID
	Class string
	Desc  string
}

func genForeignEID(rng *report.Rand) foreignEID {
	var e model.Enc
	f := foreignEID{}
	kind := rng.Intn(14)
	switch kind {
	case 0: // dtn with an unsigned integer SSP
		n := []uint64{0, 0, 1, 2, 23, 24, 255, 256, 65535, 1 << 32, 1<<64 - 1}[rng.Intn(11)]
		e.Array(2, "")
		e.UInt(1)
		e.UInt(n)
		f.Desc = fmt.Sprintf("[1, %d]", n)
		if n == 0 {
			f.V, f.Want, f.Class = vValid, model.DtnNone(), "dtn-none"
		} else {
			f.V, f.Class = vInvalid, "dtn-integer-ssp-not-zero"
		}
	case 1, 2, 3: // dtn with a text SSP taken from a URI or a near-miss of one
		var uri string
		if rng.Bool() {
			uri = genModelEID(rng, 300).String()
			for !strings.HasPrefix(uri, "dtn:") {
				uri = genModelEID(rng, 300).String()
			}
			if rng.Bool() {
				uri = mutateURI(rng, uri)
			}
		} else {
			uri = nearMisses[rng.Intn(len(nearMisses))]
		}
		ssp := strings.TrimPrefix(uri, "dtn:")
		if !strings.HasPrefix(uri, "dtn:") {
			ssp = uri
		}
		e.Array(2, "")
		e.UInt(1)
		e.Text(ssp, "")
		f.Desc = fmt.Sprintf("[1, text %q]", clip(ssp))
		f.V, f.Want, f.Class = classifyURI("dtn:" + ssp)
		if ssp == "none" {
			f.V, f.Class = vInvalid, "dtn-none-as-text"
		}
		f.Class = "text-ssp-" + f.Class
	case 4, 5: // ipn with two numbers
		pick := func() uint64 {
			if rng.Chance(1, 4) {
				return 0
			}
			return genIpnNumber(rng)
		}
		a, b := pick(), pick()
		e.Array(2, "")
		e.UInt(2)
		e.Array(2, "")
		e.UInt(a)
		e.UInt(b)
		f.Desc = fmt.Sprintf("[2, [%d, %d]]", a, b)
		if a == 0 || b == 0 {
			f.V, f.Class = vInvalid, "ipn-zero"
		} else {
			f.V, f.Want, f.Class = vValid, model.Ipn(a, b), "ipn"
		}
	case 6: // ipn with a wrong inner shape
		n := []uint64{0, 1, 3, 4}[rng.Intn(4)]
		e.Array(2, "")
		e.UInt(2)
		e.Array(n, "")
		for i := uint64(0); i < n; i++ {
			e.UInt(1 + uint64(rng.Intn(9)))
		}
		f.Desc = fmt.Sprintf("[2, array of %d]", n)
		f.V, f.Class = vInvalid, "ipn-arity"
	case 7: // ipn with a text / integer SSP
		e.Array(2, "")
		e.UInt(2)
		if rng.Bool() {
			e.Text("1.1", "")
			f.Desc = `[2, "1.1"]`
		} else {
			e.UInt(7)
			f.Desc = "[2, 7]"
		}
		f.V, f.Class = vInvalid, "ipn-ssp-type"
	case 8: // dtn with a byte string / array SSP
		e.Array(2, "")
		e.UInt(1)
		if rng.Bool() {
			e.Bytes([]byte("//a/b"), "")
			f.Desc = "[1, bytes //a/b]"
		} else {
			e.Array(2, "")
			e.UInt(1)
			e.UInt(1)
			f.Desc = "[1, [1, 1]]"
		}
		f.V, f.Class = vInvalid, "dtn-ssp-type"
	case 9: // unknown scheme numbers
		sc := []uint64{0, 3, 4, 23, 24, 255, 256, 65535, 1 << 32, 1<<64 - 1}[rng.Intn(10)]
		e.Array(2, "")
		e.UInt(sc)
		if rng.Bool() {
			e.Text("//a/b", "")
		} else {
			e.UInt(0)
		}
		f.Desc = fmt.Sprintf("[%d, ...]", sc)
		f.V, f.Class = vInvalid, "unknown-scheme-number"
	case 10: // outer arity
		n := []uint64{0, 1, 3}[rng.Intn(3)]
		e.Array(n, "")
		if n >= 1 {
			e.UInt(1)
		}
		if n >= 2 {
			e.UInt(0)
		}
		if n >= 3 {
			e.UInt(0)
		}
		f.Desc = fmt.Sprintf("outer array of %d", n)
		f.V, f.Class = vInvalid, "outer-arity"
	default: // valid endpoints in reference encoding
		m := genModelEID(rng, 300)
		f.Enc = cborEID(m)
		f.Desc = "reference encoding of " + clip(m.String())
		f.V, f.Want, f.Class = vValid, m, "reference-encoding"
		return f
	}
	f.Enc = e.B
	return f
}

// checkForeignEID judges EndpointID.UnmarshalCbor on a foreign encoding.
func (k *ck) checkForeignEID(f foreignEID) {
	var e bpv7.EndpointID
	cr := &countingReader{r: bytes.NewReader(append(append([]byte{}, f.Enc...), sentinel...))}
	_, err := safe(func(r io.Reader) (string, error) { return "", e.UnmarshalCbor(r) }, cr)
	w := map[string]interface{}{"cbor": hx(f.Enc), "what": f.Desc, "class": f.Class}
	if isPanic(err) {
		k.r.Violation("c17.eid.cbor-panic:"+f.Class, err.Error(), w)
		return
	}
	switch f.V {
	case vInvalid:
		if err == nil {
			w["accepted_as"] = eidCanon(e)
			k.r.Violation("c17.eid.cbor-accepts-invalid:"+f.Class,
				fmt.Sprintf("the invalid CBOR endpoint %s is accepted as %s (%s)", f.Desc, eidCanon(e), e.String()), w)
			return
		}
		k.r.Count("eid.cbor.rejected_invalid", 1)
		k.r.Count("eid.cbor.rejected_invalid."+f.Class, 1)
		return
	case vValid:
		if err != nil {
			// interoperability with an independent encoder is not what C17 states: informational
			k.r.Count("eid.cbor.reference_encoding_rejected", 1)
			k.r.Note("reference CBOR endpoint rejected: " + f.Desc + ": " + err.Error())
			return
		}
		if got := eidCanon(e); got != modelCanon(f.Want) {
			w["got"], w["want"] = got, modelCanon(f.Want)
			k.r.Violation("c17.eid.cbor-structure:"+f.Class, fmt.Sprintf("%s decodes to %s, expected %s", f.Desc, got, modelCanon(f.Want)), w)
			return
		}
		if cr.n != len(f.Enc) {
			w["consumed"] = cr.n
			k.r.Violation("c17.eid.cbor-consumed:"+f.Class, fmt.Sprintf("decoder consumed %d of %d bytes", cr.n, len(f.Enc)), w)
			return
		}
		k.r.Count("eid.cbor.accepted_valid", 1)
	case vFree:
		if err != nil {
			k.r.Count("eid.cbor.free_rejected."+f.Class, 1)
			return
		}
		k.r.Count("eid.cbor.free_accepted."+f.Class, 1)
	}
	if k.checkAcceptedEID(e, "cbor", f.Class, w) {
		k.r.Nontrivial("cbor-eid", f.Enc)
	}
}
