package c17

import (
	"bytes"
	"fmt"
	"testing"

	"github.com/dtn7/dtn7-go/pkg/bpv7"
)

func TestExplore(t *testing.T) {
	for _, s := range []string{"dtn://a/b", "dtn://a-._x/", "dtn://a", "dtn://a/b\n", "dtn://a/b c", "dtn://a/\xff", "dtn://\xff/", "dtn://ä/", "dtn:none", "dtn:none ", "DTN://a/", "ipn:01.1", "ipn:0.1", "ipn:1.0", "ipn:18446744073709551615.1", "ipn:18446744073709551616.1", "ipn:١.1", "dtn://a+/", "dtn://a,/", "dtn://a//", "dtn://none/", "dtn:///", "ipn:1.1\n", "dtn://a/\r"} {
		e, err := bpv7.NewEndpointID(s)
		fmt.Printf("%q -> %#v err=%v\n", s, e.EndpointType, err)
	}
	for _, x := range [][]byte{{0x82, 1, 5}, {0x82, 1, 0}, {0x82, 2, 0x82, 0, 0}, {0x82, 2, 0x82, 0, 1}, {0x82, 1, 0x64, 'n', 'o', 'n', 'e'}, {0x82, 1, 0x18, 0x20}} {
		var e bpv7.EndpointID
		err := e.UnmarshalCbor(bytes.NewReader(x))
		fmt.Printf("%x -> %#v err=%v str=%s\n", x, e.EndpointType, err, e)
	}
}
