package c17

import (
	"bytes"
	"fmt"
	"io"

	"github.com/dtn7/dtn7-go/pkg/agent"
	"github.com/dtn7/dtn7-go/pkg/bpv7"
	"github.com/dtn7/dtn7-go/pkg/cla"
	"github.com/dtn7/dtn7-go/pkg/cla/bbc"
	"github.com/dtn7/dtn7-go/pkg/discovery"

	"verifh/internal/model"
	"verifh/internal/report"
)

// ---- WebSocket-agent messages ----

// wmsg is the neutral description of a WebSocket-agent message: 0 status, 1 register, 2 bundle,
// 3 syscall request, 4 syscall response.
type wmsg struct {
	Code     uint64        `json:"code"`
	Text     string        `json:"-"`
	Response []byte        `json:"-"`
	Bundle   *model.Bundle `json:"bundle,omitempty"`
	TextLen  int           `json:"text_len"`
	RespLen  int           `json:"response_len"`
	TextHead string        `json:"text_head,omitempty"`
}

var wamNames = []string{"status", "register", "bundle", "syscall-request", "syscall-response"}

func (m wmsg) witness() wmsg {
	m.TextLen, m.RespLen = len(m.Text), len(m.Response)
	if len(m.Text) > 64 {
		m.TextHead = fmt.Sprintf("%q", m.Text[:64])
	} else {
		m.TextHead = fmt.Sprintf("%q", m.Text)
	}
	return m
}

func (m wmsg) canon() string {
	s := fmt.Sprintf("wam(%d) text=%s", m.Code, bs([]byte(m.Text)))
	if m.Code == 4 {
		s += " resp=" + bs(m.Response)
	}
	if m.Code == 2 && m.Bundle != nil {
		s += " bundle=" + m.Bundle.Canon()
	}
	return s
}

func wamCanon(v agent.VerifWam) string {
	s := fmt.Sprintf("wam(%d) text=%s", v.Code, bs([]byte(v.Text)))
	if v.Code == 4 {
		s += " resp=" + bs(v.Response)
	}
	if v.Code == 2 {
		s += " bundle=" + model.FromBpv7(v.Bundle).Canon()
	}
	return s
}

func (m wmsg) build() agent.VerifWam {
	v := agent.VerifWam{Code: m.Code, Text: m.Text, Response: m.Response}
	if m.Bundle != nil {
		v.Bundle = m.Bundle.ToBpv7()
	}
	return v
}

func wamEncode(v agent.VerifWam) (out []byte, err error) {
	defer func() {
		if p := recover(); p != nil {
			err = fmt.Errorf("panic: %v", p)
		}
	}()
	var buf bytes.Buffer
	err = agent.VerifWamMarshal(v, &buf)
	return buf.Bytes(), err
}

func wamDecode(r io.Reader) (string, error) {
	v, err := agent.VerifWamUnmarshal(r)
	if err != nil {
		return "", err
	}
	return wamCanon(v), nil
}

func (k *ck) encodeWam(m wmsg) ([]byte, bool) {
	enc, err := wamEncode(m.build())
	if err != nil {
		k.r.Violation("c17.wam.encode:"+wamNames[m.Code]+":"+errClass(err), err.Error(), m.witness())
		return nil, false
	}
	return enc, true
}

func (k *ck) checkWam(m wmsg) {
	if enc, ok := k.encodeWam(m); ok {
		k.roundtrip("wam", wamNames[m.Code], m.canon(), enc, 1, wamDecode, m.witness())
	}
}

// genWam draws a message; bundles only when gen is given (they need the frozen clock).
func genWam(rng *report.Rand, maxLen int, gen func(*report.Rand) model.Bundle) wmsg {
	codes := []uint64{0, 1, 3, 4}
	if gen != nil {
		codes = append(codes, 2, 2)
	}
	m := wmsg{Code: codes[rng.Intn(len(codes))]}
	switch m.Code {
	case 0:
		if !rng.Chance(1, 4) {
			m.Text = genText(rng, genLen(rng, maxLen))
		}
	case 1:
		m.Text = genURI(rng)
		if rng.Chance(1, 4) {
			m.Text = genText(rng, genLen(rng, maxLen))
		}
	case 2:
		b := gen(rng)
		m.Bundle = &b
	case 3:
		m.Text = genText(rng, genLen(rng, maxLen))
	case 4:
		m.Text = genText(rng, genLen(rng, maxLen))
		m.Response = rng.Bytes(genLen(rng, maxLen))
		if len(m.Response) == 0 && rng.Bool() {
			m.Response = nil
		}
	}
	return m
}

// foreignWam is [code, body] written with the harness' own CBOR writer; the body has the shape of the
// message type nearest to code so that only the code decides.
func foreignWam(code uint64) []byte {
	var e model.Enc
	e.Array(2, "")
	e.UInt(code)
	switch code {
	case 4:
		e.Array(2, "")
		e.Text("req", "")
		e.Bytes([]byte{1, 2}, "")
	default:
		e.Text("text", "")
	}
	return e.B
}

// ---- discovery announcements ----

type ann struct {
	Type uint64 `json:"type"`
	EID  string `json:"eid"`
	Port uint64 `json:"port"`
}

var claTypes = []uint64{0, 1, 10, 20} // TCPCLv4, TCPCLv4 over WebSocket, MTCP, BBC

func validClaType(t uint64) bool { return t == 0 || t == 1 || t == 10 || t == 20 }

func (a ann) canon() string {
	e, _ := newEID(a.EID)
	return fmt.Sprintf("ann(%d,%s,%d)", a.Type, eidCanon(e), a.Port)
}

func annCanon(a discovery.Announcement) string {
	return fmt.Sprintf("ann(%d,%s,%d)", uint64(a.Type), eidCanon(a.Endpoint), uint64(a.Port))
}

func (a ann) build() (discovery.Announcement, error) {
	e, err := bpv7.NewEndpointID(a.EID)
	return discovery.Announcement{Type: cla.CLAType(a.Type), Endpoint: e, Port: uint(a.Port)}, err
}

func genAnn(rng *report.Rand) ann {
	return ann{Type: claTypes[rng.Intn(len(claTypes))], EID: genModelEID(rng, 300).String(), Port: genU64(rng)}
}

func annDecode(r io.Reader) (string, error) {
	var a discovery.Announcement
	if err := a.UnmarshalCbor(r); err != nil {
		return "", err
	}
	return annCanon(a), nil
}

// annListDecode is the node's entry point for a received discovery packet.
func annListDecode(r io.Reader) (string, error) {
	data, err := io.ReadAll(r)
	if err != nil {
		return "", err
	}
	as, err := discovery.UnmarshalAnnouncements(data)
	if err != nil {
		return "", err
	}
	return annListCanon(as), nil
}

func annListCanon(as []discovery.Announcement) string {
	s := fmt.Sprintf("%d:", len(as))
	for _, a := range as {
		s += annCanon(a) + ";"
	}
	return s
}

func (k *ck) encodeAnn(a ann) ([]byte, bool) {
	v, err := a.build()
	if err != nil {
		k.r.Violation("c17.harness.eid-generator", "generated endpoint rejected: "+err.Error(), a)
		return nil, false
	}
	var buf bytes.Buffer
	if err := v.MarshalCbor(&buf); err != nil {
		k.r.Violation("c17.announcement.encode:"+errClass(err), err.Error(), a)
		return nil, false
	}
	return buf.Bytes(), true
}

func (k *ck) checkAnn(a ann) {
	if enc, ok := k.encodeAnn(a); ok {
		k.roundtrip("announcement", "single", a.canon(), enc, 1, annDecode, a)
	}
}

// checkAnnList: a discovery packet = MarshalAnnouncements(list); the packet is one CBOR item (so that the whole
// datagram is accounted for) and UnmarshalAnnouncements gives back the list.
func (k *ck) checkAnnList(as []ann) {
	var vs []discovery.Announcement
	want := fmt.Sprintf("%d:", len(as))
	for _, a := range as {
		v, err := a.build()
		if err != nil {
			k.r.Violation("c17.harness.eid-generator", "generated endpoint rejected: "+err.Error(), a)
			return
		}
		vs = append(vs, v)
		want += a.canon() + ";"
	}
	data, err := discovery.MarshalAnnouncements(vs)
	if err != nil {
		k.r.Violation("c17.announcement.encode-list:"+errClass(err), err.Error(), as)
		return
	}
	if !wellFormedItems(data, 1) {
		k.r.Violation("c17.announcement.encoding-not-wellformed:list", "a discovery packet is not exactly one CBOR item", map[string]interface{}{"list": as, "encoding": hx(data)})
		return
	}
	got, err := safe(annListDecode, bytes.NewReader(data))
	if err != nil {
		k.r.Violation("c17.announcement.decode-own-encoding:list:"+errClass(err), err.Error(), map[string]interface{}{"list": as, "encoding": hx(data)})
		return
	}
	if got != want {
		k.r.Violation("c17.announcement.roundtrip:list", "decoded announcement list differs", map[string]interface{}{"list": as, "encoding": hx(data), "want": want, "got": got})
		return
	}
	// element-wise: the packet body is the concatenation of the single encodings, read back from one stream
	if len(as) > 0 {
		var encs [][]byte
		var wants []string
		for _, a := range as {
			e, ok := k.encodeAnn(a)
			if !ok {
				return
			}
			encs = append(encs, e)
			wants = append(wants, a.canon())
		}
		k.stream("announcement", wants, encs, every(annDecode), false, as)
	}
	k.r.Count("announcement.lists", 1)
	k.r.Nontrivial("annlist", data)
}

func foreignAnn(t uint64, eid model.EID, port uint64) []byte {
	var e model.Enc
	e.Array(3, "")
	e.UInt(t)
	e.Raw(cborEID(eid))
	e.UInt(port)
	return e.B
}

// ---- BBC fragments ----

// checkBbc: the value is what NewFragment was given (sequence numbers are 5 bit wide as documented); the
// encoding is Bytes(); the decoded value is what the accessors of ParseFragment's result return.
func (k *ck) checkBbc(tid, seq byte, start, end, fail bool, payload []byte) bool {
	want := fmt.Sprintf("frag(tid=%d,seq=%d,s=%t,e=%t,f=%t,p=%s)", tid, seq, start, end, fail, bs(payload))
	w := map[string]interface{}{"tid": tid, "seq": seq, "start": start, "end": end, "fail": fail, "payload_len": len(payload)}
	f := bbc.NewFragment(tid, seq, start, end, fail, payload)
	enc := f.Bytes()
	w["encoding"] = hx(enc)
	if len(enc) != 2+len(payload) {
		k.r.Violation("c17.bbc.length", fmt.Sprintf("fragment of %d payload bytes encodes to %d bytes", len(payload), len(enc)), w)
		return false
	}
	// documented header layout: transmission id, then sequence number (5 bit) | start | end | fail
	hdr := seq << 3
	if start {
		hdr |= 4
	}
	if end {
		hdr |= 2
	}
	if fail {
		hdr |= 1
	}
	if enc[0] == tid && enc[1] == hdr {
		k.r.Count("bbc.header_equals_documented_layout", 1)
	} else {
		k.r.Count("bbc.header_differs_from_documented_layout", 1)
	}
	g, err := bbc.ParseFragment(enc)
	if err != nil {
		k.r.Violation("c17.bbc.decode-own-encoding:"+errClass(err), err.Error(), w)
		return false
	}
	got := fmt.Sprintf("frag(tid=%d,seq=%d,s=%t,e=%t,f=%t,p=%s)", g.TransmissionID(), g.SequenceNumber(), g.StartBit(), g.EndBit(), g.FailBit(), bs(g.Payload))
	if got != want {
		w["want"], w["got"] = want, got
		k.r.Violation("c17.bbc.roundtrip", "parsed fragment differs: want "+want+" got "+got, w)
		return false
	}
	// the constructed value itself must say what it was given
	if own := fmt.Sprintf("frag(tid=%d,seq=%d,s=%t,e=%t,f=%t,p=%s)", f.TransmissionID(), f.SequenceNumber(), f.StartBit(), f.EndBit(), f.FailBit(), bs(f.Payload)); own != want {
		w["want"], w["got"] = want, own
		k.r.Violation("c17.bbc.constructor", "constructed fragment differs from its arguments: want "+want+" got "+own, w)
		return false
	}
	if !bytes.Equal(g.Bytes(), enc) {
		k.r.Violation("c17.bbc.reencode", "Bytes(ParseFragment(x)) != x", w)
		return false
	}
	k.r.Count("bbc.roundtripped", 1)
	return true
}
