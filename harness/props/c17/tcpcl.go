package c17

import (
	"encoding/binary"
	"fmt"
	"io"

	"github.com/dtn7/dtn7-go/pkg/cla/tcpclv4"

	"verifh/internal/report"
)

// tmsg is the neutral description of a TCPCLv4 contact header or message.
type tmsg struct {
	Kind      string `json:"kind"` // CH, SESS_INIT, SESS_TERM, XFER_SEGMENT, XFER_ACK, XFER_REFUSE, KEEPALIVE, MSG_REJECT
	Flags     uint8  `json:"flags,omitempty"`
	Reason    uint8  `json:"reason,omitempty"`
	Hdr       uint8  `json:"hdr,omitempty"`
	Keepalive uint16 `json:"keepalive,omitempty"`
	SegMru    uint64 `json:"seg_mru,omitempty"`
	XferMru   uint64 `json:"xfer_mru,omitempty"`
	Tid       uint64 `json:"tid,omitempty"`
	AckLen    uint64 `json:"ack_len,omitempty"`
	NodeID    string `json:"-"`
	Data      []byte `json:"-"`
	NodeIDLen int    `json:"node_id_len,omitempty"`
	DataLen   int    `json:"data_len,omitempty"`
}

var tcpclKinds = []string{"CH", "SESS_INIT", "SESS_TERM", "XFER_SEGMENT", "XFER_ACK", "XFER_REFUSE", "KEEPALIVE", "MSG_REJECT"}

// type codes and reason-code tables as in the TCPCLv4 specification (not taken from the repository)
var tcpclType = map[string]uint8{"XFER_SEGMENT": 1, "XFER_ACK": 2, "XFER_REFUSE": 3, "KEEPALIVE": 4, "SESS_TERM": 5, "MSG_REJECT": 6, "SESS_INIT": 7, "CH": 0x64}

func validSessTermReason(c uint8) bool   { return c <= 5 }
func validXferRefuseReason(c uint8) bool { return c <= 6 }
func validMsgRejectReason(c uint8) bool  { return c >= 1 && c <= 3 }

// valid says whether the value carries only defined code values.
func (m tmsg) valid() bool {
	switch m.Kind {
	case "SESS_TERM":
		return validSessTermReason(m.Reason)
	case "XFER_REFUSE":
		return validXferRefuseReason(m.Reason)
	case "MSG_REJECT":
		return validMsgRejectReason(m.Reason)
	}
	return true
}

func (m tmsg) witness() tmsg {
	m.NodeIDLen, m.DataLen = len(m.NodeID), len(m.Data)
	return m
}

// canon is the comparison key of the value.
func (m tmsg) canon() string {
	switch m.Kind {
	case "CH":
		return fmt.Sprintf("CH f=%d", m.Flags)
	case "SESS_INIT":
		return fmt.Sprintf("SESS_INIT k=%d s=%d t=%d n=%s", m.Keepalive, m.SegMru, m.XferMru, bs([]byte(m.NodeID)))
	case "SESS_TERM":
		return fmt.Sprintf("SESS_TERM f=%d r=%d", m.Flags, m.Reason)
	case "XFER_SEGMENT":
		return fmt.Sprintf("XFER_SEGMENT f=%d t=%d d=%s", m.Flags, m.Tid, bs(m.Data))
	case "XFER_ACK":
		return fmt.Sprintf("XFER_ACK f=%d t=%d l=%d", m.Flags, m.Tid, m.AckLen)
	case "XFER_REFUSE":
		return fmt.Sprintf("XFER_REFUSE r=%d t=%d", m.Reason, m.Tid)
	case "KEEPALIVE":
		return "KEEPALIVE"
	case "MSG_REJECT":
		return fmt.Sprintf("MSG_REJECT r=%d h=%d", m.Reason, m.Hdr)
	}
	return "?" + m.Kind
}

// build creates the repository's message through its public constructor.
func (m tmsg) build() tcpclv4.VerifMessage {
	switch m.Kind {
	case "CH":
		return tcpclv4.VerifNewContactHeader(tcpclv4.VerifContactFlags(m.Flags))
	case "SESS_INIT":
		return tcpclv4.VerifNewSessionInitMessage(m.Keepalive, m.SegMru, m.XferMru, m.NodeID)
	case "SESS_TERM":
		return tcpclv4.VerifNewSessionTerminationMessage(tcpclv4.VerifSessionTerminationFlags(m.Flags), tcpclv4.VerifSessionTerminationCode(m.Reason))
	case "XFER_SEGMENT":
		return tcpclv4.VerifNewDataTransmissionMessage(tcpclv4.VerifSegmentFlags(m.Flags), m.Tid, m.Data)
	case "XFER_ACK":
		return tcpclv4.VerifNewDataAcknowledgementMessage(tcpclv4.VerifSegmentFlags(m.Flags), m.Tid, m.AckLen)
	case "XFER_REFUSE":
		return tcpclv4.VerifNewTransferRefusalMessage(tcpclv4.VerifTransferRefusalCode(m.Reason), m.Tid)
	case "KEEPALIVE":
		return tcpclv4.VerifNewKeepaliveMessage()
	case "MSG_REJECT":
		return tcpclv4.VerifNewMessageRejectionMessage(tcpclv4.VerifMessageRejectionReason(m.Reason), m.Hdr)
	}
	return nil
}

// tcpclCanon reads a decoded message through its exported fields.
func tcpclCanon(msg tcpclv4.VerifMessage) string {
	switch v := msg.(type) {
	case *tcpclv4.VerifContactHeader:
		return tmsg{Kind: "CH", Flags: uint8(v.Flags)}.canon()
	case *tcpclv4.VerifSessionInitMessage:
		return tmsg{Kind: "SESS_INIT", Keepalive: v.KeepaliveInterval, SegMru: v.SegmentMru, XferMru: v.TransferMru, NodeID: v.NodeId}.canon()
	case *tcpclv4.VerifSessionTerminationMessage:
		return tmsg{Kind: "SESS_TERM", Flags: uint8(v.Flags), Reason: uint8(v.ReasonCode)}.canon()
	case *tcpclv4.VerifDataTransmissionMessage:
		return tmsg{Kind: "XFER_SEGMENT", Flags: uint8(v.Flags), Tid: v.TransferId, Data: v.Data}.canon()
	case *tcpclv4.VerifDataAcknowledgementMessage:
		return tmsg{Kind: "XFER_ACK", Flags: uint8(v.Flags), Tid: v.TransferId, AckLen: v.AckLen}.canon()
	case *tcpclv4.VerifTransferRefusalMessage:
		return tmsg{Kind: "XFER_REFUSE", Reason: uint8(v.ReasonCode), Tid: v.TransferId}.canon()
	case *tcpclv4.VerifKeepaliveMessage:
		return "KEEPALIVE"
	case *tcpclv4.VerifMessageRejectionMessage:
		return tmsg{Kind: "MSG_REJECT", Reason: uint8(v.ReasonCode), Hdr: v.MessageHeader}.canon()
	case nil:
		return "<nil>"
	}
	return fmt.Sprintf("unexpected %T", msg)
}

// layout writes the message in the field layout of the TCPCLv4 draft the repository implements (big-endian
// fixed-width fields; SESS_INIT and XFER_SEGMENT carry a 32-bit extension-items length); ext is put into the
// extension-items field where the message has one.
func (m tmsg) layout(ext []byte) []byte {
	var b []byte
	u16 := func(v uint16) { b = binary.BigEndian.AppendUint16(b, v) }
	u32 := func(v uint32) { b = binary.BigEndian.AppendUint32(b, v) }
	u64 := func(v uint64) { b = binary.BigEndian.AppendUint64(b, v) }
	switch m.Kind {
	case "CH":
		b = append(b, 'd', 't', 'n', '!', 4, m.Flags)
	case "SESS_INIT":
		b = append(b, 7)
		u16(m.Keepalive)
		u64(m.SegMru)
		u64(m.XferMru)
		u16(uint16(len(m.NodeID)))
		b = append(b, m.NodeID...)
		u32(uint32(len(ext)))
		b = append(b, ext...)
	case "SESS_TERM":
		b = append(b, 5, m.Flags, m.Reason)
	case "XFER_SEGMENT":
		b = append(b, 1, m.Flags)
		u64(m.Tid)
		u32(uint32(len(ext)))
		b = append(b, ext...)
		u64(uint64(len(m.Data)))
		b = append(b, m.Data...)
	case "XFER_ACK":
		b = append(b, 2, m.Flags)
		u64(m.Tid)
		u64(m.AckLen)
	case "XFER_REFUSE":
		b = append(b, 3, m.Reason)
		u64(m.Tid)
	case "KEEPALIVE":
		b = append(b, 4)
	case "MSG_REJECT":
		b = append(b, 6, m.Reason, m.Hdr)
	}
	return b
}

// body is a valid message body (everything after the type byte) for the given kind.
func tcpclBody(kind string) []byte {
	m := tmsg{Kind: kind, Flags: 1, Reason: 1, Hdr: 9, Keepalive: 30, SegMru: 1000, XferMru: 2000, Tid: 7, AckLen: 5, NodeID: "dtn://n/", Data: []byte("abc")}
	return m.layout(nil)[1:]
}

func tcpclMarshal(msg tcpclv4.VerifMessage) (out []byte, err error) {
	defer func() {
		if p := recover(); p != nil {
			err = fmt.Errorf("panic: %v", p)
		}
	}()
	var w sliceWriter
	err = msg.Marshal(&w)
	return w.b, err
}

type sliceWriter struct{ b []byte }

func (s *sliceWriter) Write(p []byte) (int, error) { s.b = append(s.b, p...); return len(p), nil }

// tcpclRead is the entry point the node uses for every incoming message and contact header.
func tcpclRead(r io.Reader) (string, error) {
	msg, err := tcpclv4.VerifReadMessage(r)
	if err != nil {
		return "", err
	}
	return tcpclCanon(msg), nil
}

// tcpclUnmarshalAs decodes with the Unmarshal method of a fresh message of the given type code.
func tcpclUnmarshalAs(code uint8) decoder {
	return func(r io.Reader) (string, error) {
		msg, err := tcpclv4.VerifNewMessage(code)
		if err != nil {
			return "", err
		}
		if err := msg.Unmarshal(r); err != nil {
			return "", err
		}
		return tcpclCanon(msg), nil
	}
}

// checkTcpcl applies the value oracle (valid values) or the rejection oracle (undefined code values).
func (k *ck) checkTcpcl(m tmsg) bool {
	msg := m.build()
	enc, err := tcpclMarshal(msg)
	if !m.valid() {
		// the encoder may refuse; if it writes the value, the decoder has to refuse it
		if err != nil {
			k.r.Count("tcpcl.invalid_refused_by_encoder", 1)
			return true
		}
		ok := k.mustReject("tcpcl", m.Kind+"-reason-code", enc, tcpclRead, m.witness())
		return k.mustReject("tcpcl", m.Kind+"-reason-code", enc, tcpclUnmarshalAs(tcpclType[m.Kind]), m.witness()) && ok
	}
	if err != nil {
		k.r.Violation("c17.tcpcl.encode:"+m.Kind+":"+errClass(err), "encoding a valid message failed: "+err.Error(), m.witness())
		return false
	}
	if string(enc) == string(m.layout(nil)) {
		k.r.Count("tcpcl.encoding_equals_documented_layout", 1)
	} else {
		k.r.Count("tcpcl.encoding_differs_from_documented_layout", 1)
	}
	ok := k.roundtrip("tcpcl", m.Kind, m.canon(), enc, 0, tcpclRead, m.witness())
	if ok {
		ok = k.roundtrip("tcpcl", m.Kind+"-unmarshal", m.canon(), enc, 0, tcpclUnmarshalAs(tcpclType[m.Kind]), m.witness())
	}
	return ok
}

// genTcpcl draws a message with valid codes.
func genTcpcl(rng *report.Rand, kind string, maxLen int) tmsg {
	m := tmsg{Kind: kind}
	switch kind {
	case "CH":
		m.Flags = uint8(rng.Intn(256))
	case "SESS_INIT":
		m.Keepalive = uint16(genU64(rng))
		if rng.Chance(1, 4) {
			m.Keepalive = []uint16{0, 1, 65535}[rng.Intn(3)]
		}
		m.SegMru, m.XferMru = genU64(rng), genU64(rng)
		m.NodeID = genText(rng, genLen(rng, maxLen))
		if rng.Chance(1, 3) {
			m.NodeID = genURI(rng)
		}
	case "SESS_TERM":
		m.Flags, m.Reason = uint8(rng.Intn(256)), uint8(rng.Intn(6))
	case "XFER_SEGMENT":
		m.Flags, m.Tid = uint8(rng.Intn(256)), genU64(rng)
		if rng.Chance(1, 2) {
			m.Flags = uint8(rng.Intn(4))
		}
		m.Data = rng.Bytes(genLen(rng, maxLen))
		if rng.Chance(1, 10) {
			// payload that looks like the beginning of another message
			m.Data = append(tmsg{Kind: tcpclKinds[rng.Intn(len(tcpclKinds))], Reason: 1, NodeID: "x"}.layout(nil), m.Data...)
		}
		if len(m.Data) == 0 && rng.Bool() {
			m.Data = nil
		}
	case "XFER_ACK":
		m.Flags, m.Tid, m.AckLen = uint8(rng.Intn(256)), genU64(rng), genU64(rng)
	case "XFER_REFUSE":
		m.Reason, m.Tid = uint8(rng.Intn(7)), genU64(rng)
	case "MSG_REJECT":
		m.Reason, m.Hdr = uint8(1+rng.Intn(3)), uint8(rng.Intn(256))
	}
	return m
}

// tcpclSwitchRead feeds a byte stream to the node's real reader side (MessageSwitchReaderWriter: one
// bufio.Reader, ReadMessage in a loop) and returns the canonical texts of everything it delivered and the
// error that ended it.
func tcpclSwitchRead(stream io.Reader, max int) (got []string, end error) {
	ms := tcpclv4.VerifNewMessageSwitchReaderWriter(stream, io.Discard)
	in, out, errc := ms.Exchange()
	defer close(out) // ends the writer goroutine
	for len(got) <= max {
		select {
		case m := <-in:
			got = append(got, tcpclCanon(m))
		case err := <-errc:
			// the reader goroutine delivers messages before the error, drain what is buffered
			for {
				select {
				case m := <-in:
					got = append(got, tcpclCanon(m))
					continue
				default:
				}
				break
			}
			return got, err
		}
	}
	_ = ms.Close()
	return got, fmt.Errorf("more than %d messages", max)
}
