// Package c17 decides property C17: every auxiliary wire format of the node round-trips through its own
// codec, the decoder consumes exactly the bytes the encoder produced (so that consecutive messages on one
// stream stay aligned), endpoint URI text and endpoint structure determine each other, and invalid field
// values are rejected.
//
// The oracles in this package are independent of the code under test: values are described by neutral
// structs of this package, compared through canonical strings built from the repository's *exported*
// fields/accessors, consumption is measured with a counting reader, well-formedness of CBOR encodings with
// the harness' own item walker, and validity of field values / endpoint URIs with predicates written from
// the protocol documents (TCPCLv4 code tables, dtn/ipn URI grammars).
package c17

import (
	"bufio"
	"bytes"
	"crypto/sha256"
	"encoding/hex"
	"errors"
	"fmt"
	"io"
	"regexp"
	"strings"
	"syscall"
	"testing/iotest"

	"verifh/internal/model"
	"verifh/internal/report"
)

// sentinel follows every encoding handed to a decoder, so that reading too much is visible in the byte count
// instead of ending in an EOF error.
var sentinel = bytes.Repeat([]byte{0xA5}, 24)

// countingReader counts the bytes the decoder took from the underlying stream.
type countingReader struct {
	r io.Reader
	n int
}

func (c *countingReader) Read(p []byte) (int, error) {
	n, err := c.r.Read(p)
	c.n += n
	return n, err
}

func hx(b []byte) string {
	if len(b) > 2048 {
		return hex.EncodeToString(b[:2048]) + fmt.Sprintf("...(%d bytes)", len(b))
	}
	return hex.EncodeToString(b)
}

// bs is the canonical text of a byte/text field: nil and empty coincide; long values are hashed.
func bs(b []byte) string {
	if len(b) <= 48 {
		return fmt.Sprintf("%d:%x", len(b), b)
	}
	s := sha256.Sum256(b)
	return fmt.Sprintf("%d:sha256=%x", len(b), s[:12])
}

var digits = regexp.MustCompile(`[0-9]+`)

// errClass strips the variable parts of an error text.
func errClass(err error) string {
	if err == nil {
		return "nil"
	}
	s := digits.ReplaceAllString(err.Error(), "N")
	s = strings.Join(strings.Fields(s), " ")
	if len(s) > 70 {
		s = s[:70]
	}
	return s
}

// decoder reads one value from r and returns its canonical text.
type decoder func(r io.Reader) (string, error)

// safe runs a decoder and turns a panic into an error.
func safe(d decoder, r io.Reader) (s string, err error) {
	defer func() {
		if p := recover(); p != nil {
			err = fmt.Errorf("panic: %v", p)
		}
	}()
	return d(r)
}

func isPanic(err error) bool { return err != nil && strings.HasPrefix(err.Error(), "panic:") }

// ck bundles the run and the oracles.
type ck struct {
	r     *report.Run
	fails map[string]int // violations per bucket (format/class): circuit breaker
}

// breakerLimit: after this many violations in one bucket (format/class) the remaining cases of the bucket are
// skipped in this process. A decoder that lost alignment interprets payload bytes as length fields and may
// allocate gigabytes per case; three witnesses per class are all the report keeps anyway.
const breakerLimit = 3

func (k *ck) tripped(bucket string) bool {
	if k.fails[bucket] >= breakerLimit {
		k.r.Count("skipped_after_violations."+bucket, 1)
		return true
	}
	return false
}

// violation records an oracle failure and feeds the circuit breaker of its bucket.
func (k *ck) violation(bucket, sig, msg string, witness interface{}) {
	if k.fails == nil {
		k.fails = map[string]int{}
	}
	k.fails[bucket]++
	k.r.Violation(sig, msg, witness)
}

// limitAddressSpace is the safety net behind the breaker: the repository's decoders allocate buffers of the
// size announced on the wire, so a decoder that lost alignment can ask for tens of gigabytes at once. With the
// address space capped such a request is a fatal error of this process, which the driver attributes to the
// journalled case (a violation with a crash signature) instead of the machine running out of memory. The
// workloads of this check need about 0.1 GB resident / 1.4 GB virtual on the unchanged tree.
func limitAddressSpace() {
	lim := syscall.Rlimit{Cur: 4 << 30, Max: 4 << 30}
	_ = syscall.Setrlimit(syscall.RLIMIT_AS, &lim)
}

// wellFormedItems checks with the harness' own CBOR walker that enc is exactly n consecutive data items.
func wellFormedItems(enc []byte, n int) bool {
	i := 0
	for k := 0; k < n; k++ {
		j, err := model.SkipItem(enc, i, 0)
		if err != nil {
			return false
		}
		i = j
	}
	return i == len(enc)
}

// roundtrip applies the value oracles to one encoded value:
//
//	(a) CBOR formats: the encoding is exactly cborItems well-formed data items (independent walker);
//	(b) decoding the encoding (followed by sentinel bytes) succeeds, gives an equal value (canonical text)
//	    and took exactly len(enc) bytes from the stream;
//	(c) decoding the bare encoding delivered one byte per Read call succeeds with the same value and ends
//	    exactly at the end of the encoding.
//
// It returns true when everything held.
func (k *ck) roundtrip(format, class, want string, enc []byte, cborItems int, dec decoder, witness interface{}) bool {
	bucket := format + "/" + class
	if k.tripped(bucket) {
		return false
	}
	w := func() map[string]interface{} {
		return map[string]interface{}{"format": format, "class": class, "value": witness, "want": want, "encoding": hx(enc)}
	}
	if cborItems > 0 && !wellFormedItems(enc, cborItems) {
		k.violation(bucket, "c17."+format+".encoding-not-wellformed:"+class,
			fmt.Sprintf("the encoder's output is not exactly %d well-formed CBOR item(s)", cborItems), w())
		return false
	}
	stream := append(append(make([]byte, 0, len(enc)+len(sentinel)), enc...), sentinel...)
	cr := &countingReader{r: bytes.NewReader(stream)}
	got, err := safe(dec, cr)
	if err != nil {
		k.violation(bucket, "c17."+format+".decode-own-encoding:"+class+":"+errClass(err),
			"the decoder rejects the encoder's output: "+err.Error(), w())
		return false
	}
	if got != want {
		m := w()
		m["got"] = got
		k.violation(bucket, "c17."+format+".roundtrip:"+class, "decoded value differs from the encoded one: want "+clip(want)+" got "+clip(got), m)
		return false
	}
	if cr.n != len(enc) {
		m := w()
		m["consumed"] = cr.n
		m["encoded_len"] = len(enc)
		dir := "more"
		if cr.n < len(enc) {
			dir = "fewer"
		}
		k.violation(bucket, "c17."+format+".consumed-"+dir+":"+class,
			fmt.Sprintf("decoder consumed %d bytes, the encoder produced %d", cr.n, len(enc)), m)
		return false
	}
	// one byte per Read, stream ends exactly at the end of the encoding
	cr2 := &countingReader{r: bytes.NewReader(enc)}
	got2, err := safe(dec, iotest.OneByteReader(cr2))
	if err != nil || got2 != want || cr2.n != len(enc) {
		m := w()
		m["got"] = got2
		m["consumed"] = cr2.n
		m["error"] = fmt.Sprint(err)
		k.violation(bucket, "c17."+format+".exact-end:"+class,
			"decoding the bare encoding from a byte-wise reader failed or differed: "+fmt.Sprint(err), m)
		return false
	}
	k.r.Evals(2)
	k.r.Nontrivial(format, enc)
	k.r.Count(format+".roundtripped", 1)
	return true
}

func clip(s string) string {
	if len(s) > 200 {
		return s[:200] + "..."
	}
	return s
}

// mustReject demands that the decoder refuses the bytes (an invalid field value).
func (k *ck) mustReject(format, class string, enc []byte, dec decoder, witness interface{}) bool {
	bucket := format + "/reject/" + class
	if k.tripped(bucket) {
		return false
	}
	cr := &countingReader{r: bytes.NewReader(append(append([]byte{}, enc...), sentinel...))}
	got, err := safe(dec, cr)
	k.r.Evals(1)
	if isPanic(err) {
		k.violation(bucket, "c17."+format+".panic:"+class, err.Error(), map[string]interface{}{"format": format, "class": class, "value": witness, "encoding": hx(enc)})
		return false
	}
	if err == nil {
		k.violation(bucket, "c17."+format+".accepts-invalid:"+class, "an invalid field value is accepted and decoded as "+clip(got),
			map[string]interface{}{"format": format, "class": class, "value": witness, "encoding": hx(enc), "decoded": got})
		return false
	}
	k.r.Count(format+".rejected_invalid", 1)
	k.r.Count(format+".rejected_invalid."+class, 1)
	return true
}

// stream decodes k concatenated encodings from ONE reader (optionally through one bufio.Reader, as the node's
// TCPCLv4 message switch does) and demands: the decoded list equals the input list, the stream is used up
// exactly, and one further read finds the end of the stream.
func (k *ck) stream(format string, wants []string, encs [][]byte, decAt func(i int) decoder, buffered bool, witness interface{}) bool {
	bucket := "stream/" + format
	if k.tripped(bucket) {
		return false
	}
	var all []byte
	offs := make([]int, 0, len(encs)+1)
	for _, e := range encs {
		offs = append(offs, len(all))
		all = append(all, e...)
	}
	offs = append(offs, len(all))
	cr := &countingReader{r: bytes.NewReader(all)}
	var rd io.Reader = cr
	var br *bufio.Reader
	mode := "plain"
	if buffered {
		br = bufio.NewReader(cr)
		rd = br
		mode = "bufio"
	}
	w := func(i int) map[string]interface{} {
		return map[string]interface{}{"format": format, "mode": mode, "messages": witness, "failed_at": i, "offsets": offs, "stream": hx(all)}
	}
	for i := range encs {
		got, err := safe(decAt(i), rd)
		if err != nil {
			k.violation(bucket, "c17."+format+".stream-misaligned:decode-error", fmt.Sprintf("message %d of %d on one stream is rejected: %v", i, len(encs), err), w(i))
			return false
		}
		if got != wants[i] {
			m := w(i)
			m["want"] = wants[i]
			m["got"] = got
			k.violation(bucket, "c17."+format+".stream-misaligned:value", fmt.Sprintf("message %d of %d read from one stream differs", i, len(encs)), m)
			return false
		}
		if !buffered && cr.n != offs[i+1] {
			m := w(i)
			m["consumed"] = cr.n
			k.violation(bucket, "c17."+format+".stream-misaligned:offset", fmt.Sprintf("after message %d the reader is at offset %d, the message ends at %d", i, cr.n, offs[i+1]), m)
			return false
		}
	}
	// the stream must end exactly here
	left := len(all) - cr.n // bytes not yet handed to the decoder side
	if br != nil {
		left += br.Buffered()
	}
	_, err := safe(decAt(len(encs)), rd)
	if err == nil || isPanic(err) || left != 0 {
		m := w(len(encs))
		m["error_after_last"] = fmt.Sprint(err)
		m["bytes_left"] = left
		k.violation(bucket, "c17."+format+".stream-does-not-end-exactly", fmt.Sprintf("after the last message: error %v, %d byte(s) left", err, left), m)
		return false
	}
	if errors.Is(err, io.EOF) && !errors.Is(err, io.ErrUnexpectedEOF) {
		k.r.Count("stream."+format+".clean_eof", 1)
	}
	k.r.Evals(len(encs))
	k.r.Count("stream."+format+".streams", 1)
	k.r.Count("stream."+format+".messages", len(encs))
	k.r.Nontrivial("stream", format, all)
	return true
}

// every returns the same decoder for every position of a stream.
func every(d decoder) func(int) decoder { return func(int) decoder { return d } }

// ---- generators of field values ----

// u64Bounds are 0, 1 and the maximum of every width up to 64 bit, plus the neighbours of the CBOR head widths.
var u64Bounds = []uint64{0, 1, 23, 24, 255, 256, 65535, 65536, 1<<32 - 1, 1 << 32, 1<<63 - 1, 1 << 63, 1<<64 - 1}

// lenBounds are the string / byte-field lengths named by the property.
var lenBounds = []int{0, 1, 23, 24, 255, 256, 65535}

func genU64(rng *report.Rand) uint64 {
	switch rng.Intn(4) {
	case 0:
		return u64Bounds[rng.Intn(len(u64Bounds))]
	case 1:
		return uint64(rng.Intn(300))
	case 2:
		return rng.Uint64() >> uint(rng.Intn(64))
	}
	return rng.Uint64()
}

func genLen(rng *report.Rand, max int) int {
	switch rng.Intn(6) {
	case 0:
		l := lenBounds[rng.Intn(len(lenBounds))]
		if l > max {
			l = max
		}
		return l
	case 1:
		return rng.Intn(max + 1)
	}
	return rng.Intn(40)
}

// genText draws a text of n bytes: mostly printable ASCII, sometimes arbitrary bytes.
func genText(rng *report.Rand, n int) string {
	if rng.Chance(1, 8) {
		return string(rng.Bytes(n))
	}
	b := make([]byte, n)
	for i := range b {
		b[i] = byte(0x20 + rng.Intn(0x5f))
	}
	return string(b)
}

// steppedLens are the lengths for the thorough tier: 0..65535 stepped, always including the boundaries.
func steppedLens(step int) []int {
	seen := map[int]bool{}
	var out []int
	add := func(l int) {
		if l >= 0 && l <= 65535 && !seen[l] {
			seen[l] = true
			out = append(out, l)
		}
	}
	for _, l := range lenBounds {
		add(l - 1)
		add(l)
		add(l + 1)
	}
	for l := 0; l <= 65535; l += step {
		add(l)
	}
	return out
}
