package c18

import (
	"fmt"
	"runtime"
	"sort"
	"sync"
	"sync/atomic"
	"testing"
	"time"

	"github.com/dtn7/dtn7-go/pkg/bpv7"
	"github.com/dtn7/dtn7-go/pkg/routing"
	"github.com/dtn7/dtn7-go/pkg/verifhook"

	"verifh/internal/bubble"
	"verifh/internal/model"
	"verifh/internal/nodesim"
	"verifh/internal/report"
)

const (
	evSubmit = iota
	evRx
	evUpRelay
	evUpDest
	evDown
	evToggleFail
	evTick
	evRestart
	evRxDuplicate // the most recently received bundle arrives once more
	evOwnBack     // a bundle this node originated comes back from a peer
	nEvents
)

var evNames = []string{"submit", "rx_with_copies", "up_relay", "up_dest", "down", "toggle_fail", "retry_tick", "restart", "rx_duplicate", "own_bundle_comes_back"}

type mb struct {
	pid      string
	local    bool
	held     uint64 // binary: copies held according to the reference; spray: budget L for local bundles, 1 otherwise
	okPeers  map[string]bool
	restarted bool // node restarted while holding it (in-memory bookkeeping is gone: only upper bounds are demanded)
	delivered bool
}

type scenario struct {
	r       *report.Run
	binary  bool
	L       uint64
	s       *nodesim.Sim
	up      map[string]bool
	failing bool
	bundles map[string]*mb
	order   []*mb
	n       int
	relays  int
	hist    []string
	viol    bool
	seen    int
	lastWire []byte
	lastFrom string
	lastPID  string
}

// held: does the node still keep the bundle with this payload id?
func (sc *scenario) held(pid string) bool {
	pend, err := sc.s.Pending()
	if err != nil {
		return false
	}
	for _, it := range pend {
		for _, p := range it.PIDs {
			if p == pid {
				return true
			}
		}
	}
	return false
}

func (sc *scenario) algo() string {
	if sc.binary {
		return "binary_spray"
	}
	return "spray"
}

func (sc *scenario) violation(sig, msg string) {
	if sc.viol {
		return
	}
	sc.viol = true
	var sends []string
	for _, x := range sc.s.Sends() {
		cp := "-"
		if b := x.Bundle.Find(model.TSpray); b != nil {
			cp = fmt.Sprint(b.U)
		}
		sends = append(sends, fmt.Sprintf("step=%d peer=%s pid=%s copies_announced=%s ok=%v", x.Step, x.Peer, x.PID, cp, x.OK))
	}
	sc.r.Violation(sig, msg, map[string]interface{}{"algorithm": sc.algo(), "L": sc.L, "history": sc.hist, "trace": sc.s.TraceStrings(), "sends": sends})
}

func (sc *scenario) firstUp() string {
	var names []string
	for n, u := range sc.up {
		if u {
			names = append(names, n)
		}
	}
	sort.Strings(names)
	if len(names) == 0 {
		return ""
	}
	return names[0]
}

func (sc *scenario) peerUp(name string) {
	if sc.up[name] {
		return
	}
	sc.up[name] = true
	sc.s.PeerUpWith(name, func(p *nodesim.Peer) {
		if sc.failing {
			p.Fail()
		}
	})
}

func (sc *scenario) apply(ev int, rng *report.Rand) {
	sc.hist = append(sc.hist, evNames[ev])
	switch ev {
	case evSubmit:
		sc.n++
		pid := fmt.Sprintf("s%d", sc.n)
		b, _ := bpv7.Builder().CRC(bpv7.CRC32).Source("dtn://node/app").Destination("dtn://far/in").CreationTimestampNow().Lifetime("24h").
			PayloadBlock(nodesim.Payload(pid, 4)).Build()
		m := &mb{pid: pid, local: true, held: sc.L, okPeers: map[string]bool{}}
		sc.bundles[pid] = m
		sc.order = append(sc.order, m)
		sc.s.Submit(b)
	case evRx:
		from := sc.firstUp()
		if from == "" || from == "far" {
			return
		}
		sc.n++
		pid := fmt.Sprintf("s%d", sc.n)
		k := []uint64{1, 2, 3, 5, 8}[rng.Intn(5)]
		m := model.Bundle{Version: 7, CRC: 2, Dst: model.Dtn("far", "in"), Src: model.Dtn("origin", "app"), Rpt: model.Dtn("origin", "app"),
			Time: bubble.NowMs() - 1000, Seq: uint64(sc.n), Lifetime: 86_400_000,
			Blocks: []model.Block{{Type: model.TPrevNode, Num: 2, Node: model.Dtn(from, "")}}}
		held := uint64(1)
		if sc.binary {
			m.Blocks = append(m.Blocks, model.Block{Type: model.TSpray, Num: 3, U: k})
			held = k
		}
		m.Blocks = append(m.Blocks, model.Block{Type: model.TPayload, Num: 1, CRC: 2, Data: nodesim.Payload(pid, 4)})
		wire, _ := m.Encode(nil)
		x := &mb{pid: pid, held: held, okPeers: map[string]bool{from: true}}
		sc.bundles[pid] = x
		sc.order = append(sc.order, x)
		sc.hist[len(sc.hist)-1] = fmt.Sprintf("rx_with_copies(%d)", held)
		if err := sc.s.Deliver(from, wire); err != nil {
			delete(sc.bundles, pid)
		} else {
			sc.lastWire, sc.lastFrom, sc.lastPID = wire, from, pid
		}
	case evRxDuplicate:
		// only while the node still holds the bundle: once it is gone, a further reception is a new bundle to the node
		if sc.lastWire != nil && sc.lastPID != "" && sc.held(sc.lastPID) {
			if from := sc.firstUp(); from != "" && from != "far" {
				_ = sc.s.Deliver(from, sc.lastWire)
			}
		}
	case evOwnBack:
		// a transmitted copy of a locally originated bundle the node still holds is handed back by a peer
		if from := sc.firstUp(); from != "" && from != "far" {
			for _, rec := range sc.s.Sends() {
				if b := sc.bundles[rec.PID]; b != nil && b.local && rec.ParseErr == "" && !b.delivered && sc.held(rec.PID) {
					_ = sc.s.Deliver(from, rec.Bytes)
					break
				}
			}
		}
	case evUpRelay:
		sc.relays++
		sc.peerUp(fmt.Sprintf("r%d", sc.relays))
	case evUpDest:
		sc.peerUp("far")
	case evDown:
		if n := sc.firstUp(); n != "" {
			sc.s.PeerDown(n)
			sc.up[n] = false
		}
	case evToggleFail:
		sc.failing = !sc.failing
		for n, u := range sc.up {
			if p := sc.s.Peer(n); u && p != nil {
				if sc.failing {
					p.Fail()
				} else {
					p.OK()
				}
			}
		}
	case evTick:
		sc.s.Tick(10 * time.Second)
	case evRestart:
		if err := sc.s.Restart(); err != nil {
			sc.violation("c18.restart-failed", err.Error())
			return
		}
		sc.up = map[string]bool{}
		for _, b := range sc.bundles {
			b.restarted = true
		}
	}
	sc.check()
}

// check processes the new send records in call order.
func (sc *scenario) check() {
	if sc.viol {
		return
	}
	all := sc.s.Sends()
	fresh := all[sc.seen:]
	sc.seen = len(all)
	sort.Slice(fresh, func(i, j int) bool { return fresh[i].CallNo < fresh[j].CallNo })
	for _, rec := range fresh {
		b := sc.bundles[rec.PID]
		if b == nil {
			continue
		}
		if rec.Peer == "far" {
			if rec.OK {
				b.delivered = true
			}
			continue
		}
		sc.r.Count("relay_transmissions.checked", 1)
		if sc.binary {
			blk := rec.Bundle.Find(model.TSpray)
			if blk == nil {
				sc.violation("c18.binary.no-block", fmt.Sprintf("bundle %s was relayed without a binary spray block", rec.PID))
				return
			}
			if b.held < 2 {
				sc.violation("c18.binary.single-copy-relayed", fmt.Sprintf("bundle %s: the node holds %d copy but relayed it to %s (announcing %d)", rec.PID, b.held, rec.Peer, blk.U))
				return
			}
			if !b.restarted && blk.U != b.held/2 {
				cls := "first-transmission"
				if len(b.okPeers) > 0 {
					cls = "later-transmission"
				}
				sc.violation("c18.binary.announced-not-half:"+cls, fmt.Sprintf("bundle %s: the node holds %d copies, the transmission to %s announces %d (expected %d)", rec.PID, b.held, rec.Peer, blk.U, b.held/2))
				return
			}
			if b.restarted && blk.U > b.held/2 {
				sc.violation("c18.binary.announced-more-than-half", fmt.Sprintf("bundle %s: at most %d copies may be announced, %d were", rec.PID, b.held/2, blk.U))
				return
			}
			if rec.OK {
				b.held -= blk.U
				b.okPeers[rec.Peer] = true
			}
		} else {
			if rec.OK {
				b.okPeers[rec.Peer] = true
			}
			relayed := 0
			for p := range b.okPeers {
				if p != "far" {
					relayed++
				}
			}
			budget := uint64(0)
			if b.local {
				budget = sc.L - 1
			} else {
				relayed-- // the previous node is in okPeers
			}
			if uint64(relayed) > budget {
				sc.violation("c18.spray.budget-exceeded", fmt.Sprintf("bundle %s was transmitted successfully to %d relays, budget L-1 = %d", rec.PID, relayed, budget))
				return
			}
			if !b.local {
				sc.violation("c18.spray.foreign-bundle-relayed", fmt.Sprintf("bundle %s was received from another node (one copy) but relayed to %s", rec.PID, rec.Peer))
				return
			}
		}
	}
}

// probe offers plenty of fresh, working relays at the end of a history: exactly the retained copies must be spent.
func (sc *scenario) probe() {
	if sc.viol {
		return
	}
	if sc.up["far"] {
		sc.s.PeerDown("far")
		sc.up["far"] = false
	}
	sc.failing = false
	for n, u := range sc.up {
		if p := sc.s.Peer(n); u && p != nil {
			p.OK()
		}
	}
	sc.hist = append(sc.hist, "probe: retry tick, then fresh working relays appear one by one")
	sc.s.Tick(10 * time.Second)
	sc.check()
	before := map[string]int{}
	heldBefore := map[string]uint64{}
	for pid, b := range sc.bundles {
		before[pid] = len(b.okPeers)
		heldBefore[pid] = b.held
	}
	_ = heldBefore
	for i := 0; i < int(sc.L)+3; i++ {
		sc.relays++
		sc.peerUp(fmt.Sprintf("q%d", sc.relays))
		sc.check()
		if sc.viol {
			return
		}
	}
	for i := 0; i < 2; i++ {
		sc.s.Tick(10 * time.Second)
		sc.check()
	}
	if sc.viol {
		return
	}
	pend, _ := sc.s.Pending()
	heldPID := map[string]bool{}
	for _, it := range pend {
		for _, p := range it.PIDs {
			heldPID[p] = true
		}
	}
	for _, b := range sc.order {
		if b.delivered || b.restarted || !heldPID[b.pid] || !b.local {
			continue
		}
		sc.r.Count("probe.bundles_checked", 1)
		if sc.binary {
			// with enough relays the node ends up holding a single copy
			if b.held != 1 {
				sc.violation("c18.binary.copies-not-spendable", fmt.Sprintf("bundle %s: after plenty of working relays the node should hold 1 copy, the reference says %d (copies were lost by a failed transmission?)", b.pid, b.held))
				return
			}
		} else {
			relayed := 0
			for p := range b.okPeers {
				if p != "far" {
					relayed++
				}
			}
			if uint64(relayed) != sc.L-1 {
				sc.violation("c18.spray.copies-leaked", fmt.Sprintf("bundle %s: budget L-1 = %d, but only %d relays could be served although %d fresh working relays appeared (a failed transmission did not give its copy back?)",
					b.pid, sc.L-1, relayed, sc.L+3))
				return
			}
		}
	}
}

func runHistory(r *report.Run, binary bool, L uint64, evs []int, rng *report.Rand) error {
	return bubble.Run(nil, func(t *testing.T) {
		algo := "spray"
		if binary {
			algo = "binary_spray"
		}
		conf := nodesim.RoutingConf(algo)
		conf.SprayConf = routing.SprayConfig{Multiplicity: L}
		s, err := nodesim.New(nodesim.Config{Routing: conf})
		if err != nil {
			r.Violation("c18.open-failed", err.Error(), nil)
			return
		}
		defer s.Close()
		sc := &scenario{r: r, binary: binary, L: L, s: s, up: map[string]bool{}, bundles: map[string]*mb{}}
		for _, ev := range evs {
			sc.apply(ev, rng)
			if sc.viol {
				return
			}
		}
		sc.probe()
		if !sc.viol && len(sc.bundles) > 0 {
			r.Nontrivial(algo, L, fmt.Sprint(sc.hist))
			r.Count("histories."+algo, 1)
		}
	})
}

// concurrentFailures: k relays are chosen for one bundle, all transmissions fail at the same moment.
func concurrentFailures(r *report.Run, L uint64, k int) error {
	return bubble.Run(nil, func(t *testing.T) {
		conf := nodesim.RoutingConf("spray")
		conf.SprayConf = routing.SprayConfig{Multiplicity: L}
		s, err := nodesim.New(nodesim.Config{Routing: conf})
		if err != nil {
			return
		}
		defer s.Close()
		sc := &scenario{r: r, L: L, s: s, up: map[string]bool{}, bundles: map[string]*mb{}}
		var arrived, forced int32
		verifhook.Set("routing.spray.reportfailure.rmw", func() {
			if atomic.AddInt32(&arrived, 1) == 1 {
				for spin := 0; spin < 200000 && atomic.LoadInt32(&arrived) < 2; spin++ {
					runtime.Gosched()
				}
				if atomic.LoadInt32(&arrived) >= 2 {
					atomic.StoreInt32(&forced, 1)
				}
			}
		})
		defer verifhook.Set("routing.spray.reportfailure.rmw", nil)
		gate := make(chan struct{})
		for i := 0; i < k; i++ {
			n := fmt.Sprintf("r%d", i+1)
			sc.up[n] = true
			s.PeerUpWith(n, func(p *nodesim.Peer) { p.Fail(); p.Gate = gate })
		}
		sc.relays = k
		sc.hist = []string{fmt.Sprintf("%d relays connected, their sends are parked", k), "submit", "all parked sends fail together"}
		b, _ := bpv7.Builder().CRC(bpv7.CRC32).Source("dtn://node/app").Destination("dtn://far/in").CreationTimestampNow().Lifetime("24h").
			PayloadBlock(nodesim.Payload("cf", 4)).Build()
		m := &mb{pid: "cf", local: true, held: L, okPeers: map[string]bool{}}
		sc.bundles["cf"] = m
		sc.order = append(sc.order, m)
		s.Step("submit_gated", "cf")
		var wg sync.WaitGroup
		wg.Add(1)
		go func() { defer wg.Done(); s.Core.SendBundle(&b) }()
		s.Wait()
		close(gate)
		wg.Wait()
		s.Wait()
		n := 0
		for _, rec := range s.Sends() {
			if rec.PID == "cf" {
				n++
			}
		}
		for i := 0; i < k; i++ {
			p := s.Peer(fmt.Sprintf("r%d", i+1))
			p.Gate = nil
			s.PeerDown(p.Name)
			sc.up[p.Name] = false
		}
		sc.check()
		r.Count("simultaneous_failures", n)
		if atomic.LoadInt32(&forced) == 1 {
			r.Count("interleaving_forced_at_hook", 1)
		} else {
			r.Count("hook_serialised_by_lock", 1)
		}
		sc.probe()
		if !sc.viol && n >= 2 {
			r.Nontrivial("concurrent", L, k, n)
		}
	})
}

func TestCheck(t *testing.T) {
	bubble.Quiet()
	bubble.SetT(t)
	r := report.Start(t, "C18")
	defer r.Finish()
	bubble.WatchDeadlocks(3, func(frame, dump string) { r.DeadlockVerdict("c18", frame, dump) })

	run := func(binary bool, L uint64, evs []int, rng *report.Rand) {
		if err := runHistory(r, binary, L, evs, rng); err != nil {
			names := make([]string, len(evs))
			for i, e := range evs {
				names[i] = evNames[e]
			}
			r.Violation("c18.node-deadlock-or-panic", err.Error(), map[string]interface{}{"binary": binary, "L": L, "history": names})
		}
	}

	alpha := []int{evSubmit, evRx, evUpRelay, evUpDest, evDown, evToggleFail, evTick}
	depth := r.Pick(3, 4)
	n := 1
	for i := 0; i < depth; i++ {
		n *= len(alpha)
	}
	for _, binary := range []bool{false, true} {
		binary := binary
		name := "exh-spray"
		if binary {
			name = "exh-binary"
		}
		r.Group(name, n, func(i int, rng *report.Rand) {
			evs := []int{evUpRelay, evSubmit}
			x := i
			for k := 0; k < depth; k++ {
				evs = append(evs, alpha[x%len(alpha)])
				x /= len(alpha)
			}
			run(binary, uint64(2+i%7), evs, rng)
		})
	}
	r.Exhaustive("histories of the stated depth behind [relay appears, submit], budgets rotating over 2..8")

	for _, binary := range []bool{false, true} {
		binary := binary
		name := "random-spray"
		if binary {
			name = "random-binary"
		}
		r.Group(name, r.Pick(400, 2000), func(i int, rng *report.Rand) {
			L := uint64(1 + rng.Intn(8))
			m := 4 + rng.Intn(20)
			evs := make([]int, m)
			for k := range evs {
				evs[k] = rng.Intn(nEvents)
				if evs[k] == evRestart && rng.Chance(2, 3) {
					evs[k] = evUpRelay
				}
			}
			run(binary, L, evs, rng)
			if i == 0 {
				names := make([]string, len(evs))
				for k, e := range evs {
					names[k] = evNames[e]
				}
				r.Sample(map[string]interface{}{"binary": binary, "L": L, "history": names})
			}
		})
	}

	r.Group("concurrent-failures", r.Pick(21, 210), func(i int, rng *report.Rand) {
		L := uint64(3 + i%6)
		k := 2 + i%3
		if err := concurrentFailures(r, L, k); err != nil {
			r.Violation("c18.node-deadlock-or-panic", err.Error(), map[string]interface{}{"workload": "concurrent-failures"})
		}
	})
}
