package c19

import (
	"fmt"
	"math"
	"sort"
	"testing"
	"time"

	"github.com/dtn7/dtn7-go/pkg/bpv7"
	"github.com/dtn7/dtn7-go/pkg/routing"

	"verifh/internal/bubble"
	"verifh/internal/model"
	"verifh/internal/nodesim"
	"verifh/internal/report"
)

var specials = []float64{0, 1, math.SmallestNonzeroFloat64, 1 - 1.0/(1<<53), 0.5}

func prob(rng *report.Rand) float64 {
	if rng.Chance(1, 2) {
		return specials[rng.Intn(len(specials))]
	}
	return rng.Float64()
}

func bits(f float64) uint64 { return math.Float64bits(f) }

type scenario struct {
	r      *report.Run
	s      *nodesim.Sim
	p      *routing.Prophet
	conf   routing.ProphetConfig
	up     map[string]bool
	adv    map[string]map[string]float64 // peer -> advertised vector (by EID string), as last delivered
	hist   []string
	viol   bool
	n      int
	seen   int
	data   map[string]string // pid -> destination EID string
}

func (sc *scenario) violation(sig, msg string) {
	if sc.viol {
		return
	}
	sc.viol = true
	sc.r.Violation(sig, msg, map[string]interface{}{"config": fmt.Sprintf("%+v", sc.conf), "history": sc.hist, "trace": sc.s.TraceStrings()})
}

func (sc *scenario) own() map[string]float64 {
	out := map[string]float64{}
	for k, v := range sc.p.VerifPredictabilities() {
		out[k.String()] = v
	}
	return out
}

func (sc *scenario) peerVec() map[string]map[string]float64 {
	out := map[string]map[string]float64{}
	for p, m := range sc.p.VerifPeerPredictabilities() {
		mm := map[string]float64{}
		for k, v := range m {
			mm[k.String()] = v
		}
		out[p.String()] = mm
	}
	return out
}

func (sc *scenario) rangeCheck(own map[string]float64, where string) bool {
	for k, v := range own {
		sc.r.Count("values.range_checked", 1)
		if !(v >= 0 && v <= 1) { // also catches NaN
			sc.violation("c19.out-of-range:"+where, fmt.Sprintf("delivery predictability for %s is %v (after %s)", k, v, where))
			return false
		}
	}
	return true
}

var names = []string{"a", "b", "c", "d"}
var dests = []string{"dtn://a/", "dtn://b/", "dtn://far/", "dtn://far/in", "dtn://c/app"}

func (sc *scenario) step(rng *report.Rand) {
	before := sc.own()
	peersBefore := sc.peerVec()
	kind := rng.Intn(10)
	switch {
	case kind < 3: // encounter
		x := names[rng.Intn(len(names))]
		if sc.up[x] {
			sc.s.PeerDown(x)
			sc.up[x] = false
		}
		sc.hist = append(sc.hist, "encounter "+x)
		sc.up[x] = true
		sc.s.PeerUp(x)
		after := sc.own()
		if !sc.rangeCheck(after, "encounter") {
			return
		}
		key := "dtn://" + x + "/"
		if after[key] < before[key] {
			sc.violation("c19.encounter-lowered", fmt.Sprintf("encounter with %s lowered its predictability from %v to %v", x, before[key], after[key]))
			return
		}
		for k, v := range before {
			if k != key && bits(after[k]) != bits(v) {
				sc.violation("c19.encounter-changed-others", fmt.Sprintf("encounter with %s changed the predictability of %s from %v to %v", x, k, v, after[k]))
				return
			}
		}
		sc.r.Count("events.encounter", 1)
		// the node's own vector as advertised in the metadata bundle to the peer
		for _, rec := range sc.s.Sends()[sc.seen:] {
			if blk := rec.Bundle.Find(model.TProphet); blk != nil && rec.Peer == x {
				for _, pp := range blk.Preds {
					v := math.Float64frombits(pp.Bits)
					sc.r.Count("values.advertised_checked", 1)
					if !(v >= 0 && v <= 1) {
						sc.violation("c19.advertised-out-of-range", fmt.Sprintf("metadata bundle advertises %v for %s", v, pp.Peer))
						return
					}
					if bits(after[pp.Peer.String()]) != pp.Bits {
						sc.violation("c19.advertised-differs", fmt.Sprintf("metadata bundle advertises %v for %s, the node holds %v", v, pp.Peer, after[pp.Peer.String()]))
						return
					}
				}
			}
		}
	case kind < 5: // ageing tick(s)
		n := 1 + rng.Intn(3)
		sc.hist = append(sc.hist, fmt.Sprintf("age x%d", n))
		sc.s.Tick(time.Duration(n) * 10 * time.Second)
		after := sc.own()
		if !sc.rangeCheck(after, "ageing") {
			return
		}
		for k, v := range before {
			if after[k] > v {
				sc.violation("c19.ageing-raised", fmt.Sprintf("ageing raised the predictability of %s from %v to %v", k, v, after[k]))
				return
			}
		}
		sc.r.Count("events.ageing", 1)
	case kind < 8: // summary vector from a connected peer
		var ups []string
		for n, u := range sc.up {
			if u {
				ups = append(ups, n)
			}
		}
		sort.Strings(ups)
		if len(ups) == 0 {
			return
		}
		x := ups[rng.Intn(len(ups))]
		vec := map[string]float64{}
		var preds []model.PeerPred
		for _, d := range []string{"dtn://a/", "dtn://b/", "dtn://c/", "dtn://far/", "dtn://far/in", "dtn://node/"} {
			if rng.Chance(2, 3) {
				v := prob(rng)
				vec[d] = v
				e, _ := bpv7.NewEndpointID(d)
				preds = append(preds, model.PeerPred{Peer: model.EIDFromBpv7(e), Bits: bits(v)})
			}
		}
		sc.n++
		m := model.Bundle{Version: 7, CRC: 2, Flags: model.FNoFragment, Dst: model.Dtn("node", ""), Src: model.Dtn(x, ""), Rpt: model.Dtn(x, ""),
			Time: bubble.NowMs(), Seq: uint64(sc.n), Lifetime: 60000,
			Blocks: []model.Block{{Type: model.TProphet, Num: 2, Preds: preds}, {Type: model.TPayload, Num: 1, Data: []byte{1}}}}
		wire, _ := m.Encode(nil)
		sc.hist = append(sc.hist, fmt.Sprintf("vector from %s %v", x, vec))
		if err := sc.s.Deliver(x, wire); err != nil {
			sc.r.Count("harness.vector_rejected", 1)
			return
		}
		sc.adv[x] = vec
		after := sc.own()
		if !sc.rangeCheck(after, "summary-vector") {
			return
		}
		for k, v := range before {
			if after[k] < v {
				sc.violation("c19.transitive-lowered", fmt.Sprintf("summary vector from %s lowered the predictability of %s from %v to %v", x, k, v, after[k]))
				return
			}
		}
		sc.r.Count("events.summary_vector", 1)
	default: // data bundle
		d := dests[rng.Intn(len(dests))]
		sc.n++
		pid := fmt.Sprintf("d%d", sc.n)
		b, err := bpv7.Builder().CRC(bpv7.CRC32).Source("dtn://node/app").Destination(d).CreationTimestampNow().Lifetime("24h").
			PayloadBlock(nodesim.Payload(pid, 4)).Build()
		if err != nil {
			return
		}
		sc.data[pid] = d
		sc.hist = append(sc.hist, "data bundle for "+d)
		sc.s.Submit(b)
		sc.r.Count("events.data_bundle", 1)
	}
	// forwarding gate for every data transmission of this step
	after := sc.own()
	peersAfter := sc.peerVec()
	all := sc.s.Sends()
	fresh := all[sc.seen:]
	sc.seen = len(all)
	for _, rec := range fresh {
		d, ok := sc.data[rec.PID]
		if !ok {
			continue
		}
		de, _ := bpv7.NewEndpointID(d)
		peerNode := "dtn://" + rec.Peer + "/"
		pe, _ := bpv7.NewEndpointID(peerNode)
		if pe.SameNode(de) {
			sc.r.Count("gate.direct_delivery", 1)
			continue
		}
		sc.r.Count("gate.relay_transmissions_checked", 1)
		okBefore := peersBefore[peerNode][d] > before[d]
		okAfter := peersAfter[peerNode][d] > after[d]
		if !okBefore && !okAfter {
			cls := "lower"
			if peersAfter[peerNode][d] == after[d] {
				cls = "tie"
			}
			if _, known := peersAfter[peerNode]; !known {
				cls = "unknown-peer"
			}
			sc.violation("c19.gate:"+cls, fmt.Sprintf("data bundle for %s was offered to %s whose advertised predictability %v is not greater than the node's own %v", d, rec.Peer, peersAfter[peerNode][d], after[d]))
			return
		}
	}
}

func runSequence(r *report.Run, conf routing.ProphetConfig, steps int, rng *report.Rand) error {
	return bubble.Run(nil, func(t *testing.T) {
		rc := nodesim.RoutingConf("prophet")
		rc.ProphetConf = conf
		s, err := nodesim.New(nodesim.Config{Routing: rc})
		if err != nil {
			r.Violation("c19.open-failed", err.Error(), nil)
			return
		}
		defer s.Close()
		p, ok := s.Core.VerifAlgorithm().(*routing.Prophet)
		if !ok {
			r.Violation("c19.not-prophet", "algorithm is not PRoPHET", nil)
			return
		}
		sc := &scenario{r: r, s: s, p: p, conf: conf, up: map[string]bool{}, adv: map[string]map[string]float64{}, data: map[string]string{}}
		for i := 0; i < steps && !sc.viol; i++ {
			sc.step(rng)
		}
		if !sc.viol {
			r.Nontrivial(fmt.Sprintf("%+v", conf), fmt.Sprint(sc.hist))
		}
	})
}

// gateGrid: orderings of (own, advertised) predictability for the destination. Beta is 0, so summary vectors never
// change the node's own values; own(far) is produced by k encounters with far itself.
func gateGrid(r *report.Run, i int) error {
	type ownCase struct {
		pinit float64
		k     int
	}
	owns := []ownCase{{0.25, 0}, {0.25, 1}, {0.25, 2}, {1, 1}}
	peers := []float64{0, math.SmallestNonzeroFloat64, 0.25, 0.4375, 1 - 1.0/(1<<53), 1}
	oc := owns[i%len(owns)]
	pi := (i / len(owns)) % (len(peers) + 1)
	unknownPeer := pi == len(peers)
	peerV := 0.0
	if !unknownPeer {
		peerV = peers[pi]
	}
	return bubble.Run(nil, func(t *testing.T) {
		rc := nodesim.RoutingConf("prophet")
		rc.ProphetConf = routing.ProphetConfig{PInit: oc.pinit, Beta: 0, Gamma: 1, AgeInterval: "1h"}
		s, err := nodesim.New(nodesim.Config{Routing: rc})
		if err != nil {
			return
		}
		defer s.Close()
		p := s.Core.VerifAlgorithm().(*routing.Prophet)
		for k := 0; k < oc.k; k++ {
			s.PeerUp("far")
			s.PeerDown("far")
		}
		mk := func(from string, dst string, v float64, seq uint64) []byte {
			e, _ := bpv7.NewEndpointID(dst)
			m := model.Bundle{Version: 7, CRC: 2, Flags: model.FNoFragment, Dst: model.Dtn("node", ""), Src: model.Dtn(from, ""), Rpt: model.Dtn(from, ""),
				Time: bubble.NowMs(), Seq: seq, Lifetime: 60000,
				Blocks: []model.Block{{Type: model.TProphet, Num: 2, Preds: []model.PeerPred{{Peer: model.EIDFromBpv7(e), Bits: bits(v)}}}, {Type: model.TPayload, Num: 1, Data: []byte{1}}}}
			w, _ := m.Encode(nil)
			return w
		}
		s.PeerUp("x")
		if !unknownPeer {
			_ = s.Deliver("x", mk("x", "dtn://far/", peerV, 2))
		}
		far, _ := bpv7.NewEndpointID("dtn://far/")
		x, _ := bpv7.NewEndpointID("dtn://x/")
		gotOwn := p.VerifPredictabilities()[far]
		gotPeer := p.VerifPeerPredictabilities()[x][far]
		b, _ := bpv7.Builder().CRC(bpv7.CRC32).Source("dtn://node/app").Destination("dtn://far/").CreationTimestampNow().Lifetime("24h").
			PayloadBlock(nodesim.Payload("g", 4)).Build()
		s.Submit(b)
		s.Tick(10 * time.Second)
		sent := false
		for _, rec := range s.Sends() {
			if rec.PID == "g" && rec.Peer == "x" {
				sent = true
			}
		}
		r.Count("grid.cases", 1)
		want := gotPeer > gotOwn
		if sent && !want {
			cls := "lower"
			if gotPeer == gotOwn {
				cls = "tie"
			}
			if unknownPeer {
				cls = "unknown-peer"
			}
			r.Violation("c19.gate:"+cls, fmt.Sprintf("own predictability %v, peer's advertised %v (peer vector known: %v): the bundle was offered", gotOwn, gotPeer, !unknownPeer),
				map[string]interface{}{"own": gotOwn, "peer": gotPeer, "trace": s.TraceStrings()})
			return
		}
		if want && sent {
			r.Count("grid.offered_when_strictly_greater", 1)
		}
		if want && !sent {
			r.Count("grid.not_offered_although_greater_(not_demanded)", 1)
		}
		if !want {
			r.Count("grid.withheld_when_not_greater", 1)
		}
		r.Nontrivial("grid", bits(gotOwn), bits(gotPeer), unknownPeer)
	})
}

// concurrent: peers appear, vectors arrive and ageing ticks fire at the same virtual instants.
func concurrent(r *report.Run, i int, rng *report.Rand) error {
	return bubble.Run(nil, func(t *testing.T) {
		rc := nodesim.RoutingConf("prophet")
		rc.ProphetConf = routing.ProphetConfig{PInit: 0.5, Beta: 0.5, Gamma: 0.9, AgeInterval: "1s"}
		s, err := nodesim.New(nodesim.Config{Routing: rc})
		if err != nil {
			return
		}
		defer s.Close()
		p := s.Core.VerifAlgorithm().(*routing.Prophet)
		// a big own vector makes serialisation of the metadata block long enough to overlap with the ageing job
		s.PeerUp("seed")
		var preds []model.PeerPred
		for k := 0; k < 400; k++ {
			preds = append(preds, model.PeerPred{Peer: model.Dtn(fmt.Sprintf("n%d", k), ""), Bits: bits(0.5)})
		}
		m := model.Bundle{Version: 7, CRC: 2, Flags: model.FNoFragment, Dst: model.Dtn("node", ""), Src: model.Dtn("seed", ""), Rpt: model.Dtn("seed", ""),
			Time: bubble.NowMs(), Seq: 1, Lifetime: 60000,
			Blocks: []model.Block{{Type: model.TProphet, Num: 2, Preds: preds}, {Type: model.TPayload, Num: 1, Data: []byte{1}}}}
		w, _ := m.Encode(nil)
		_ = s.Deliver("seed", w)
		b, _ := bpv7.Builder().CRC(bpv7.CRC32).Source("dtn://node/app").Destination("dtn://n7/").CreationTimestampNow().Lifetime("24h").
			PayloadBlock(nodesim.Payload("c", 4)).Build()
		s.Submit(b)
		for round := 0; round < 6; round++ {
			// sleep to 1 ns before the next full second (cron ticker), then let things happen at the tick instant
			now := time.Now()
			next := now.Truncate(time.Second).Add(time.Second)
			time.Sleep(next.Sub(now) - time.Nanosecond)
			s.Wait()
			name := fmt.Sprintf("p%d-%d", i, round)
			go func() {
				time.Sleep(time.Nanosecond)
				s.PeerUpNoWait(name)
			}()
			go func() {
				time.Sleep(time.Nanosecond)
				if q := s.Peer("seed"); q != nil {
					pb, err := bpv7.ParseBundle(bytesReader(w))
					if err == nil {
						pb.PrimaryBlock.CreationTimestamp[1] = uint64(100 + round)
						q.Inject(&pb)
					}
				}
			}()
			time.Sleep(2 * time.Nanosecond)
			s.Wait()
			for k, v := range p.VerifPredictabilities() {
				if !(v >= 0 && v <= 1) {
					r.Violation("c19.out-of-range:concurrent", fmt.Sprintf("%s = %v", k, v), nil)
					return
				}
			}
		}
		r.Count("concurrent.rounds", 6)
		r.Nontrivial("concurrent", i)
	})
}

func TestCheck(t *testing.T) {
	bubble.Quiet()
	bubble.SetT(t)
	r := report.Start(t, "C19")
	defer r.Finish()
	bubble.WatchDeadlocks(3, func(frame, dump string) { r.DeadlockVerdict("c19", frame, dump) })

	r.Group("sequences", r.Pick(96, 320), func(i int, rng *report.Rand) {
		conf := routing.ProphetConfig{PInit: prob(rng), Beta: prob(rng), Gamma: prob(rng), AgeInterval: "10s"}
		if err := runSequence(r, conf, r.Pick(100, 600), rng); err != nil {
			r.Violation("c19.node-deadlock-or-panic", err.Error(), map[string]interface{}{"config": fmt.Sprintf("%+v", conf)})
		}
		if i == 0 {
			r.Sample(map[string]interface{}{"config": fmt.Sprintf("%+v", conf), "steps": r.Pick(100, 600)})
		}
	})
	r.Group("gate-grid", 28, func(i int, rng *report.Rand) {
		if err := gateGrid(r, i); err != nil {
			r.Violation("c19.node-deadlock-or-panic", err.Error(), map[string]interface{}{"workload": "gate-grid", "i": i})
		}
	})
	r.Exhaustive("forwarding gate: 4 own values x 6 advertised values + unknown-peer row")
	r.Group("concurrent", r.Pick(50, 500), func(i int, rng *report.Rand) {
		if err := concurrent(r, i, rng); err != nil {
			r.Violation("c19.node-deadlock-or-panic", err.Error(), map[string]interface{}{"workload": "concurrent"})
		}
	})
}
