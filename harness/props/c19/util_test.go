package c19

import (
	"bytes"
	"io"
)

func bytesReader(b []byte) io.Reader { return bytes.NewReader(b) }
