package c20

import (
	"fmt"
	"math"
	"runtime"
	"sort"
	"sync/atomic"
	"testing"
	"time"

	"github.com/dtn7/dtn7-go/pkg/bpv7"
	"github.com/dtn7/dtn7-go/pkg/routing"
	"github.com/dtn7/dtn7-go/pkg/verifhook"

	"verifh/internal/bubble"
	"verifh/internal/model"
	"verifh/internal/nodesim"
	"verifh/internal/report"
)

// arc states
const (
	absent = iota
	live
	lostEarly
	lostLate
)

const recomputeEvery = 4 * time.Second

func dtlsrConf() nodesim.Config {
	rc := nodesim.RoutingConf("dtlsr")
	rc.DTLSRConf = routing.DTLSRConfig{RecomputeTime: "4s", BroadcastTime: "1000h", PurgeTime: "1000h"}
	return nodesim.Config{Routing: rc}
}

type update struct {
	node  string
	ts    uint64            // timestamp of the link-state data (DTN ms)
	links map[string]uint64 // peer -> 0 (live) or loss time (DTN ms)
	seq   uint64
}

func (u update) wire(now uint64) []byte {
	var peers []model.PeerTime
	var names []string
	for p := range u.links {
		names = append(names, p)
	}
	sort.Strings(names)
	for _, p := range names {
		peers = append(peers, model.PeerTime{Peer: model.Dtn(p, ""), Time: u.links[p]})
	}
	m := model.Bundle{Version: 7, CRC: 2, Flags: model.FNoFragment, Dst: model.Dtn("routing", "dtlsr/broadcast/"), Src: model.Dtn(u.node, ""), Rpt: model.Dtn(u.node, ""),
		Time: now, Seq: u.seq, Lifetime: 60000,
		Blocks: []model.Block{{Type: model.TDTLSR, Num: 2, Node: model.Dtn(u.node, ""), U: u.ts, Peers: peers}, {Type: model.TPayload, Num: 1, Data: []byte{1}}}}
	w, _ := m.Encode(nil)
	return w
}

// refGraph is the harness's own view of what the node knows.
type refGraph struct {
	own  map[string]uint64            // neighbour -> 0 live / loss time
	data map[string]update            // newest accepted link-state data per node (first wins on ties)
}

// shortest computes all distances from src with Bellman-Ford at instant tc.
func (g refGraph) arcs(tc uint64) map[string]map[string]int64 {
	a := map[string]map[string]int64{}
	add := func(from, to string, t uint64) {
		if a[from] == nil {
			a[from] = map[string]int64{}
		}
		c := int64(0)
		if t != 0 {
			c = int64(tc - t)
		}
		if old, ok := a[from][to]; !ok || c < old {
			a[from][to] = c
		}
	}
	for n, t := range g.own {
		add("node", n, t)
	}
	for _, u := range g.data {
		for p, t := range u.links {
			add(u.node, p, t)
		}
	}
	return a
}

func bellmanFord(arcs map[string]map[string]int64, src string) map[string]int64 {
	dist := map[string]int64{src: 0}
	nodes := map[string]bool{src: true}
	for f, m := range arcs {
		nodes[f] = true
		for t := range m {
			nodes[t] = true
		}
	}
	for i := 0; i < len(nodes); i++ {
		changed := false
		for f, m := range arcs {
			df, ok := dist[f]
			if !ok {
				continue
			}
			for t, c := range m {
				if d, ok := dist[t]; !ok || df+c < d {
					dist[t] = df + c
					changed = true
				}
			}
		}
		if !changed {
			break
		}
	}
	return dist
}

type scen struct {
	r    *report.Run
	s    *nodesim.Sim
	d    *routing.DTLSR
	t0   time.Time
	g    refGraph
	desc map[string]interface{}
	viol bool
	seq  uint64
}

func (sc *scen) violation(sig, msg string) {
	if sc.viol {
		return
	}
	sc.viol = true
	sc.desc["trace"] = sc.s.TraceStrings()
	sc.desc["table"] = fmt.Sprint(sc.d.VerifTable())
	sc.desc["own_links"] = fmt.Sprint(sc.g.own)
	sc.desc["data"] = fmt.Sprint(sc.g.data)
	sc.r.Violation(sig, msg, sc.desc)
}

func (sc *scen) sleepTo(offset time.Duration) {
	if d := sc.t0.Add(offset).Sub(time.Now()); d > 0 {
		time.Sleep(d)
	}
	sc.s.Wait()
}

func (sc *scen) neighbour(name string, state int) {
	if state == absent {
		return
	}
	sc.s.PeerUp(name)
	sc.g.own[name] = 0
}

func (sc *scen) lose(name string) {
	sc.s.PeerDown(name)
	sc.g.own[name] = bubble.NowMs()
}

func (sc *scen) feed(u update) {
	sc.seq++
	u.seq = sc.seq
	if err := sc.s.Deliver("f", u.wire(bubble.NowMs())); err != nil {
		sc.r.Count("harness.update_rejected", 1)
		return
	}
	old, ok := sc.g.data[u.node]
	if !ok || u.ts > old.ts {
		sc.g.data[u.node] = u
	}
}

// checkTable compares the node's table with the reference at the latest recompute instant.
func (sc *scen) checkTable(dests []string) {
	if sc.viol {
		return
	}
	el := time.Since(sc.t0)
	tcOff := el / recomputeEvery * recomputeEvery
	if tcOff == 0 {
		return
	}
	tc := uint64(sc.t0.Add(tcOff).Sub(bubble.Epoch2000) / time.Millisecond)
	arcs := sc.g.arcs(tc)
	dist := bellmanFord(arcs, "node")
	table := map[string]string{}
	for k, v := range sc.d.VerifTable() {
		table[k.String()] = v.String()
	}
	sc.r.Evals(1)
	for _, d := range dests {
		key := "dtn://" + d + "/"
		dd, reachable := dist[d]
		hop, has := table[key]
		sc.r.Count("table.entries_checked", 1)
		if reachable != has {
			sc.violation(fmt.Sprintf("c20.table-reachability:reachable=%v", reachable), fmt.Sprintf("destination %s: reachable in the known link-state graph = %v, routing table has an entry = %v (%s)", d, reachable, has, hop))
			return
		}
		if !reachable {
			continue
		}
		// next hop must be an own neighbour on a minimum-cost path
		h := hop[len("dtn://") : len(hop)-1]
		c, isNb := arcs["node"][h]
		if !isNb {
			sc.violation("c20.next-hop-not-a-neighbour", fmt.Sprintf("destination %s: next hop %s is neither a current nor a recently lost neighbour", d, h))
			return
		}
		dh := bellmanFord(arcs, h)
		rest, ok := dh[d]
		if !ok || c+rest != dd {
			sc.violation("c20.next-hop-not-on-shortest-path", fmt.Sprintf("destination %s: least cost %d, but via next hop %s the cost is %d + %v", d, dd, h, c, rest))
			return
		}
		sc.r.Count("table.next_hops_verified", 1)
	}
}

// checkData compares the stored link-state data with the newest-timestamp rule.
func (sc *scen) checkData() {
	if sc.viol {
		return
	}
	got := sc.d.VerifReceived()
	for n, want := range sc.g.data {
		e := bpv7.MustNewEndpointID("dtn://" + n + "/")
		g, ok := got[e]
		sc.r.Count("data.nodes_checked", 1)
		if !ok {
			sc.violation("c20.data-missing", "no link-state data kept for "+n)
			return
		}
		if uint64(g.Timestamp) != want.ts {
			sc.violation("c20.data-not-newest", fmt.Sprintf("link-state data of %s: kept timestamp %d, newest received %d", n, g.Timestamp, want.ts))
			return
		}
		gl := map[string]uint64{}
		for p, t := range g.Peers {
			gl[p.Authority()] = uint64(t)
		}
		if fmt.Sprint(gl) != fmt.Sprint(want.links) {
			sc.violation("c20.data-wrong-version", fmt.Sprintf("link-state data of %s: kept %v, expected (first of the newest timestamp) %v", n, gl, want.links))
			return
		}
	}
}

// checkUnicast submits one bundle per destination and checks who gets it.
func (sc *scen) checkUnicast(dests []string) {
	if sc.viol {
		return
	}
	table := map[string]string{}
	for k, v := range sc.d.VerifTable() {
		table[k.Authority()] = v.Authority()
	}
	for i, d := range dests {
		pid := fmt.Sprintf("u%d", i)
		b, _ := bpv7.Builder().CRC(bpv7.CRC32).Source("dtn://node/app").Destination("dtn://" + d + "/").CreationTimestampNow().Lifetime("24h").
			PayloadBlock(nodesim.Payload(pid, 4)).Build()
		step := len(sc.s.Trace()) + 1
		sc.s.Submit(b)
		var to []string
		for _, rec := range sc.s.SendsSince(step) {
			if rec.PID == pid {
				to = append(to, rec.Peer)
			}
		}
		connected := map[string]bool{}
		for _, p := range sc.s.PeersUp() {
			connected[p] = true
		}
		sc.r.Count("unicast.bundles_checked", 1)
		var want []string
		switch {
		case connected[d]:
			want = []string{d} // direct delivery
		case table[d] != "" && connected[table[d]]:
			want = []string{table[d]}
		}
		if fmt.Sprint(to) != fmt.Sprint(want) {
			sc.violation("c20.unicast-wrong-peer", fmt.Sprintf("bundle for %s: table next hop %q, connected %v: handed to %v, expected %v", d, table[d], sc.s.PeersUp(), to, want))
			return
		}
		if len(want) == 1 {
			pend, _ := sc.s.Pending()
			for _, it := range pend {
				for _, p := range it.PIDs {
					if p == pid {
						sc.violation("c20.unicast-not-released", fmt.Sprintf("bundle for %s was handed to %s successfully but is still kept for retry", d, want[0]))
						return
					}
				}
			}
			sc.r.Count("unicast.forwarded_and_released", 1)
		}
	}
}

func lossTime(t0 time.Time, state int) uint64 {
	off := 2 * time.Second
	if state == lostLate {
		off = 7 * time.Second
	}
	return uint64(t0.Add(off).Sub(bubble.Epoch2000) / time.Millisecond)
}

// graphCase: own arcs to a, b; foreign arcs a->b, b->a, a->d, b->d (and optionally more), each in one of four states.
func graphCase(r *report.Run, states []int, extra []update, label string) error {
	return bubble.Run(nil, func(t *testing.T) {
		s, err := nodesim.New(dtlsrConf())
		if err != nil {
			r.Violation("c20.open-failed", err.Error(), nil)
			return
		}
		defer s.Close()
		d, ok := s.Core.VerifAlgorithm().(*routing.DTLSR)
		if !ok {
			return
		}
		sc := &scen{r: r, s: s, d: d, t0: time.Now(), g: refGraph{own: map[string]uint64{}, data: map[string]update{}},
			desc: map[string]interface{}{"arc_states(own a, own b, a->b, b->a, a->d, b->d ...)": states, "workload": label}}
		sc.neighbour("f", live) // the feeder that delivers link-state bundles
		sc.neighbour("a", states[0])
		sc.neighbour("b", states[1])
		for i, n := range []string{"a", "b"} {
			if states[i] == lostEarly {
				sc.sleepTo(2 * time.Second)
				sc.lose(n)
			}
		}
		for i, n := range []string{"a", "b"} {
			if states[i] == lostLate {
				sc.sleepTo(7 * time.Second)
				sc.lose(n)
			}
		}
		sc.sleepTo(9 * time.Second)
		mk := func(node string, pairs ...interface{}) update {
			u := update{node: node, ts: bubble.NowMs(), links: map[string]uint64{}}
			for i := 0; i+1 < len(pairs); i += 2 {
				st := pairs[i+1].(int)
				switch st {
				case live:
					u.links[pairs[i].(string)] = 0
				case lostEarly, lostLate:
					u.links[pairs[i].(string)] = lossTime(sc.t0, st)
				}
			}
			return u
		}
		ua := mk("a", "b", states[2], "d", states[4])
		ub := mk("b", "a", states[3], "d", states[5])
		if len(states) > 6 {
			ua = mk("a", "b", states[2], "d", states[4], "c", states[6])
			uc := mk("c", "d", states[7], "b", states[8])
			sc.feed(uc)
		}
		sc.feed(ua)
		sc.feed(ub)
		for _, u := range extra {
			sc.feed(u)
		}
		dests := []string{"a", "b", "c", "d", "f"}
		sc.sleepTo(13 * time.Second) // recompute job ran at +12 s
		sc.checkData()
		sc.checkTable(dests)
		sc.checkUnicast(dests)
		// later instant: lost links have aged, the table follows
		sc.sleepTo(41 * time.Second)
		sc.checkTable(dests)
		// the known graph shrinks: newer link-state data of a and b no longer lists d (and, every other case, a no longer
		// lists anybody); destinations that lose their last path must leave the table at the next recomputation
		shrink := func(u update, drop ...string) update {
			n := update{node: u.node, ts: bubble.NowMs(), links: map[string]uint64{}}
			for p, t := range u.links {
				n.links[p] = t
			}
			for _, p := range drop {
				delete(n.links, p)
			}
			return n
		}
		code := 0
		for _, st := range states {
			code = code*4 + st
		}
		if code%2 == 0 {
			sc.feed(shrink(ua, "d"))
		} else {
			sc.feed(shrink(ua, "d", "b", "c"))
		}
		sc.feed(shrink(ub, "d"))
		before := len(sc.d.VerifTable())
		sc.sleepTo(45 * time.Second) // recompute job at +44 s
		sc.checkData()
		sc.checkTable(dests)
		if after := len(sc.d.VerifTable()); after < before {
			r.Count("table.entries_removed_after_graph_shrank", before-after)
		}
		if !sc.viol {
			r.Nontrivial(label, fmt.Sprint(states), len(extra))
			r.Count("graphs."+label, 1)
		}
	})
}

// orderCase: link-state updates of one node with distinct and equal timestamps arrive in every order.
func orderCase(r *report.Run, perm []int, tss []uint64) error {
	return bubble.Run(nil, func(t *testing.T) {
		s, err := nodesim.New(dtlsrConf())
		if err != nil {
			return
		}
		defer s.Close()
		d := s.Core.VerifAlgorithm().(*routing.DTLSR)
		sc := &scen{r: r, s: s, d: d, t0: time.Now(), g: refGraph{own: map[string]uint64{}, data: map[string]update{}},
			desc: map[string]interface{}{"arrival_order": perm, "timestamps": tss, "workload": "update-order"}}
		sc.neighbour("f", live)
		sc.sleepTo(1 * time.Second)
		base := bubble.NowMs()
		for _, k := range perm {
			// update k announces a live link to node "v<k>": the kept version is recognisable
			u := update{node: "a", ts: base - 1000 + tss[k], links: map[string]uint64{fmt.Sprintf("v%d", k): 0}}
			sc.feed(u)
		}
		sc.checkData()
		sc.sleepTo(5 * time.Second)
		var dests []string
		for k := range perm {
			dests = append(dests, fmt.Sprintf("v%d", k))
		}
		sc.checkTable(append(dests, "a", "f"))
		if !sc.viol {
			r.Nontrivial("order", fmt.Sprint(perm), fmt.Sprint(tss))
			r.Count("orders.checked", 1)
		}
	})
}

// broadcastCase: the node's own link-state bundle goes exactly once to every connected peer.
func broadcastCase(r *report.Run, k int, failFirst bool) error {
	return bubble.Run(nil, func(t *testing.T) {
		rc := nodesim.RoutingConf("dtlsr")
		rc.DTLSRConf = routing.DTLSRConfig{RecomputeTime: "5s", BroadcastTime: "7s", PurgeTime: "1000h"}
		s, err := nodesim.New(nodesim.Config{Routing: rc})
		if err != nil {
			return
		}
		defer s.Close()
		var names []string
		for i := 0; i < k; i++ {
			n := fmt.Sprintf("p%d", i)
			names = append(names, n)
			s.PeerUp(n)
		}
		var gate chan struct{}
		var arrived, forced int32
		if failFirst {
			// every transmission of the first broadcast is parked and then fails at the same moment; the failure reports
			// are brought together between reading and writing back the list of served peers (hook): a lock held
			// across that read-modify-write keeps the partner out and nothing is forced
			gate = make(chan struct{})
			for _, n := range names {
				p := s.Peer(n)
				p.Gate = gate
				p.Fail()
			}
			verifhook.Set("routing.dtlsr.reportfailure.rmw", func() {
				if atomic.AddInt32(&arrived, 1) == 1 {
					for spin := 0; spin < 200000 && atomic.LoadInt32(&arrived) < 2; spin++ {
						runtime.Gosched()
					}
					if atomic.LoadInt32(&arrived) >= 2 {
						atomic.StoreInt32(&forced, 1)
					}
				}
			})
			defer verifhook.Set("routing.dtlsr.reportfailure.rmw", nil)
			time.Sleep(8 * time.Second) // broadcast job at +7 s; all sends are parked now
			s.Wait()
			close(gate)
			s.Wait()
			for _, n := range names {
				p := s.Peer(n)
				p.Gate = nil
				p.OK()
			}
			if atomic.LoadInt32(&forced) == 1 {
				r.Count("broadcast.failure_reports_interleaved_at_hook", 1)
			} else {
				r.Count("broadcast.failure_reports_serialised_by_lock", 1)
			}
			r.Count("broadcast.simultaneous_failures", int(atomic.LoadInt32(&arrived)))
		}
		s.Tick(8 * time.Second) // broadcast job at +7 s
		s.Tick(11 * time.Second)
		s.Tick(10 * time.Second)
		perID := map[string]map[string]int{}
		for _, rec := range s.Sends() {
			if rec.Bundle.Find(model.TDTLSR) == nil || rec.Bundle.Src != model.Dtn("node", "") {
				continue
			}
			if perID[rec.ID] == nil {
				perID[rec.ID] = map[string]int{}
			}
			if rec.OK {
				perID[rec.ID][rec.Peer]++
			}
		}
		r.Count("broadcast.bundles_seen", len(perID))
		for id, m := range perID {
			for _, n := range names {
				r.Count("broadcast.peer_deliveries_checked", 1)
				if m[n] != 1 {
					cls := "missing"
					if m[n] > 1 {
						cls = "repeated"
					}
					r.Violation("c20.broadcast-not-exactly-once:"+cls, fmt.Sprintf("link-state bundle %s was handed to peer %s %d times (peers %v stayed connected)", id, n, m[n], names),
						map[string]interface{}{"peers": names, "trace": s.TraceStrings()})
					return
				}
			}
		}
		if len(perID) > 0 {
			r.Nontrivial("broadcast", k)
		}
	})
}

func TestCheck(t *testing.T) {
	bubble.Quiet()
	bubble.SetT(t)
	r := report.Start(t, "C20")
	defer r.Finish()
	bubble.WatchDeadlocks(3, func(frame, dump string) { r.DeadlockVerdict("c20", frame, dump) })
	_ = math.MaxInt64

	fail := func(err error, what interface{}) {
		if err != nil {
			r.Violation("c20.node-deadlock-or-panic", err.Error(), what)
		}
	}

	// all graphs over self + {a, b, d} with six arcs in four states (exhaustive)
	r.Group("graphs4", 4096, func(i int, rng *report.Rand) {
		st := make([]int, 6)
		x := i
		for k := range st {
			st[k] = x % 4
			x /= 4
		}
		fail(graphCase(r, st, nil, "exhaustive-6-arcs"), st)
		if i == 1234 {
			r.Sample(map[string]interface{}{"arc_states(own a, own b, a->b, b->a, a->d, b->d)": st, "meaning": "0 absent, 1 live, 2 lost 2 s after start, 3 lost 7 s after start"})
		}
	})
	r.Exhaustive("graphs on {self, a, b, d (+feeder)}: own links to a, b and links a->b, b->a, a->d, b->d each absent / live / lost early / lost late")

	// larger random graphs (nine arcs incl. node c) and extra updates
	r.Group("graphs-random", r.Pick(600, 15000), func(i int, rng *report.Rand) {
		st := make([]int, 9)
		for k := range st {
			st[k] = rng.Intn(4)
		}
		fail(graphCase(r, st, nil, "random-9-arcs"), st)
	})

	// arrival orders: all permutations of up to 4 updates with distinct / equal timestamps
	type oc struct {
		perm []int
		tss  []uint64
	}
	var ocs []oc
	for _, tss := range [][]uint64{{1, 2, 3}, {5, 5, 9}, {7, 7, 7}, {1, 2, 3, 4}, {4, 4, 2, 2}, {9, 1, 9, 1}} {
		for _, p := range perms(len(tss)) {
			ocs = append(ocs, oc{p, tss})
		}
	}
	r.Group("update-order", len(ocs), func(i int, rng *report.Rand) {
		fail(orderCase(r, ocs[i].perm, ocs[i].tss), ocs[i])
	})
	r.Exhaustive("all arrival orders of 3-4 link-state updates of one node with distinct and equal timestamps")

	r.Group("broadcast", 12, func(i int, rng *report.Rand) {
		fail(broadcastCase(r, 1+i%6, false), i)
	})
	r.Group("broadcast-failures", 15, func(i int, rng *report.Rand) {
		fail(broadcastCase(r, 2+i%5, true), i)
	})
}

func perms(n int) [][]int {
	var out [][]int
	var rec func(cur []int, used int)
	rec = func(cur []int, used int) {
		if len(cur) == n {
			out = append(out, append([]int(nil), cur...))
			return
		}
		for i := 0; i < n; i++ {
			if used>>uint(i)&1 == 0 {
				rec(append(cur, i), used|1<<uint(i))
			}
		}
	}
	rec(nil, 0)
	return out
}
