"""Per-property configuration of the check driver: one JSON file per property under props/ (see DESIGN.md section 3)."""
import glob
import json
import os

PROPS = {}
for _p in sorted(glob.glob(os.path.join(os.path.dirname(os.path.abspath(__file__)), "props", "C*.json"))):
    PROPS[os.path.basename(_p)[:-5]] = json.load(open(_p))
