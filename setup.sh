#!/bin/sh
# setup_cmd: warm the go1.26.8 build caches (std, std -race, harness dependencies) from files on disk only.
set -e
cd "$(dirname "$0")/harness"
export GOFLAGS=-mod=mod GOPROXY=off GOSUMDB=off GOTOOLCHAIN=local
cp /repo/go.sum go.sum 2>/dev/null || true
mkdir -p ../.bin ../evidence ../replays
go1.26.8 build -tags verif ./... 
go1.26.8 vet -tags verif ./internal/... >/dev/null 2>&1 || true
# compile every monitor package once (plain and race) so that checks only relink
for d in props/*/; do
  n=$(basename "$d")
  go1.26.8 test -c -tags verif -o ../.bin/warm.test "./props/$n" >/dev/null 2>&1 || echo "warm: $n failed to build"
done
for d in props/*/; do
  n=$(basename "$d")
  go1.26.8 test -c -race -tags verif -o ../.bin/warm.test "./props/$n" >/dev/null 2>&1 || echo "warm(race): $n failed to build"
done
rm -f ../.bin/warm.test
echo setup done
