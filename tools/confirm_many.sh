#!/bin/bash
# usage: confirm_many.sh id...   -> runs confirm_seed.sh + record_seed.py for each id sequentially
for id in "$@"; do
  /verif/tools/confirm_seed.sh "$id" > "/verif/.work/confirm-$id.out" 2>&1
  python3 /verif/tools/record_seed.py "$id" >> /verif/.work/confirm-summary.log 2>&1
done
echo "BATCH-DONE $*" >> /verif/.work/confirm-summary.log
