#!/bin/bash
# Confirms an independently seeded change and runs the property's check against it.
# usage: confirm_seed.sh <seed-id e.g. C02-a> [tier]     (inputs: /tmp/seed-out/<id>/, agent worktree /tmp/seed-<id>)
id="$1"; tier="${2:-quick}"
prop="${id%%-*}"
src="/tmp/seed-out/$id"; awt="/tmp/seed-$id"
wt="/tmp/wt-confirm-$id"
out="/verif/.work/seed-$id.log"
export GOFLAGS=-mod=mod GOPROXY=off GOSUMDB=off
mkdir -p /verif/.work
: > "$out"
[ -f "$src/patch.diff" ] || { echo "no patch for $id" | tee -a "$out"; exit 2; }
git -C /repo worktree remove --force "$wt" >/dev/null 2>&1
git -C /repo worktree add --detach "$wt" HEAD >/dev/null 2>&1 || { echo "worktree failed" | tee -a "$out"; exit 2; }
# place the demonstration files: path named in the head of each file (agents' convention), else same relative path
# as in the agent's worktree
demos=""
for f in "$src"/demo/*.go; do
  [ -f "$f" ] || continue
  rel=$(head -8 "$f" | grep -o '\(pkg\|cmd\)/[A-Za-z0-9_/.-]*\.go' | head -1)
  if [ -z "$rel" ]; then
    rel=$(cd "$awt" && git status --porcelain --untracked-files=all | awk '{print $2}' | grep "$(basename $f)" | head -1)
  fi
  if [ -z "$rel" ]; then
    pk=$(python3 -c "import json,re;m=json.load(open('$src/meta.json'));r=re.search(r'\./(pkg|cmd)/[A-Za-z0-9_/.-]*',m.get('demo_cmd',''));print(r.group(0)[2:].rstrip('/') if r else '')")
    [ -n "$pk" ] && rel="$pk/$(basename $f)"
  fi
  [ -z "$rel" ] && { echo "cannot place $f" >> "$out"; continue; }
  mkdir -p "$wt/$(dirname $rel)"; cp "$f" "$wt/$rel"; demos="$demos $rel"
done
pkgs=$(for f in $demos; do echo "./$(dirname $f)/"; done | sort -u | tr '\n' ' ')
echo "demo files: $demos ; packages: $pkgs" >> "$out"
res() { echo "$1" | tee -a "$out"; }
# 1. demo passes without the change
( cd "$wt" && timeout 600 go test -count=1 -run 'Seeded|Demo' $pkgs ) >> "$out" 2>&1 && res "demo_without_change=PASS" || res "demo_without_change=FAIL"
# 2. apply, build
git -C "$wt" apply "$src/patch.diff" >> "$out" 2>&1 && res "patch_applies=yes" || { res "patch_applies=NO"; }
( cd "$wt" && go build ./... && go build -tags verif ./... ) >> "$out" 2>&1 && res "builds=yes" || res "builds=NO"
# 3. demo fails with the change
( cd "$wt" && timeout 600 go test -count=1 -run 'Seeded|Demo' $pkgs ) >> "$out" 2>&1 && res "demo_with_change=PASS(bad)" || res "demo_with_change=FAIL(good)"
# 4. existing tests pass with the change (demo excluded); packages that fail are retried alone (load-flaky network tests)
if ( cd "$wt" && timeout 1500 go test -count=1 -skip 'Seeded|TestWebAgentConnector' ./pkg/... ) > "$out.tests" 2>&1; then
  res "existing_tests=PASS"
else
  failed=$(grep '^FAIL\s' "$out.tests" | awk '{print $2}' | sort -u)
  allok=yes
  for fp in $failed; do
    ok=no
    for try in 1 2 3; do
      # load-flaky network tests: wait (up to 3 min) for the machine to calm down before a retry
      for w in $(seq 1 18); do l=$(cut -d. -f1 /proc/loadavg); [ "$l" -lt 14 ] && break; sleep 10; done
      if ( cd "$wt" && timeout 900 go test -count=1 -skip 'Seeded|TestWebAgentConnector' "$fp" ) > "$out.tests.retry" 2>&1; then ok=yes; break; fi
    done
    echo "retry $fp: $ok" >> "$out"
    [ "$ok" = yes ] || { allok=no; grep -E '^\s*--- FAIL|^FAIL|_test.go' "$out.tests.retry" | head -8 >> "$out"; }
  done
  [ "$allok" = yes ] && res "existing_tests=PASS(after-retry-of:$(echo $failed | tr ' ' ','))" || res "existing_tests=FAIL"
fi
# 5. the property's check against the changed tree (demo files removed so that only the change counts)
for f in $demos; do rm -f "$wt/$f"; done
chk=$(cd /verif && VERIF_REPO="$wt" timeout 3400 ./check "$prop" "$tier" 2>&1)
rc=$?
echo "$chk" | grep -v '^  [^s]' | tail -12 >> "$out"
res "check_exit=$rc"
echo "$chk" | grep '^  signature:' | head -5 | tee -a "$out"
git -C /repo worktree remove --force "$wt" >/dev/null 2>&1
# keep it
if [ -n "$KEEP" ]; then
  d="/verif/seeded/$id"; mkdir -p "$d/demo"
  cp "$src/patch.diff" "$d/"; cp -r "$src/demo/." "$d/demo/" 2>/dev/null
  cp "$src/meta.json" "$d/meta.agent.json" 2>/dev/null
fi
