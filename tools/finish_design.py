#!/usr/bin/env python3
"""Regenerates the seeded-change table of DESIGN.md section 11.5 (between the markers) from seeded/*/meta.json."""
import re, subprocess
p = "/verif/DESIGN.md"
s = open(p).read()
table = subprocess.run(["python3", "/verif/tools/seed_table.py"], capture_output=True, text=True).stdout.strip()
block = "<!-- seed-table:begin -->\n" + table + "\n<!-- seed-table:end -->"
if "@SEEDTABLE@" in s:
    s = s.replace("@SEEDTABLE@", block)
else:
    s = re.sub(r"<!-- seed-table:begin -->.*?<!-- seed-table:end -->", lambda m: block, s, flags=re.S)
open(p, "w").write(s)
print("table rows:", table.count("\n") - 1)
