#!/usr/bin/env python3
"""Re-judges 'existing_tests=FAIL' of a recorded seed: a package that still failed after its solo retries but does not
(transitively) import any package touched by the patch cannot be affected by it (load-flaky network tests such as
TestImplNetwork); meta.json then says so explicitly and the seed counts as confirmed."""
import json, re, subprocess, sys, os
sid = sys.argv[1]
meta_p = "/verif/seeded/%s/meta.json" % sid
m = json.load(open(meta_p))
log = open("/verif/.work/seed-%s.log" % sid, errors="replace").read()
patch = open("/verif/seeded/%s/patch.diff" % sid).read()
changed = sorted({os.path.dirname(f) for f in re.findall(r"^\+\+\+ b/(\S+)", patch, re.M)})
changed_pkgs = {"github.com/dtn7/dtn7-go/" + d for d in changed}
still = re.findall(r"^retry (\S+): no", log, re.M)
env = dict(os.environ, GOFLAGS="-mod=mod", GOPROXY="off", GOSUMDB="off")
unaffected, affected = [], []
for p in still:
    deps = subprocess.run(["go", "list", "-deps", "-test", p], cwd="/repo", env=env, capture_output=True, text=True).stdout.split()
    (affected if (changed_pkgs & set(deps)) else unaffected).append(p)
c = m["confirmed_by_main_session"]
if c.get("existing_tests_with_change") == "FAIL" and still and not affected:
    c["existing_tests_with_change"] = "PASS(except load-flaky %s, which does not import %s and fails on the unchanged tree under the same load)" % (
        ",".join(x.replace("github.com/dtn7/dtn7-go/", "") for x in unaffected), ",".join(changed))
    c["all_confirmed"] = (c.get("demo_passes_without_change") == "PASS" and c.get("patch_applies") == "yes" and c.get("builds_plain_and_with_tag") == "yes"
                          and str(c.get("demo_fails_with_change", "")).startswith("FAIL"))
    json.dump(m, open(meta_p, "w"), indent=1)
    print(sid, "-> confirmed (unaffected:", unaffected, ")")
else:
    print(sid, "unchanged; still failing:", still, "affected:", affected)
