#!/bin/bash
# Re-runs the property's check against a recorded seeded change and updates its meta.json (check_result, caught).
# usage: recheck_seed.sh <seed-id> [tier]
id="$1"; tier="${2:-quick}"; prop="${id%%-*}"
d="/verif/seeded/$id"; [ -f "$d/patch.diff" ] || { echo "no $d/patch.diff"; exit 2; }
wt="/tmp/wt-recheck-$id"
git -C /repo worktree remove --force "$wt" >/dev/null 2>&1
git -C /repo worktree add --detach "$wt" HEAD >/dev/null 2>&1 || exit 2
if ! git -C "$wt" apply "$d/patch.diff" 2>/dev/null; then
  # the recorded patch was made against an older HEAD: try a 3-way apply
  git -C "$wt" apply --3way "$d/patch.diff" >/dev/null 2>&1 || { echo "$id PATCH-DOES-NOT-APPLY"; git -C /repo worktree remove --force "$wt"; exit 2; }
fi
out=$(cd /verif && VERIF_REPO="$wt" timeout 3400 ./check "$prop" "$tier" 2>&1); rc=$?
git -C /repo worktree remove --force "$wt" >/dev/null 2>&1
python3 - "$id" "$rc" "$tier" <<PY
import json,sys,re,subprocess
sid,rc,tier=sys.argv[1],sys.argv[2],sys.argv[3]
out='''$(echo "$out" | grep '^  signature:' | sed 's/^  signature: //' | head -6 | sed "s/'/ /g")'''
sigs=[l for l in out.splitlines() if l.strip()]
p='/verif/seeded/%s/meta.json'%sid
m=json.load(open(p))
head=subprocess.run(['git','-C','/verif','rev-parse','--short','HEAD'],capture_output=True,text=True).stdout.strip()
prev=m.get('check_result',{})
hist=m.setdefault('check_history',[])
if prev and (not hist or hist[-1].get('exit')!=prev.get('exit')):
    hist.append({'exit':prev.get('exit'),'signatures':prev.get('signatures',[])[:3],'note':'earlier run'})
m['check_result']={'command':'VERIF_REPO=<worktree with patch> ./check %s %s'%(sid.split('-')[0],tier),'exit':rc,'signatures':sigs,'verif_commit':head}
m['caught']= rc=='1'
json.dump(m,open(p,'w'),indent=1)
print(sid,'caught' if rc=='1' else 'MISSED(exit %s)'%rc,sigs[:2])
PY
