#!/bin/bash
# For seeds whose only remaining suite failure is pkg/cla/tcpclv4 (load-flaky TestImplNetwork, but the package imports the
# changed package): run that package alone against the patched tree, up to 3 times, waiting for a calm machine first.
# usage: reconfirm_tcpcl.sh <seed-id>...
export GOFLAGS=-mod=mod GOPROXY=off GOSUMDB=off
for id in "$@"; do
  wt="/tmp/wt-retcp-$id"
  git -C /repo worktree remove --force "$wt" >/dev/null 2>&1
  git -C /repo worktree add --detach "$wt" HEAD >/dev/null 2>&1 || continue
  git -C "$wt" apply "/verif/seeded/$id/patch.diff" 2>/dev/null || git -C "$wt" apply --3way "/verif/seeded/$id/patch.diff" >/dev/null 2>&1
  ok=no
  for try in 1 2 3; do
    for w in $(seq 1 30); do l=$(cut -d. -f1 /proc/loadavg); [ "$l" -lt 10 ] && break; sleep 10; done
    if ( cd "$wt" && timeout 900 go test -count=1 ./pkg/cla/tcpclv4/... ) > "/verif/.work/retcp-$id.log" 2>&1; then ok=yes; break; fi
  done
  git -C /repo worktree remove --force "$wt" >/dev/null 2>&1
  python3 - "$id" "$ok" <<'PY'
import json,sys
i,ok=sys.argv[1],sys.argv[2]
p='/verif/seeded/%s/meta.json'%i; m=json.load(open(p)); c=m['confirmed_by_main_session']
if ok=='yes':
    c['existing_tests_with_change']='PASS(pkg/cla/tcpclv4 failed under load in the suite run and passed when re-run alone on a calm machine: tools/reconfirm_tcpcl.sh)'
    c['all_confirmed']= c.get('demo_passes_without_change')=='PASS' and c.get('patch_applies')=='yes' and c.get('builds_plain_and_with_tag')=='yes' and str(c.get('demo_fails_with_change','')).startswith('FAIL')
    json.dump(m,open(p,'w'),indent=1)
print(i,'tcpclv4 alone:',ok)
PY
done
