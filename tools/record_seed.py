#!/usr/bin/env python3
"""Files a confirmed seeded change under /verif/seeded/<id>/ (patch.diff, demo/, meta.json)."""
import json, os, re, shutil, sys
sid = sys.argv[1]
src = "/tmp/seed-out/%s" % sid
out = "/verif/seeded/%s" % sid
conf = open("/verif/.work/confirm-%s.out" % sid).read()
def field(name):
    m = re.search(r"^%s=(.*)$" % name, conf, re.M)
    return m.group(1) if m else None
agent = json.load(open(os.path.join(src, "meta.json")))
sigs = re.findall(r"^\s+signature: (.*)$", conf, re.M)
ok = (field("demo_without_change") == "PASS" and field("patch_applies") == "yes" and field("builds") == "yes"
      and (field("demo_with_change") or "").startswith("FAIL") and (field("existing_tests") or "").startswith("PASS"))
os.makedirs(os.path.join(out, "demo"), exist_ok=True)
shutil.copyfile(os.path.join(src, "patch.diff"), os.path.join(out, "patch.diff"))
for f in os.listdir(os.path.join(src, "demo")):
    shutil.copyfile(os.path.join(src, "demo", f), os.path.join(out, "demo", f))
meta = {
    "id": sid,
    "property": agent.get("property", sid.split("-")[0]),
    "origin": "independent sub-agent given only the property text and its own scratch worktree",
    "summary": agent.get("summary"),
    "needs_to_manifest": agent.get("needs"),
    "files": agent.get("files"),
    "demo_cmd": agent.get("demo_cmd"),
    "confirmed_by_main_session": {
        "scratch_worktree": "fresh worktree of /repo HEAD, removed afterwards (tools/confirm_seed.sh)",
        "demo_passes_without_change": field("demo_without_change"),
        "patch_applies": field("patch_applies"),
        "builds_plain_and_with_tag": field("builds"),
        "demo_fails_with_change": field("demo_with_change"),
        "existing_tests_with_change": field("existing_tests"),
        "all_confirmed": ok,
    },
    "check_result": {"command": "VERIF_REPO=<worktree with patch> ./check %s quick" % sid.split("-")[0],
                     "exit": field("check_exit"), "signatures": sigs},
    "caught": field("check_exit") == "1",
}
json.dump(meta, open(os.path.join(out, "meta.json"), "w"), indent=1)
print(sid, "confirmed" if ok else "NOT-CONFIRMED", "caught" if meta["caught"] else "MISSED", sigs[:2])
