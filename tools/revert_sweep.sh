#!/bin/bash
# Sensitivity sweep: for each "commit check" pair, build a scratch worktree of /repo with that fix commit reverted
# and run the check's quick tier against it.  Expect VIOLATION.  usage: revert_sweep.sh <pairs-file> <out-log>
pairs="$1"; out="$2"
: > "$out"
while read -r commit check rest; do
  [ -z "$commit" ] && continue
  case "$commit" in \#*) continue;; esac
  wt="/tmp/wt-revert-$commit-$check"
  git -C /repo worktree remove --force "$wt" >/dev/null 2>&1
  git -C /repo worktree add --detach "$wt" HEAD >/dev/null 2>&1 || { echo "$commit $check WORKTREE-FAILED" >> "$out"; continue; }
  if ! git -C "$wt" revert --no-edit --no-commit "$commit" >/dev/null 2>&1; then
    echo "$commit $check REVERT-CONFLICT" >> "$out"
    git -C /repo worktree remove --force "$wt" >/dev/null 2>&1
    continue
  fi
  res=$(cd /verif && VERIF_REPO="$wt" timeout 3000 ./check "$check" quick 2>&1)
  rc=$?
  sigs=$(echo "$res" | grep '^  signature:' | sed 's/^  signature: //' | head -6 | tr '\n' '|')
  echo "$commit $check exit=$rc sigs=$sigs" >> "$out"
  echo "$res" | tail -2 >> "$out"
  git -C /repo worktree remove --force "$wt" >/dev/null 2>&1
done < "$pairs"
echo SWEEP-DONE >> "$out"
