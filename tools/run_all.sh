#!/bin/bash
# Runs every check's tier (default quick) sequentially; logs exit code and wall time.  usage: run_all.sh [tier] [seed] [ids...]
tier="${1:-quick}"; seed="${2:-1}"; shift 2 2>/dev/null
ids="$*"; [ -z "$ids" ] && ids="C01 C02 C03 C04 C05 C06 C07 C08 C09 C10 C11 C12 C13 C14 C15 C16 C17 C18 C19 C20"
mkdir -p /verif/.work
log="/verif/.work/runall-$tier-$seed.log"; : > "$log"
for id in $ids; do
  t0=$(date +%s)
  VERIF_SEED=$seed ./check $id $tier > "/verif/.work/runall-$id-$tier-$seed.out" 2>&1
  rc=$?
  t1=$(date +%s)
  echo "$id $tier seed=$seed exit=$rc wall=$((t1-t0))s $(grep -E '^(VIOLATION|KNOWN-FINDING|INCONCLUSIVE)' /verif/.work/runall-$id-$tier-$seed.out | head -3 | tr '\n' '|')" >> "$log"
done
echo ALL-DONE >> "$log"
