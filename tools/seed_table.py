#!/usr/bin/env python3
"""Prints the markdown table of seeded changes (DESIGN.md section 11.5) from seeded/*/meta.json."""
import glob, json, os
first_missed = {
 "C05-b": "missed by the first version (no race pass in the quick tier, 2-4 simultaneous failures); caught since the simultaneous-failure group runs under the race detector with 2-8 peers",
 "C06-a": "missed (only one unknown block per case); caught since the drawn block mixes (several adjacent unknown blocks flagged for removal, retransmission from the store)",
 "C06-b": "missed (block numbers ascending in every workload); caught since the drawn block mixes use dense, unordered block numbers",
 "C12-b": "missed (only resets were injected); caught since the orderly-close variant (peer closes, sender's socket in CLOSE_WAIT, small bundle)",
 "C13-a": "missed (one convergence layer per peer); caught since a second link to one peer and the overlapping-double-success rule",
 "C13-b": "missed (no foreign link-state broadcasts); caught since out-of-order link-state broadcasts of a third node",
 "C14-a": "missed (submissions march in step behind the store mutex; the keeper's window is a few hundred ns); caught since the keeper-contention workloads (hook H7) - by duplicate numbers, by the runtime's concurrent-map fatal error and by the race detector",
 "C15-b": "missed (only dtn://node/nobody was used as endpoint without agent); caught since the bare node ID is a table outcome (also added to C07, which now catches it too)",
 "C16-a": "missed (one event, then quiescence; Close returned at once); caught since the burst workload (slow Close, queued peer losses, Manager.Close while busy) - process-fatal 'close of closed channel'",
 "C16-b": "missed (no status traffic between ticks); caught since the traffic workload (retry schedule with and without traffic must agree)",
 "C20-a": "missed (one recomputation per graph); caught since the graph shrinks through newer link-state data and is recomputed",
 "C20-b": "missed (broadcast failures not exercised); caught since simultaneous broadcast failures are brought together at the new hook in DTLSR.ReportFailure",
 "C07-c": "missed (no recipient left during a hand-over); caught since the mux-leave workload - duplicate delivery, race report and 'send on closed channel'",
 "C01-c": "missed (no failing serialisations); caught since the failing-writer workload",
 "C08-c": "not a C08 scenario (C08's pools come from one fragmentation; which of two same-offset fragments the store keeps is C10's subject) - missed by C08, caught by C10's store part (`c10.store.iscomplete-wrong:...same-offset-different-length`)",
 "C11-d": "missed (the hostile workload mirrors Client.Start instead of using it, every dtn7-go peer announces 1 MiB); caught since the real Client runs against the scripted peer with small announced segment MRUs",
 "C15-c": "missed twice over: a report naming another ID was skipped as 'about another bundle', and no report was produced on the retry path; caught since wrong fragment references are judged and the table has outcomes on the retry path",
 "C05-c": "missed (retention was only judged at quiescent points); caught since R1 is also judged while the transmissions are parked on the gate",
 "C05-d": "missed (never more than a handful of bundles waiting); caught since the backlog workload (20-120 waiting bundles)",
 "C13-c": "missed; the workload built for it (peer appears / retry job fires while the first selection of peers is under way) found two genuine defects of the unchanged tree instead (fixed: 960f60a, dc87868). After dc87868 one bundle is forwarded by one goroutine at a time, which makes the lock this change removes redundant: the change no longer breaks the property and stays undetected",
}
rows = []
for p in sorted(glob.glob(os.path.join(os.path.dirname(__file__), "..", "seeded", "*", "meta.json"))):
    m = json.load(open(p))
    sid = m["id"]
    conf = m.get("confirmed_by_main_session", {})
    ok = conf.get("all_confirmed")
    sigs = m.get("check_result", {}).get("signatures", [])
    sig = sigs[0] if sigs else ""
    note = first_missed.get(sid, "caught by the check as it was")
    if sid.startswith("revert"):
        note = "own mutant (fix reverted), kept from the first sessions"
        ok = True
    what = (m.get("summary") or "").split(". ")[0][:160]
    rows.append("| %s | %s | %s | %s | `%s` | %s |" % (sid, m.get("property", "")[:3], what.replace("|", "/"), "yes" if ok else "NO (%s)" % conf.get("existing_tests_with_change"),
                                                   sig.replace("|", "/")[:90], note))
print("| id | prop. | change (first sentence of the author's summary) | confirmed | first signature reported | history |")
print("|----|-------|-----------|-----------|-----------|---------|")
print("\n".join(rows))
