#!/bin/bash
# Runs a check against /repo HEAD + patch.  usage: try_patch.sh <patch.diff> <Cxx> [tier]
patch="$(realpath "$1")"; check="$2"; tier="${3:-quick}"
wt="/tmp/wt-try-$$"
git -C /repo worktree add --detach "$wt" HEAD >/dev/null 2>&1 || exit 2
if ! git -C "$wt" apply "$patch"; then echo "PATCH-DOES-NOT-APPLY"; git -C /repo worktree remove --force "$wt"; exit 2; fi
(cd /verif && VERIF_REPO="$wt" ./check "$check" "$tier" 2>&1 | grep -v '^  [^s]' | cut -c1-260 | tail -8)
git -C /repo worktree remove --force "$wt" >/dev/null 2>&1
